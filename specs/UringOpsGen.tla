---------------------------- MODULE UringOpsGen ----------------------------
(* C18 batch generator.  Operations are drawn from small argument universes (5 names, 3       *)
(* handles); a batch is a sequence of operations grouped into IOSQE_IO_LINK chains.  Chains   *)
(* and unlinked operations of one batch must be independent (no shared name or handle),       *)
(* because the kernel may run them in any order; inside a chain anything goes.                *)
(*   Mode "pairs": every batch of one or two operations (initial states), each to be run on   *)
(*                 a freshly reset world.                                                     *)
(*   Mode "walk":  `tlc -simulate`: operations are appended one at a time (link to the        *)
(*                 previous one or not) and batches closed; each behaviour is a long sequence  *)
(*                 of batches for ONE ring and an evolving world.                              *)
(*   Mode "singles": every single operation.                                                  *)
EXTENDS Integers, Sequences, FiniteSets, TLC, Json, Randomization
CONSTANTS Mode, MaxBatch, D

\* names: 0 f0, 1 f1, 2 nx (absent), 3 d (directory), 4 d/x (absent), 5 x, 6 cw, 7 ln (symlink to f0), resolved
\* against a directory descriptor: dir 0 = the world's root, 1 = its subdirectory d, 2 = None (AT_FDCWD: the process'
\* working directory, which holds only cw and is used read-only).  Every pair of same-typed constructor arguments
\* is distinguishable: f0 exists in the root but not in d, x only makes sense in d, cw only in the working directory;
\* two creation modes; three rename flag values; two registered buffers; two protocols.
Handles == 0..2
RenameArgs == {<<0,0,0,2,0>>, <<0,2,0,0,0>>, <<0,1,0,4,0>>, <<0,3,0,2,0>>, <<0,2,0,3,0>>, <<0,0,0,1,0>>,   \* within the root
               <<0,0,0,1,1>>, <<0,0,0,1,2>>, <<0,0,0,2,2>>,                                                 \* NOREPLACE / EXCHANGE
               <<0,0,1,0,0>>, <<1,5,0,2,0>>, <<1,0,0,0,0>>, <<0,1,1,5,0>>, <<1,0,1,5,0>>, <<0,1,1,5,1>>}    \* across root and d
OpSpace ==
    [op : {"openat"}, dir : {0}, name : 0..4, fl : 0..3, h : 0..1, mode : {0}]
    \cup [op : {"openat"}, dir : {0}, name : {7}, fl : {0, 3}, h : {0}, mode : {0}]
    \cup [op : {"openat"}, dir : {0}, name : {2}, fl : {1, 2}, h : {0}, mode : {1}]
    \cup [op : {"openat"}, dir : {1}, name : {0, 5}, fl : {0, 1}, h : 0..1, mode : {0}]
    \cup [op : {"openat"}, dir : {2}, name : {6, 0}, fl : {0}, h : 0..1, mode : {0}]
    \* every flag that changes which OTHER argument matters: fl 4 = O_TMPFILE|O_RDWR (mode is consulted; path names the
    \* directory), 5 = O_DIRECTORY (on a directory / a file), 6 = O_NOFOLLOW (on the symlink / a file)
    \cup [op : {"openat"}, dir : {0}, name : {3, 0}, fl : {4}, h : 0..1, mode : 0..1]
    \cup [op : {"openat"}, dir : {0}, name : {3, 0}, fl : {5}, h : {0}, mode : {0}]
    \cup [op : {"openat"}, dir : {0}, name : {7, 0}, fl : {6}, h : {1}, mode : {0}]
    \* flags that only show in the properties of the new descriptor: 7 = O_RDONLY|O_CLOEXEC|O_NONBLOCK, 8 = O_WRONLY|O_APPEND
    \cup [op : {"openat"}, dir : {0, 1}, name : {0}, fl : {7, 8}, h : 0..1, mode : {0}]
    \cup [op : {"close"}, h : Handles]
    \cup [op : {"readv"}, h : 0..1, len : 0..1]          \* handles 0,1 hold files/directories, handle 2 sockets:
    \cup [op : {"writev"}, h : 0..1, data : 0..1]        \* no transfer that could block forever on a socket
    \cup [op : {"readfix"}, h : 0..1, buf : 0..1, len : 0..1, boff : 0..1]   \* read/write through a registered buffer,
    \cup [op : {"writefix"}, h : 0..1, buf : 0..1, data : 0..1, boff : 0..1] \* at its start or 8 bytes into it
    \cup [op : {"statx"}, dir : {0}, name : {0, 1, 2, 3, 4, 7}]
    \cup [op : {"statx"}, dir : {1}, name : {0, 5}]
    \cup [op : {"statx"}, dir : {2}, name : {6, 0}]
    \cup [op : {"statx"}, empty : {1}, h : Handles]      \* the file behind a handle (empty path, AT_EMPTY_PATH)
    \cup [op : {"mkdirat"}, dir : {0}, name : {2, 3, 4}, mode : 0..1]
    \cup [op : {"mkdirat"}, dir : {1}, name : {2}, mode : {0}]
    \cup [op : {"unlinkat"}, dir : {0}, name : {0, 1, 2, 3, 4, 7}, rmdir : 0..1]
    \cup [op : {"unlinkat"}, dir : {1}, name : {0, 5}, rmdir : 0..1]
    \cup {[op |-> "renameat", dir |-> p[1], name |-> p[2], dir2 |-> p[3], name2 |-> p[4], rf |-> p[5]] : p \in RenameArgs}
    \* sfl: the four combinations of SOCK_CLOEXEC / SOCK_NONBLOCK (seen in the new descriptor's flags)
    \cup [op : {"socket"}, kind : 0..1, proto : {0}, h : {2}, sfl : 0..3]
    \cup {[op |-> "socket", kind |-> 1, proto |-> 17, h |-> 2, sfl |-> 2], [op |-> "socket", kind |-> 1, proto |-> 6, h |-> 2, sfl |-> 0]}  \* udp ok, tcp on a datagram socket refused
    \cup [op : {"timeout"}, abs : 0..3]            \* relative 1 ms / absolute long past / absolute 40 ms ahead / relative 40 ms
    \cup [op : {"poll"}, h : 0..1, ev : 0..1]            \* always ready (or EBADF): a poll that never fires never completes
    \cup [op : {"poll"}, h : {2}, ev : {1}]

Has(o, f) == f \in DOMAIN o
Dflt(o, f) == IF Has(o, f) THEN o[f] ELSE 0
\* identity of the object a (directory, name) pair resolves to; >= 100: in the working directory (never changed)
PId(dir, name) == IF dir = 0 THEN name
                  ELSE IF dir = 1 THEN (CASE name = 0 -> 8 [] name = 5 -> 4 [] name = 2 -> 9 [] OTHER -> 50 + name)
                  ELSE 100 + name
NamesOf(o) == (IF Has(o, "name") THEN {PId(Dflt(o, "dir"), o.name)} ELSE {})
              \cup (IF Has(o, "name2") THEN {PId(Dflt(o, "dir2"), o.name2)} ELSE {})
InsideD == {4, 8, 9}
NameConflict(x, y) == /\ x < 100 /\ y < 100
                      /\ \/ x = y
                         \/ (x = 3 /\ y \in InsideD) \/ (y = 3 /\ x \in InsideD)
                         \/ {x, y} = {0, 7}                     \* ln is a symbolic link to f0
\* handles alias names (a handle may be open on any file): whatever changes file content or size conflicts
\* with whatever observes it, whichever handle or name either goes through
Mutates(o) == o.op \in {"writev", "writefix"} \/ (o.op = "openat" /\ o.fl = 3)   \* fl 3 = O_RDWR|O_TRUNC
Observes(o) == o.op \in {"readv", "readfix", "statx"} \/ Mutates(o)
\* clashes that hold for a whole batch, chains included:
\* a registered buffer is used by at most one operation of a batch (the driver fills / reads it around the batch)
BufClash(a, b) == \/ Has(a, "buf") /\ Has(b, "buf") /\ a.buf = b.buf
                  \* entries carry descriptor NUMBERS fixed when the batch is built: once a batch closes a handle,
                  \* which file that number names afterwards depends on the kernel's descriptor allocation order
                  \/ Has(a, "h") /\ Has(b, "h") /\ a.h = b.h /\ "close" \in {a.op, b.op}
\* statx through a handle sees the link count of whatever file the handle is open on: it conflicts with
\* everything that adds or removes names
HandleStat(o) == o.op = "statx" /\ Has(o, "empty")
ChangesNames(o) == o.op \in {"unlinkat", "renameat", "mkdirat"} \/ (o.op = "openat" /\ o.fl \in {1, 2})
\* the descriptor behind dir = 1 stays open on the directory that was `d` wherever renames have moved it since
\* (d -> nx -> f0 are possible): what goes through it conflicts with every name-changing operation on those names
UsesD(o) == Dflt(o, "dir") = 1 \/ (Has(o, "dir2") /\ o.dir2 = 1)
MovesDirNames(o) == ChangesNames(o) /\ NamesOf(o) \cap {0, 2, 3} # {}
Conflict(a, b) ==
    \/ (UsesD(a) /\ MovesDirNames(b)) \/ (UsesD(b) /\ MovesDirNames(a))
    \/ (HandleStat(a) /\ ChangesNames(b)) \/ (HandleStat(b) /\ ChangesNames(a))
    \/ Has(a, "h") /\ Has(b, "h") /\ a.h = b.h
    \/ \E x \in NamesOf(a), y \in NamesOf(b) : NameConflict(x, y)
    \/ a.op = "timeout" /\ b.op = "timeout"
    \/ (Mutates(a) /\ Observes(b)) \/ (Mutates(b) /\ Observes(a))

\* l: the next operation belongs to this chain; hd: linked with IOSQE_IO_HARDLINK instead of IOSQE_IO_LINK
WithLinkH(o, l, hd) == [x \in DOMAIN o \cup {"link", "hard"} |-> IF x = "link" THEN l ELSE IF x = "hard" THEN (l /\ hd) ELSE o[x]]
WithLink(o, l) == WithLinkH(o, l, FALSE)

VARIABLES cur,      \* batch under construction (operations with link flags)
          done      \* closed batches
\* (an operator with a parameter: TLC evaluates parameterless constant definitions eagerly in every mode)
Pairs(S) == {<<WithLink(a, FALSE)>> : a \in S}
         \cup {<<WithLinkH(p[1], TRUE, hd), WithLink(p[2], FALSE)>> : p \in {q \in S \X S : ~BufClash(q[1], q[2])}, hd \in BOOLEAN}
         \cup {<<WithLink(p[1], FALSE), WithLink(p[2], FALSE)>> : p \in {q \in S \X S : ~Conflict(q[1], q[2])}}

Init == IF Mode = "pairs" THEN cur \in Pairs(OpSpace) /\ done = <<>>
        ELSE IF Mode = "singles" THEN cur \in {<<WithLink(a, FALSE)>> : a \in OpSpace} /\ done = <<>>
        ELSE cur = <<>> /\ done = <<>>

\* groups = maximal chains; the operation appended without a link to its predecessor opens a group
GroupStart(k) == k = 1 \/ ~cur[k-1].link
EarlierGroups == {k \in 1..Len(cur) : \E j \in (k+1)..Len(cur) : GroupStart(j)}   \* not in the last group
Append1(o, l, hd) ==
    /\ Len(cur) < MaxBatch
    /\ LET joins == cur # <<>> /\ cur[Len(cur)].link
           others == IF joins THEN EarlierGroups ELSE 1..Len(cur) IN
       \A k \in others : ~Conflict(cur[k], o)
    /\ \A k \in 1..Len(cur) : ~BufClash(cur[k], o)
    /\ cur' = Append(cur, WithLinkH(o, l /\ Len(cur) + 1 < MaxBatch, hd))
    /\ UNCHANGED done
Close ==
    /\ cur # <<>> /\ ~cur[Len(cur)].link
    /\ done' = Append(done, cur) /\ cur' = <<>>

Seal ==   \* end the current chain (no candidate may fit behind it)
    /\ cur # <<>> /\ cur[Len(cur)].link
    /\ cur' = [cur EXCEPT ![Len(cur)] = WithLinkH(@, FALSE, FALSE)]
    /\ UNCHANGED done
\* simulation only: a handful of random candidates per step instead of all |OpSpace| * 2 successors
Next == /\ Mode = "walk" /\ Len(done) < D
        /\ (Close \/ Seal \/ \E o \in RandomSubset(6, OpSpace), l \in BOOLEAN, hd \in BOOLEAN : Append1(o, l, hd))

EmitPairs == Mode \in {"pairs", "singles"} => PrintT(<<"BATCH", ToJson(cur)>>)
EmitWalk == (Mode = "walk" /\ Len(done) = D) => PrintT(<<"WALK", ToJson(done)>>)
=============================================================================
