---------------------------- MODULE UringOpsGen ----------------------------
(* C18 batch generator.  Operations are drawn from small argument universes (5 names, 3       *)
(* handles); a batch is a sequence of operations grouped into IOSQE_IO_LINK chains.  Chains   *)
(* and unlinked operations of one batch must be independent (no shared name or handle),       *)
(* because the kernel may run them in any order; inside a chain anything goes.                *)
(*   Mode "pairs": every batch of one or two operations (initial states), each to be run on   *)
(*                 a freshly reset world.                                                     *)
(*   Mode "walk":  `tlc -simulate`: operations are appended one at a time (link to the        *)
(*                 previous one or not) and batches closed; each behaviour is a long sequence  *)
(*                 of batches for ONE ring and an evolving world.                              *)
(*   Mode "singles": every single operation.                                                  *)
EXTENDS Integers, Sequences, FiniteSets, TLC, Json, Randomization
CONSTANTS Mode, MaxBatch, D

Names == 0..4            \* f0 f1 nx d d/x
Handles == 0..2
OpSpace ==
    [op : {"openat"}, name : Names, fl : 0..3, h : 0..1]
    \cup [op : {"close"}, h : Handles]
    \cup [op : {"readv"}, h : 0..1, len : 0..1]          \* handles 0,1 hold files/directories, handle 2 sockets:
    \cup [op : {"writev"}, h : 0..1, data : 0..1]        \* no transfer that could block forever on a socket
    \cup [op : {"readfix"}, h : 0..1, buf : 0..1, len : 0..1]   \* read/write through a registered buffer
    \cup [op : {"writefix"}, h : 0..1, buf : 0..1, data : 0..1]
    \cup [op : {"statx"}, name : Names]
    \cup [op : {"mkdirat"}, name : {2, 3, 4}]
    \cup [op : {"unlinkat"}, name : Names, rmdir : 0..1]
    \cup {[op |-> "renameat", name |-> p[1], name2 |-> p[2]] : p \in {<<0, 2>>, <<2, 0>>, <<1, 4>>, <<3, 2>>, <<2, 3>>, <<0, 1>>}}
    \cup [op : {"socket"}, kind : 0..1, h : {2}]
    \cup [op : {"timeout"}]
    \cup [op : {"poll"}, h : 0..1, ev : 0..1]            \* always ready (or EBADF): a poll that never fires never completes
    \cup [op : {"poll"}, h : {2}, ev : {1}]

Has(o, f) == f \in DOMAIN o
NamesOf(o) == (IF Has(o, "name") THEN {o.name} ELSE {}) \cup (IF Has(o, "name2") THEN {o.name2} ELSE {})
NameConflict(x, y) == x = y \/ {x, y} = {3, 4}
\* handles alias names (a handle may be open on any file): whatever changes file content or size conflicts
\* with whatever observes it, whichever handle or name either goes through
Mutates(o) == o.op \in {"writev", "writefix"} \/ (o.op = "openat" /\ o.fl = 3)   \* fl 3 = O_RDWR|O_TRUNC
Observes(o) == o.op \in {"readv", "readfix", "statx"} \/ Mutates(o)
\* clashes that hold for a whole batch, chains included:
\* a registered buffer is used by at most one operation of a batch (the driver fills / reads it around the batch)
BufClash(a, b) == \/ Has(a, "buf") /\ Has(b, "buf") /\ a.buf = b.buf
                  \* entries carry descriptor NUMBERS fixed when the batch is built: once a batch closes a handle,
                  \* which file that number names afterwards depends on the kernel's descriptor allocation order
                  \/ Has(a, "h") /\ Has(b, "h") /\ a.h = b.h /\ "close" \in {a.op, b.op}
Conflict(a, b) ==
    \/ Has(a, "h") /\ Has(b, "h") /\ a.h = b.h
    \/ \E x \in NamesOf(a), y \in NamesOf(b) : NameConflict(x, y)
    \/ a.op = "timeout" /\ b.op = "timeout"
    \/ (Mutates(a) /\ Observes(b)) \/ (Mutates(b) /\ Observes(a))

WithLink(o, l) == [x \in DOMAIN o \cup {"link"} |-> IF x = "link" THEN l ELSE o[x]]

VARIABLES cur,      \* batch under construction (operations with link flags)
          done      \* closed batches
\* (an operator with a parameter: TLC evaluates parameterless constant definitions eagerly in every mode)
Pairs(S) == {<<WithLink(a, FALSE)>> : a \in S}
         \cup {<<WithLink(p[1], TRUE), WithLink(p[2], FALSE)>> : p \in {q \in S \X S : ~BufClash(q[1], q[2])}}
         \cup {<<WithLink(p[1], FALSE), WithLink(p[2], FALSE)>> : p \in {q \in S \X S : ~Conflict(q[1], q[2])}}

Init == IF Mode = "pairs" THEN cur \in Pairs(OpSpace) /\ done = <<>>
        ELSE IF Mode = "singles" THEN cur \in {<<WithLink(a, FALSE)>> : a \in OpSpace} /\ done = <<>>
        ELSE cur = <<>> /\ done = <<>>

\* groups = maximal chains; the operation appended without a link to its predecessor opens a group
GroupStart(k) == k = 1 \/ ~cur[k-1].link
EarlierGroups == {k \in 1..Len(cur) : \E j \in (k+1)..Len(cur) : GroupStart(j)}   \* not in the last group
Append1(o, l) ==
    /\ Len(cur) < MaxBatch
    /\ LET joins == cur # <<>> /\ cur[Len(cur)].link
           others == IF joins THEN EarlierGroups ELSE 1..Len(cur) IN
       \A k \in others : ~Conflict(cur[k], o)
    /\ \A k \in 1..Len(cur) : ~BufClash(cur[k], o)
    /\ cur' = Append(cur, WithLink(o, l /\ Len(cur) + 1 < MaxBatch))
    /\ UNCHANGED done
Close ==
    /\ cur # <<>> /\ ~cur[Len(cur)].link
    /\ done' = Append(done, cur) /\ cur' = <<>>

Seal ==   \* end the current chain (no candidate may fit behind it)
    /\ cur # <<>> /\ cur[Len(cur)].link
    /\ cur' = [cur EXCEPT ![Len(cur)] = WithLink(@, FALSE)]
    /\ UNCHANGED done
\* simulation only: a handful of random candidates per step instead of all |OpSpace| * 2 successors
Next == /\ Mode = "walk" /\ Len(done) < D
        /\ (Close \/ Seal \/ \E o \in RandomSubset(6, OpSpace), l \in BOOLEAN : Append1(o, l))

EmitPairs == Mode \in {"pairs", "singles"} => PrintT(<<"BATCH", ToJson(cur)>>)
EmitWalk == (Mode = "walk" /\ Len(done) = D) => PrintT(<<"WALK", ToJson(done)>>)
=============================================================================
