CONSTANTS
  MaxDrain = 2
SPECIFICATION Spec
INVARIANTS TypeOK EchoOffWhileReading RestoredOnEveryExit UntouchedUntilSet OkMeansLine
PROPERTIES Terminates
CHECK_DEADLOCK FALSE
