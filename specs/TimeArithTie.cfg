CONSTANTS
  NPS = 4
  SMAX = 7
  DMAX = 15
  U32MAX = 7
INIT Init
NEXT Next
INVARIANT Same
CHECK_DEADLOCK FALSE
