CONSTANTS
  NPS = 4
  SMAX = 7
  DMAX = 15
  U32MAX = 7
INIT Init
NEXT Next
INVARIANTS Same CodeInv
CHECK_DEADLOCK FALSE
