CONSTANTS
  NS = 1
  NC = 1
  H = 4
  Side = "sq"
  SqStarts <- AllStarts
  CqStarts <- OneStart
  Wrapping = TRUE
  DebugChecks = TRUE
  CqEmptyLE = FALSE
  AtomicReapRead = FALSE
INIT Init
NEXT Next
INVARIANTS TypeOK PropertyHolds CountersConsistent
CHECK_DEADLOCK FALSE
