CONSTANTS
  Lanes = {1, 2}
  MaxNow = 3
  Durs = {0, 2}
INIT Init
NEXT Next
INVARIANTS ReadMonotone SleepLower DeadlineKept
CHECK_DEADLOCK FALSE
