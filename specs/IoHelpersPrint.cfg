CONSTANTS
  Grow <- TraceGrow
  ProbeGrow <- TraceProbeGrow
INIT PInit
NEXT PNext
CHECK_DEADLOCK FALSE
