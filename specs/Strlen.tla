------------------------------ MODULE Strlen ------------------------------
(* X02 - rusl/src/string/strlen.rs and what is built on it.                                 *)
(* DEFINITION: the length of a NUL-terminated string inside a buffer is the number of bytes *)
(* in front of its first NUL; buf_strlen is an error when the buffer holds no NUL; strlen   *)
(* (raw pointer) is only defined when there is one.  Neither may read behind the first NUL *)
(* (strlen) / behind the buffer (buf_strlen): the driver puts the operand against a         *)
(* PROT_NONE page, an over-read is a crash.                                                 *)
(* TRANSCRIPTION: the two loops, one byte read per step (StrlenGen runs them as a machine   *)
(* and checks result = definition and reads <= allowed on every bounded byte string).      *)
(* NodeName: UtsName::nodename()/host_name() = the bytes in front of the first NUL of the  *)
(* kernel's 65-byte field, as UTF-8 or an error.                                            *)
EXTENDS Integers, Sequences, FiniteSets, TLC
LOCAL C == INSTANCE Cli
Nuls(b) == {i \in 1..Len(b) : b[i] = 0}
FirstNul(b) == CHOOSE i \in Nuls(b) : \A j \in Nuls(b) : i <= j
\* results: <<1, n>> = Ok(n), <<2>> = Err, <<3>> = panic
BufStrlen(b) == IF Nuls(b) = {} THEN <<2>> ELSE <<1, FirstNul(b) - 1>>
StrlenDef(b) == <<1, FirstNul(b) - 1>>                \* precondition: Nuls(b) # {}
\* bytes a correct implementation may look at (1-based index of the last one)
MayRead(b) == IF Nuls(b) = {} THEN Len(b) ELSE FirstNul(b)

\* one step of `while ind < buf.len() { if buf[ind] == 0 { return Ok(ind) } ind += 1 } Err(..)`
\* bounded = TRUE: buf_strlen;  bounded = FALSE: strlen (`loop { if s.add(i).read() == 0 {..} i += 1 }`)
LoopStep(b, ind, bounded) ==
    IF bounded /\ ind >= Len(b) THEN [ind |-> ind, res |-> <<2>>, read |-> 0]
    ELSE IF ind >= Len(b) THEN [ind |-> ind, res |-> <<4>>, read |-> ind + 1]      \* reads outside the operand
    ELSE IF b[ind + 1] = 0 THEN [ind |-> ind, res |-> <<1, ind>>, read |-> ind + 1]
    ELSE [ind |-> ind + 1, res |-> <<0>>, read |-> ind + 1]

\* host_name(): name = what sethostname was given (at most 64 bytes)
NodeName(name) ==
    LET field == name \o <<0>>
        s == SubSeq(field, 1, FirstNul(field) - 1)
    IN IF C!Utf8Ok(s) THEN [r |-> "ok", name |-> s] ELSE [r |-> "err", name |-> <<>>]
=============================================================================
