------------------------------- MODULE FsTree -------------------------------
(* C14 - file-system operations establish their post-conditions.                            *)
(*                                                                                          *)
(* A tree is a function from canonical paths (sequences of names, <<>> = the private root)  *)
(* to nodes  [k |-> "d"] | [k |-> "f", c |-> content] | [k |-> "l", t |-> segs] |           *)
(* [k |-> "p"] (fifo) | [k |-> "s"] (unix socket) | [k |-> "b"] (block device).  A content is [n |-> length, b |-> bytes (small files) or <<>>,      *)
(* h |-> "" (small files) or a digest (big files)]: only equality, length and - for small   *)
(* files - the bytes are ever used.                                                         *)
(*                                                                                          *)
(* A path as spelled by the caller is the sequence of its '/'-separated segments (segs):    *)
(* "a//b/" = <<"a","","b","">>, "./a" = <<".","a">>, "/a" = <<"","a">> (absolute; the       *)
(* driver maps the model's root to its private temp root and runs with cwd = that root, so  *)
(* absolute and relative spellings resolve from the same directory).                        *)
(*                                                                                          *)
(* Part 1: path resolution as path_resolution(7) defines it.                                *)
(* Part 2: for every operation the reference outcome Ref(op, t) = [e, t, v] - what the      *)
(*         operation does when it does what its name says (the semantics of the             *)
(*         corresponding std::fs function / system call).                                   *)
(* Part 3: the property-level acceptance predicate Accept(t, op, res, t2): which observed   *)
(*         (result, resulting tree) pairs satisfy C14's statement.  Where the statement     *)
(*         leaves behaviour open (errno values, partial effects of a failed recursive        *)
(*         operation, operations on a trailing-slash symlink, ...) every reading is         *)
(*         admitted.                                                                        *)
EXTENDS Integers, Sequences, FiniteSets, TLC

\* ------------------------------------------------------------------ nodes, trees
Dir      == [k |-> "d"]
File(c)  == [k |-> "f", c |-> c]
Link(s)  == [k |-> "l", t |-> s]
Fifo     == [k |-> "p"]
Sock     == [k |-> "s"]          \* a unix socket bound at the path
Blk      == [k |-> "b"]          \* a block-device node without a driver behind it
Small(b) == [n |-> Len(b), b |-> b, h |-> ""]
Empty    == Small(<<>>)

IsPrefix(p, q)  == Len(p) <= Len(q) /\ SubSeq(q, 1, Len(p)) = p
Parent(p)       == SubSeq(p, 1, Len(p) - 1)
Subtree(t, p)   == {q \in DOMAIN t : IsPrefix(p, q)}
Children(t, p)  == {q \in DOMAIN t : Len(q) = Len(p) + 1 /\ IsPrefix(p, q)}
Put(t, p, n)    == [q \in (DOMAIN t) \cup {p} |-> IF q = p THEN n ELSE t[q]]
Drop(t, S)      == [q \in (DOMAIN t) \ S |-> t[q]]
EmptyTree       == (<<>> :> Dir)

\* every node but the root has a parent that is a directory
WellFormed(t) ==
    /\ <<>> \in DOMAIN t /\ t[<<>>].k = "d"
    /\ \A p \in DOMAIN t : p # <<>> => Parent(p) \in DOMAIN t /\ t[Parent(p)].k = "d"

\* ------------------------------------------------------------------ part 1: resolution
Comps(segs)    == SelectSeq(segs, LAMBDA s : s # "" /\ s # ".")
TrailDir(segs) == Len(segs) > 1 /\ segs[Len(segs)] \in {"", "."}     \* "x/" or "x/."
IsAbs(segs)    == Len(segs) > 1 /\ segs[1] = ""
Fuel == 8                                      \* symlinks followed per resolution (kernel: 40)

RECURSIVE Walk(_, _, _, _, _)
(* cur: canonical path of an existing directory; comps: what is left to walk.               *)
(* [r |-> "node", p] an existing node | [r |-> "new", p] absent, parent directory exists |  *)
(* [r |-> "err", e]                                                                         *)
Walk(t, cur, comps, followLast, fuel) ==
    IF comps = <<>> THEN [r |-> "node", p |-> cur]
    ELSE LET n == Head(comps)
             rest == Tail(comps)
             last == rest = <<>>
         IN IF n = ".." THEN IF cur = <<>> THEN [r |-> "err", e |-> "ESCAPE"]     \* leaves the private root: not modelled
                             ELSE Walk(t, Parent(cur), rest, followLast, fuel)
            ELSE LET P == Append(cur, n) IN
              IF P \notin DOMAIN t
              THEN IF last THEN [r |-> "new", p |-> P] ELSE [r |-> "err", e |-> "ENOENT"]
              ELSE LET nd == t[P] IN
                IF nd.k = "l" /\ (~last \/ followLast)
                THEN IF fuel = 0 THEN [r |-> "err", e |-> "ELOOP"]
                     ELSE Walk(t, IF IsAbs(nd.t) THEN <<>> ELSE cur, Comps(nd.t) \o rest,
                               followLast, fuel - 1)
                ELSE IF last THEN [r |-> "node", p |-> P]
                ELSE IF nd.k = "d" THEN Walk(t, P, rest, followLast, fuel)
                ELSE [r |-> "err", e |-> "ENOTDIR"]

Resolve(t, segs, follow) ==
    IF Comps(segs) = <<>> /\ ~IsAbs(segs) /\ segs \in {<<>>, <<"">>}
    THEN [r |-> "err", e |-> "ENOENT"]                      \* the empty path
    ELSE LET w == Walk(t, <<>>, Comps(segs), follow \/ TrailDir(segs), Fuel) IN
         IF w.r = "node" /\ TrailDir(segs) /\ t[w.p].k # "d"
         THEN [r |-> "err", e |-> "ENOTDIR"] ELSE w

\* the final component, looked at without following it, is a symbolic link
LastIsLink(t, segs) ==
    LET w == Walk(t, <<>>, Comps(segs), FALSE, Fuel) IN w.r = "node" /\ t[w.p].k = "l"
\* the path leaves the private root through ".." (a link moved upwards by an earlier rename)
Escapes(t, segs) ==
    \E fl \in BOOLEAN : LET w == Walk(t, <<>>, Comps(segs), fl, Fuel) IN w.r = "err" /\ w.e = "ESCAPE"
\* combinations this specification does not judge: a trailing separator on a symbolic link
\* (what rename/rmdir/unlink/mkdir then do is a kernel subtlety outside C14's statement), and
\* paths that leave the modelled tree
Unjudged(t, segs) == (TrailDir(segs) /\ LastIsLink(t, segs)) \/ Escapes(t, segs)

\* ------------------------------------------------------------------ part 2: reference outcomes
R(e, t, v) == [e |-> e, t |-> t, v |-> v]
NoVal == <<>>

\* mkdir(2) never follows the final component, trailing separator or not ("link/" => EEXIST);
\* "x/." (also "x/./", "x/.//") walks INTO x: ENOTDIR if x is not a directory, ENOENT if x is absent,
\* EEXIST otherwise
RECURSIVE StripTrail(_)
StripTrail(segs) == IF Len(segs) > 1 /\ segs[Len(segs)] = "" THEN StripTrail(SubSeq(segs, 1, Len(segs) - 1)) ELSE segs
Mkdir(t, segs) ==
    LET core == StripTrail(segs) IN
    IF Len(core) > 1 /\ core[Len(core)] = "."
    THEN LET w == Resolve(t, core, TRUE) IN
         CASE w.r = "err"  -> R(w.e, t, NoVal)
           [] w.r = "node" -> R("EEXIST", t, NoVal)
           [] w.r = "new"  -> R("ENOENT", t, NoVal)
    ELSE
    LET w == IF Comps(segs) = <<>> /\ ~IsAbs(segs) /\ segs \in {<<>>, <<"">>} THEN [r |-> "err", e |-> "ENOENT"]
             ELSE Walk(t, <<>>, Comps(segs), FALSE, Fuel) IN
    CASE w.r = "err"  -> R(w.e, t, NoVal)
      [] w.r = "node" -> R("EEXIST", t, NoVal)
      [] w.r = "new"  -> R("ok", Put(t, w.p, Dir), NoVal)

\* open(O_WRONLY|O_CREAT ...) as far as the tree is concerned: the file node to write
OpenForWrite(t, segs) ==
    LET w == Resolve(t, segs, TRUE) IN
    CASE w.r = "err"  -> [e |-> w.e]
      [] w.r = "node" -> IF t[w.p].k = "d" THEN [e |-> "EISDIR"]
                         ELSE IF t[w.p].k = "f" THEN [e |-> "ok", p |-> w.p, old |-> t[w.p].c]
                         ELSE IF t[w.p].k \in {"s", "b"} THEN [e |-> "ENXIO"]   \* open(2) on a socket / driverless device
                         ELSE [e |-> "EBLOCK"]                 \* fifo: never generated
      [] w.r = "new"  -> IF TrailDir(segs) THEN [e |-> "EISDIR"]
                         ELSE [e |-> "ok", p |-> w.p, old |-> Empty]

WriteRef(t, segs, c) ==
    LET o == OpenForWrite(t, segs) IN
    IF o.e = "ok" THEN R("ok", Put(t, o.p, File(c)), NoVal) ELSE R(o.e, t, NoVal)

\* OpenOptions-style write of small content c: trunc / append / plain overwrite at offset 0
Overlay(old, c) == IF Len(c) >= Len(old) THEN c ELSE c \o SubSeq(old, Len(c) + 1, Len(old))
OWriteRef(t, segs, c, create, trunc, append, excl) ==
    LET w == Resolve(t, segs, TRUE)
        o == OpenForWrite(t, segs) IN
    IF excl /\ (w.r = "node" \/ LastIsLink(t, segs)) THEN R("EEXIST", t, NoVal)
    ELSE IF ~create /\ ~excl /\ w.r = "new" THEN R("ENOENT", t, NoVal)
    ELSE IF o.e # "ok" THEN R(o.e, t, NoVal)
    ELSE LET base == IF trunc /\ ~excl THEN <<>> ELSE o.old.b
             new  == IF append THEN base \o c.b ELSE Overlay(base, c.b)
         IN R("ok", Put(t, o.p, File(Small(new))), NoVal)

ReadRef(t, segs) ==
    LET w == Resolve(t, segs, TRUE) IN
    CASE w.r = "err"  -> R(w.e, t, NoVal)
      [] w.r = "new"  -> R("ENOENT", t, NoVal)
      [] w.r = "node" -> IF t[w.p].k = "f" THEN R("ok", t, t[w.p].c)
                         ELSE IF t[w.p].k = "d" THEN R("EISDIR", t, NoVal)
                         ELSE IF t[w.p].k \in {"s", "b"} THEN R("ENXIO", t, NoVal) ELSE R("EBLOCK", t, NoVal)

\* OpenOptions in full: f = <<read, write, append, truncate, create, create_new>>.  The option
\* rules are std's (an access mode is required; truncate/create/create_new need write or append;
\* append+truncate needs create_new; create_new wins over create/truncate).  A writable file gets
\* write_all(c), a read-only one is read to its end (the value).
OOpenRef(t, segs, c, f) ==
    LET rd == f[1]  wr == f[2]  ap == f[3]  tr == f[4]  cr == f[5]  cn == f[6]
        accessOk   == rd \/ wr \/ ap
        creationOk == IF ap THEN ~(tr /\ ~cn) ELSE IF wr THEN TRUE ELSE ~(tr \/ cr \/ cn)
    IN IF ~accessOk \/ ~creationOk THEN R("EINVAL", t, NoVal)
       ELSE IF wr \/ ap THEN OWriteRef(t, segs, c, cr \/ cn, tr /\ ~cn, ap, cn)
       ELSE ReadRef(t, segs)

\* copy(src, dst): the destination holds the source's content whatever it held before
CopyRef(t, s, d) ==
    LET ws == Resolve(t, s, TRUE) IN
    IF ws.r # "node" THEN R(IF ws.r = "err" THEN ws.e ELSE "ENOENT", t, NoVal)
    ELSE IF t[ws.p].k # "f" THEN R("EINVAL", t, NoVal)
    ELSE LET o == OpenForWrite(t, d) IN
         IF o.e # "ok" THEN R(o.e, t, NoVal)
         ELSE R("ok", Put(t, o.p, File(t[ws.p].c)), NoVal)
\* write-like operations under a file-size limit of LimBytes (RLIMIT_FSIZE, SIGXFSZ ignored): the kernel
\* answers the payload write SHORT and refuses the rest (EFBIG).  o.f = <<>>: fs::write; else OpenOptions
\* flags + write_all.  If everything fits it is the plain operation; if not, the call must fail and what
\* is on disk is the plain operation's result for some PREFIX of the payload - never Ok with a part.
LimBytes == 3
Plain(t, p, c, f) == IF f = <<>> THEN WriteRef(t, p, c) ELSE OOpenRef(t, p, c, f)
PayloadPrefix(c, j) == Small(SubSeq(c.b, 1, j))
\* the limit is about where the write ENDS (append: at the old end + payload; else at the payload's length)
WriteEnd(t, p, c, f) == LET o == OpenForWrite(t, p) IN (IF f # <<>> /\ f[3] THEN o.old.n ELSE 0) + c.n
TooLong(t, p, c, f) == Plain(t, p, c, f).e = "ok" /\ c.n > 0 /\ WriteEnd(t, p, c, f) > LimBytes
WriteLimRef(t, p, c, f) ==
    IF ~TooLong(t, p, c, f) THEN Plain(t, p, c, f)
    ELSE LET o == OpenForWrite(t, p)
             fit == IF f # <<>> /\ f[3] THEN (IF o.old.n >= LimBytes THEN 0 ELSE LimBytes - o.old.n)   \* append
                    ELSE IF LimBytes < c.n THEN LimBytes ELSE c.n
         IN R("EFBIG", Plain(t, p, PayloadPrefix(c, fit), f).t, NoVal)
WriteLimAccept(t, p, c, f, res, t2) ==
    res.class = "err" /\ \E j \in 0..c.n : t2 = Plain(t, p, PayloadPrefix(c, j), f).t

\* copy under a file-size limit of L bytes (RLIMIT_FSIZE): the kernel cuts the first copy_file_range
\* call short at L, so File::copy's loop really iterates; the second call is refused (EFBIG).
\* What must be there afterwards: exactly the first L bytes of the source (nothing of it twice or
\* at the wrong place), or the whole source if it fits.
CopyLimRef(t, s, d, L) ==
    LET ref == CopyRef(t, s, d)
        ws == Resolve(t, s, TRUE) IN
    IF ref.e # "ok" \/ t[ws.p].c.n <= L THEN ref
    ELSE LET o == OpenForWrite(t, d) IN
         R("EFBIG", Put(t, o.p, File(Small(SubSeq(t[ws.p].c.b, 1, L)))), NoVal)
CopySameNode(t, s, d) ==
    LET ws == Resolve(t, s, TRUE)
        wd == Resolve(t, d, TRUE) IN ws.r = "node" /\ wd.r = "node" /\ ws.p = wd.p

\* create_dir_all: p and all its ancestors are directories afterwards, nothing else changes
RECURSIVE CdaWalk(_, _, _)
CdaWalk(t, cur, comps) ==
    IF comps = <<>> THEN [ok |-> TRUE, t |-> t]
    ELSE LET w == Walk(t, cur, <<Head(comps)>>, TRUE, Fuel) IN
      CASE w.r = "err"  -> [ok |-> FALSE, t |-> t]
        [] w.r = "node" -> IF t[w.p].k = "d" THEN CdaWalk(t, w.p, Tail(comps)) ELSE [ok |-> FALSE, t |-> t]
        [] w.r = "new"  -> IF Head(comps) = ".." \/ w.p # Append(cur, Head(comps))
                           THEN [ok |-> FALSE, t |-> t]          \* a dangling link is in the way
                           ELSE CdaWalk(Put(t, w.p, Dir), w.p, Tail(comps))
CdaRef(t, segs) ==
    IF Comps(segs) = <<>> /\ ~IsAbs(segs) /\ segs \in {<<>>, <<"">>} THEN R("ENOENT", t, NoVal)
    ELSE LET c == CdaWalk(t, <<>>, Comps(segs)) IN
         IF c.ok THEN R("ok", c.t, NoVal) ELSE R("EEXIST", t, NoVal)
\* the directories create_dir_all(segs) may have made before it failed: new, empty, on the way
CdaPartial(t, segs, t2) ==
    LET New == (DOMAIN t2) \ (DOMAIN t) IN
    /\ \A p \in DOMAIN t : p \in DOMAIN t2 /\ t2[p] = t[p]
    /\ \A p \in New : t2[p] = Dir
    /\ WellFormed(t2)
    /\ \E lim \in 0..Len(Comps(segs)) :
          LET c == CdaWalk(t, <<>>, SubSeq(Comps(segs), 1, lim)) IN
          c.ok /\ (DOMAIN t2) \subseteq (DOMAIN c.t)

RemoveDirAllRef(t, segs) ==
    LET w == Resolve(t, segs, FALSE) IN
    CASE w.r = "err"  -> R(w.e, t, NoVal)
      [] w.r = "new"  -> R("ENOENT", t, NoVal)
      [] w.r = "node" -> IF t[w.p].k = "d" /\ w.p # <<>> THEN R("ok", Drop(t, Subtree(t, w.p)), NoVal)
                         ELSE IF t[w.p].k = "l" THEN R("ok", Drop(t, {w.p}), NoVal)    \* std removes the link
                         ELSE R("ENOTDIR", t, NoVal)

RemoveFileRef(t, segs) ==
    LET w == Resolve(t, segs, FALSE) IN
    CASE w.r = "err"  -> R(w.e, t, NoVal)
      [] w.r = "new"  -> R("ENOENT", t, NoVal)
      [] w.r = "node" -> IF t[w.p].k = "d" THEN R("EISDIR", t, NoVal) ELSE R("ok", Drop(t, {w.p}), NoVal)

RemoveDirRef(t, segs) ==
    LET w == Resolve(t, segs, FALSE) IN
    CASE w.r = "err"  -> R(w.e, t, NoVal)
      [] w.r = "new"  -> R("ENOENT", t, NoVal)
      [] w.r = "node" -> IF t[w.p].k # "d" THEN R("ENOTDIR", t, NoVal)
                         ELSE IF Children(t, w.p) # {} THEN R("ENOTEMPTY", t, NoVal)
                         ELSE IF w.p = <<>> \/ (Len(segs) > 0 /\ segs[Len(segs)] = ".") THEN R("EINVAL", t, NoVal)
                         ELSE R("ok", Drop(t, {w.p}), NoVal)

Move(t, P, Q) ==
    LET t1 == Drop(t, Subtree(t, Q))
        Reloc(q) == IF IsPrefix(P, q) THEN Q \o SubSeq(q, Len(P) + 1, Len(q)) ELSE q
        Back(r)  == IF IsPrefix(Q, r) THEN P \o SubSeq(r, Len(Q) + 1, Len(r)) ELSE r
    IN [r \in {Reloc(q) : q \in DOMAIN t1} |-> t1[Back(r)]]

RenameRef(t, s, d) ==
    LET ws == Resolve(t, s, FALSE)
        wd == Resolve(t, d, FALSE) IN
    IF ws.r # "node" THEN R(IF ws.r = "err" THEN ws.e ELSE "ENOENT", t, NoVal)
    ELSE IF wd.r = "err" THEN R(wd.e, t, NoVal)
    ELSE IF ws.p = <<>> \/ wd.p = <<>> THEN R("EBUSY", t, NoVal)
    ELSE LET sdir == t[ws.p].k = "d" IN
      IF wd.r = "new"
      THEN IF TrailDir(d) /\ ~sdir THEN R("ENOTDIR", t, NoVal)
           ELSE IF sdir /\ IsPrefix(ws.p, wd.p) THEN R("EINVAL", t, NoVal)
           ELSE R("ok", Move(t, ws.p, wd.p), NoVal)
      ELSE IF ws.p = wd.p THEN R("ok", t, NoVal)
           ELSE IF sdir /\ IsPrefix(ws.p, wd.p) THEN R("EINVAL", t, NoVal)
           ELSE IF IsPrefix(wd.p, ws.p) THEN R("ENOTEMPTY", t, NoVal)
           ELSE IF sdir /\ t[wd.p].k # "d" THEN R("ENOTDIR", t, NoVal)
           ELSE IF ~sdir /\ t[wd.p].k = "d" THEN R("EISDIR", t, NoVal)
           ELSE IF sdir /\ Children(t, wd.p) # {} THEN R("ENOTEMPTY", t, NoVal)
           ELSE R("ok", Move(t, ws.p, wd.p), NoVal)

ExistsRef(t, segs) ==
    LET w == Resolve(t, segs, TRUE) IN
    CASE w.r = "node" -> R("ok", t, TRUE)
      [] w.r = "new"  -> R("ok", t, FALSE)
      [] w.r = "err"  -> IF w.e = "ENOENT" THEN R("ok", t, FALSE) ELSE R(w.e, t, FALSE)

Meta(nd) == [dir |-> nd.k = "d", file |-> nd.k = "f", len |-> IF nd.k = "f" THEN nd.c.n ELSE -1]
MetadataRef(t, segs) ==
    LET w == Resolve(t, segs, TRUE) IN
    CASE w.r = "node" -> R("ok", t, Meta(t[w.p]))
      [] w.r = "new"  -> R("ENOENT", t, NoVal)
      [] w.r = "err"  -> R(w.e, t, NoVal)

Listing(t, p) == {<<q[Len(q)], t[q].k>> : q \in Children(t, p)}
ReadDirRef(t, segs) ==
    LET w == Resolve(t, segs, TRUE) IN
    CASE w.r = "node" -> IF t[w.p].k = "d" THEN R("ok", t, Listing(t, w.p)) ELSE R("ENOTDIR", t, NoVal)
      [] w.r = "new"  -> R("ENOENT", t, NoVal)
      [] w.r = "err"  -> R(w.e, t, NoVal)

Ref(t, o) ==
    CASE o.op = "write"          -> WriteRef(t, o.p, o.c)
      [] o.op = "owrite_c"       -> OWriteRef(t, o.p, o.c, TRUE, FALSE, FALSE, FALSE)   \* write+create
      [] o.op = "owrite_a"       -> OWriteRef(t, o.p, o.c, TRUE, FALSE, TRUE, FALSE)    \* append+create
      [] o.op = "owrite_x"       -> OWriteRef(t, o.p, o.c, TRUE, FALSE, FALSE, TRUE)    \* write+create_new
      [] o.op = "owrite_t"       -> OWriteRef(t, o.p, o.c, FALSE, TRUE, FALSE, FALSE)   \* write+truncate
      [] o.op = "owrite_p"       -> OWriteRef(t, o.p, o.c, FALSE, FALSE, FALSE, FALSE)  \* write only
      [] o.op = "oopen"          -> OOpenRef(t, o.p, o.c, o.f)
      [] o.op = "read"           -> ReadRef(t, o.p)
      \* text-returning whole-file operations (fs::read_to_string, File::read_to_string): generated only on
      \* files whose content is valid UTF-8; Ok(text) with text == content
      [] o.op \in {"read_string", "fread_string"} -> ReadRef(t, o.p)
      \* fs::read of a file OUTSIDE the tree whose read(2) calls come back short (o.c = what the observer read)
      [] o.op = "read_x"         -> R("ok", t, o.c)
      [] o.op = "copy"           -> CopyRef(t, o.p, o.q)
      [] o.op = "copy_lim"       -> CopyLimRef(t, o.p, o.q, o.c.n)
      [] o.op = "write_lim"      -> WriteLimRef(t, o.p, o.c, o.f)
      \* File::copy on an OPEN handle of which o.c.n bytes were read before: the post-condition is about
      \* the whole file, whatever the handle's position
      [] o.op = "fcopy"          -> CopyRef(t, o.p, o.q)
      \* the same with the destination on ANOTHER file system (outside the modelled tree): the value is
      \* the content found there afterwards
      [] o.op = "fcopy_x"        -> ReadRef(t, o.p)
      [] o.op = "create_dir"     -> Mkdir(t, o.p)
      [] o.op = "create_dir_all" -> CdaRef(t, o.p)
      [] o.op = "remove_dir_all" -> RemoveDirAllRef(t, o.p)
      [] o.op = "remove_file"    -> RemoveFileRef(t, o.p)
      [] o.op = "remove_dir"     -> RemoveDirRef(t, o.p)
      [] o.op = "rename"         -> RenameRef(t, o.p, o.q)
      [] o.op = "exists"         -> ExistsRef(t, o.p)
      [] o.op = "metadata"       -> MetadataRef(t, o.p)
      [] o.op = "read_dir"       -> ReadDirRef(t, o.p)

\* ------------------------------------------------------------------ part 3: acceptance
(* res = [class |-> "ok" | "err" | "panic", v |-> value]; t2 = the tree the independent      *)
(* observer found after the call.                                                            *)
ListingOk(v, L) ==          \* v: sequence of <<name, kind>>; every child exactly once, dots extra
    LET Dots == {i \in 1..Len(v) : v[i][1] \in {".", ".."}}
    IN /\ \A x \in L : Cardinality({i \in 1..Len(v) : v[i] = x}) = 1
       /\ Len(v) - Cardinality(Dots) = Cardinality(L)
       /\ \A i \in Dots : v[i][2] = "d"
       /\ Cardinality({i \in Dots : v[i][1] = "."}) <= 1 /\ Cardinality({i \in Dots : v[i][1] = ".."}) <= 1

ValueOk(o, ref, v) ==
    CASE o.op = "read"     -> v = ref.v
      [] o.op = "read_x"   -> v = ref.v
      [] o.op \in {"read_string", "fread_string"} -> v = ref.v
      [] o.op = "oopen"    -> v = ref.v
      [] o.op = "exists"   -> v = ref.v
      [] o.op = "metadata" -> v.dir = ref.v.dir /\ v.file = ref.v.file /\ (ref.v.file => v.len = ref.v.len)
      [] o.op = "read_dir" -> ListingOk(v, ref.v)
      [] OTHER -> TRUE

\* paths of the operation that end in "link/" are not judged
OpUnjudged(t, o) ==
    \/ (o.op # "read_x" /\ Unjudged(t, o.p))
    \/ o.op \in {"copy", "copy_lim", "fcopy", "rename"} /\ Unjudged(t, o.q)
    \/ o.op \in {"copy", "copy_lim", "fcopy"} /\ CopySameNode(t, o.p, o.q)

\* what a failed call may leave behind
ErrTreeOk(t, o, t2) ==
    \/ t2 = t
    \/ o.op = "create_dir_all" /\ CdaPartial(t, o.p, t2)
    \/ o.op = "remove_dir_all" /\                       \* part of the doomed subtree is gone
         LET w == Resolve(t, o.p, TRUE) IN
         /\ w.r = "node" /\ t[w.p].k = "d"
         /\ (DOMAIN t2) \subseteq (DOMAIN t) /\ \A p \in DOMAIN t2 : t2[p] = t[p]
         /\ (DOMAIN t) \ (DOMAIN t2) \subseteq (Subtree(t, w.p) \ {w.p})
         /\ WellFormed(t2)
    \/ o.op \in {"copy", "copy_lim", "fcopy"} /\         \* the destination was opened, nothing arrived
         LET od == OpenForWrite(t, o.q) IN
         od.e = "ok" /\ \E c \in {Empty, od.old} : t2 = Put(t, od.p, File(c))

Accept(t, o, res, t2) ==
    LET ref == Ref(t, o) IN
    IF res.class = "panic" THEN FALSE
    ELSE IF OpUnjudged(t, o) THEN WellFormed(t2)
    ELSE IF o.op = "remove_dir_all" /\ LastIsLink(t, o.p)
         THEN \* remove_dir_all on a link: removing the link (std) or refusing are both fine;
              \* the statement speaks about links INSIDE the tree
              \/ res.class = "ok" /\ t2 = ref.t
              \/ res.class = "err" /\ ErrTreeOk(t, o, t2)
    ELSE IF o.op = "exists" /\ ref.e \notin {"ok"}
         THEN t2 = t /\ (res.class = "err" \/ res.v = FALSE)
    ELSE IF o.op = "write_lim" /\ TooLong(t, o.p, o.c, o.f)
         THEN WriteLimAccept(t, o.p, o.c, o.f, res, t2)
    ELSE IF o.op = "fcopy_x"        \* a refusal (EXDEV) is fine; Ok => the destination holds the WHOLE source
         THEN t2 = t /\ (res.class = "ok" => (ref.e = "ok" /\ res.v = ref.v))
    ELSE IF o.op = "copy_lim" /\ ref.e = "EFBIG"
         THEN res.class = "err" /\ t2 = ref.t                 \* the prefix that fits, exactly
    ELSE IF ref.e = "ok"
         THEN res.class = "ok" /\ t2 = ref.t /\ ValueOk(o, ref, res.v)
    ELSE res.class = "err" /\ ErrTreeOk(t, o, t2)

\* deterministic successor used by the generators
Model(t, o) == Ref(t, o).t
=============================================================================
