CONSTANT Count = 300
INIT Init
NEXT Next
INVARIANTS TranscriptionIsDefinition DigitsAreAscii Emit
CHECK_DEADLOCK FALSE
