CONSTANTS
  N = 2
  Progs <- P2d
  Ord <- OrdCode
  MaxSpur = 1
  MaxEintr = 1
SPECIFICATION Spec
INVARIANTS TypeOK MutualExclusion RaceFree TryLockHonest TryNeverBlocks NoLostWakeup WordAgrees Progress
PROPERTY Termination
CHECK_DEADLOCK FALSE
