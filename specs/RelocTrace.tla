----------------------------- MODULE RelocTrace -----------------------------
(* C07 - the transcription Reloc.tla run on the REAL dynamic section, program headers and      *)
(* REL/RELA tables of a static-PIE probe binary; its final memory is compared with the real    *)
(* memory of the running probe.  Divergence = the code is not (any more) the algorithm that    *)
(* was model-checked (model drift) - reported, never a verdict.                                *)
EXTENDS Reloc, TLC, Json, IOUtils, SequencesExt
Rec == ndJsonDeserialize(IOEnv.TRACE)
BASEK == 1073741824
VARIABLES ri, verdict
InitT ==
    /\ ri \in 1..Len(Rec)
    /\ mode = "selfreloc"
    /\ rel = [k \in 1..Len(Rec[ri].rel) |-> [off |-> Rec[ri].rel[k][1], info |-> Rec[ri].rel[k][2]]]
    /\ rela = [k \in 1..Len(Rec[ri].rela) |-> [off |-> Rec[ri].rela[k][1], info |-> Rec[ri].rela[k][2], addend |-> Rec[ri].rela[k][3]]]
    /\ dyn = Rec[ri].dyn \o << <<DT_NULL, 0>> >>
    /\ phdrs = [k \in 1..Len(Rec[ri].phdrs) |-> [type |-> Rec[ri].phdrs[k][1], vaddr |-> Rec[ri].phdrs[k][2]]]
    /\ lay = [reladdr |-> Rec[ri].reladdr, relaaddr |-> Rec[ri].relaaddr, dynvaddr |-> Rec[ri].dynvaddr, base |-> BASEK,
              mem0 |-> Rec[ri].before]
    /\ mem = Rec[ri].before
    /\ pc = "entry" /\ base = 0 /\ i = 0 /\ idx = 0 /\ key = 0 /\ ds = ZeroDs /\ limit = 0
    /\ writes = [w \in 1..Len(Rec[ri].before) |-> 0]
    /\ verdict = "running"
NextT ==
    /\ verdict = "running"
    /\ IF pc \notin {"done", "fault"}
       THEN Next /\ UNCHANGED <<ri, verdict>>
       ELSE /\ UNCHANGED <<vars, ri>>
            /\ verdict' = IF pc = "done" /\ mem = Rec[ri].after THEN "conforms" ELSE "diverged"
Report == /\ verdict = "diverged" => PrintT(<<"DIV", ToJson([rec |-> ri, pc |-> pc, differ |-> SetToSeq({w \in DOMAIN mem : mem[w] # Rec[ri].after[w]})])>>)
          /\ verdict = "conforms" => PrintT(<<"CONF", ToJson([rec |-> ri, steps |-> ds])>>)
=============================================================================
