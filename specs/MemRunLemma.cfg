CONSTANTS
  PERIOD = 2
  LL = 4
  MaxRuns = 3
  MaxVal = 3
INIT Init
NEXT Next
INVARIANTS Equivalent
CHECK_DEADLOCK FALSE
