CONSTANTS
  Sigs = {"HUP", "INT", "SEGV", "TERM", "CHLD"}
  Hids = {1, 2}
  Threads = {0, 1}
  MaxRaise = 1000000
  SelfBlock = FALSE
INIT TInit
NEXT TNext
INVARIANT Done
CHECK_DEADLOCK FALSE
