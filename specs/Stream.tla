------------------------------- MODULE Stream -------------------------------
(* C16 - stream sockets deliver bytes intact; waits, timeouts, try-variants.                 *)
(*                                                                                          *)
(* One connection between a client endpoint "c" and a server side: a listener and the        *)
(* accepted endpoint "s".  Direction d \in {"cs","sc"} has a FIFO `inflight[d]` of capacity   *)
(* Cap (the socket buffers), and the histories `sent[d]`, `received[d]`.  Byte number i of a  *)
(* direction IS the integer i (the drivers use a position-dependent payload), so that loss,  *)
(* duplication and reordering are visible in the histories.                                  *)
(*                                                                                          *)
(* Operations are the ones tiny_std::net offers.  A blocking operation is a pair of steps:   *)
(* XStart (the call is made; if it can complete immediately it does so in the same step),    *)
(* then - once the peer has acted - XComplete, or, for *WithTimeout(d), XTimeout which is    *)
(* enabled only when clock >= start + d.  A Try* operation has no pending state at all: it   *)
(* completes in the step in which it starts (TryNeverBlocks is structural).                  *)
(* `clock` is a logical monotonic clock advanced by Tick.                                    *)
EXTENDS Integers, Sequences, FiniteSets, TLC
CONSTANTS Cap,          \* capacity of inflight per direction
          MaxBytes,     \* bytes each side may write
          MaxClock,     \* bound of the logical clock
          Timeouts,     \* set of timeout values of *WithTimeout calls
          MaxIntr,      \* signal interruptions (EINTR) per timed wait
          IntrMode      \* "remainder": after an interruption the wait goes on for exactly what is left (the code);
                        \* "cumulative": what is left is recomputed as rem - (now - START) each time (a seeded defect)
VARIABLES lst,          \* listener: "none" | "listening" | "closed"
          backlog,      \* connections established by the kernel but not yet accepted (0..1)
          st,           \* [c, s] -> "unbound" | "connected" | "closed"   (s: "unbound" until accepted)
          inflight, sent, received,      \* per direction
          pend,         \* per party in {"c","s","l"}: the blocking call in progress or NoPend
          clock,
          last,         \* the most recently completed call and its result (observation of the API)
          nb            \* per endpoint: the stream is in non-blocking mode - an attribute given by its CONSTRUCTOR
vars == <<lst, backlog, st, inflight, sent, received, pend, clock, last, nb>>

Dirs == {"cs", "sc"}
Out(e) == IF e = "c" THEN "cs" ELSE "sc"       \* the direction endpoint e writes
In(e)  == IF e = "c" THEN "sc" ELSE "cs"
Peer(e) == IF e = "c" THEN "s" ELSE "c"
NoPend == [k |-> "none"]
Inf == 1000000                                   \* "no timeout"

IsPrefix(p, q) == Len(p) <= Len(q) /\ SubSeq(q, 1, Len(p)) = p

Init == /\ lst = "none" /\ backlog = 0
        /\ st = [e \in {"c", "s"} |-> "unbound"]
        /\ inflight = [d \in Dirs |-> <<>>] /\ sent = [d \in Dirs |-> <<>>] /\ received = [d \in Dirs |-> <<>>]
        /\ pend = [p \in {"c", "s", "l"} |-> NoPend]
        /\ clock = 0 /\ last = [op |-> "none", res |-> "none"]
        /\ nb = [e \in {"c", "s"} |-> FALSE]

Logged(x) == last' = x
Tick == clock < MaxClock /\ clock' = clock + 1
        /\ UNCHANGED <<lst, backlog, st, inflight, sent, received, pend, last, nb>>

\* ------------------------------------------------------------------ listener
Listen == /\ lst = "none" /\ lst' = "listening"
          /\ UNCHANGED <<backlog, st, inflight, sent, received, pend, clock, last, nb>>

\* the kernel establishes a connection as soon as somebody listens - before any accept
Established == lst = "listening" /\ backlog = 0 /\ st["c"] = "unbound" /\ st["s"] = "unbound"

\* connect(): completes once the listener exists (else ECONNREFUSED / ENOENT at once)
ConnectStart(d) ==
    /\ st["c"] = "unbound" /\ pend["c"] = NoPend /\ backlog = 0
    /\ IF lst = "listening"
       THEN /\ st' = [st EXCEPT !["c"] = "connected"] /\ backlog' = 1 /\ nb' = [nb EXCEPT !["c"] = TRUE]
            /\ Logged([op |-> "connect", res |-> "ok"]) /\ UNCHANGED pend
       ELSE /\ Logged([op |-> "connect", res |-> "refused"]) /\ UNCHANGED <<st, backlog, pend, nb>>
    /\ UNCHANGED <<lst, inflight, sent, received, clock>>
TryConnect ==                                   \* same step, never a pending state
    /\ st["c"] = "unbound" /\ pend["c"] = NoPend /\ backlog = 0
    /\ IF lst = "listening"
       THEN st' = [st EXCEPT !["c"] = "connected"] /\ backlog' = 1 /\ Logged([op |-> "try_connect", res |-> "ok"])
            /\ nb' = [nb EXCEPT !["c"] = TRUE]
       ELSE Logged([op |-> "try_connect", res |-> "refused"]) /\ UNCHANGED <<st, backlog, nb>>
    /\ UNCHANGED <<lst, inflight, sent, received, pend, clock>>

\* accept(): takes a connection from the backlog, waiting for one if there is none
\* every way of obtaining the accepted stream hands it out in the same (non-blocking) mode
AcceptNow == /\ backlog' = 0 /\ st' = [st EXCEPT !["s"] = "connected"] /\ nb' = [nb EXCEPT !["s"] = TRUE]
AcceptStart(d) ==
    /\ lst = "listening" /\ pend["l"] = NoPend /\ st["s"] = "unbound"
    /\ d # Inf => clock + d <= MaxClock
    /\ IF backlog > 0
       THEN AcceptNow /\ Logged([op |-> "accept", res |-> "ok", d |-> d, start |-> clock, fin |-> clock]) /\ UNCHANGED pend
       ELSE pend' = [pend EXCEPT !["l"] = [k |-> "accept", d |-> d, start |-> clock, since |-> clock, rem |-> d, ni |-> 0]] /\ UNCHANGED <<backlog, st, last, nb>>
    /\ UNCHANGED <<lst, inflight, sent, received, clock>>
AcceptComplete ==
    /\ pend["l"].k = "accept" /\ backlog > 0
    /\ AcceptNow /\ pend' = [pend EXCEPT !["l"] = NoPend]
    /\ Logged([op |-> "accept", res |-> "ok", d |-> pend["l"].d, start |-> pend["l"].start, fin |-> clock])
    /\ UNCHANGED <<lst, inflight, sent, received, clock>>
AcceptTimeout ==
    /\ pend["l"].k = "accept" /\ backlog = 0 /\ pend["l"].d # Inf
    /\ clock >= pend["l"].since + pend["l"].rem               \* the current leg of the wait is over
    /\ pend' = [pend EXCEPT !["l"] = NoPend]
    /\ Logged([op |-> "accept", res |-> "timeout", d |-> pend["l"].d, start |-> pend["l"].start, fin |-> clock])
    /\ UNCHANGED <<lst, backlog, st, inflight, sent, received, clock, nb>>
TryAccept ==
    /\ lst = "listening" /\ pend["l"] = NoPend /\ st["s"] = "unbound"
    /\ IF backlog > 0 THEN AcceptNow /\ Logged([op |-> "try_accept", res |-> "ok"])
       ELSE Logged([op |-> "try_accept", res |-> "none"]) /\ UNCHANGED <<backlog, st, nb>>
    /\ UNCHANGED <<lst, inflight, sent, received, pend, clock>>

\* ------------------------------------------------------------------ data
\* the bytes endpoint e writes next are Len(sent)+1, Len(sent)+2, ...
NextBytes(d, k) == [j \in 1..k |-> Len(sent[d]) + j]
Room(d) == Cap - Len(inflight[d])
Transfer(d, k) == /\ inflight' = [inflight EXCEPT ![d] = @ \o NextBytes(d, k)]
                  /\ sent' = [sent EXCEPT ![d] = @ \o NextBytes(d, k)]
\* write(buf of n bytes): some k in 1..n bytes are accepted; with a full buffer EAGAIN, wait (PollOut), retry
WriteStart(e, n) ==
    /\ st[e] = "connected" /\ pend[e] = NoPend /\ n >= 1 /\ Len(sent[Out(e)]) + n <= MaxBytes
    /\ IF st[Peer(e)] = "closed"
       THEN Logged([op |-> "write", e |-> e, res |-> "epipe"]) /\ UNCHANGED <<inflight, sent, pend>>
       ELSE IF Room(Out(e)) > 0
       THEN \E k \in 1..n : k <= Room(Out(e)) /\ Transfer(Out(e), k)
                            /\ Logged([op |-> "write", e |-> e, res |-> "ok", n |-> k]) /\ UNCHANGED pend
       ELSE pend' = [pend EXCEPT ![e] = [k |-> "write", n |-> n]] /\ UNCHANGED <<inflight, sent, last>>
    /\ UNCHANGED <<lst, backlog, st, received, clock, nb>>
WriteComplete(e) ==                             \* PollOut fired: room again (or the peer went away)
    /\ pend[e].k = "write"
    /\ \/ /\ Room(Out(e)) > 0 /\ st[Peer(e)] # "closed"
          /\ \E k \in 1..pend[e].n : k <= Room(Out(e)) /\ Transfer(Out(e), k) /\ Logged([op |-> "write", e |-> e, res |-> "ok", n |-> k])
       \/ /\ st[Peer(e)] = "closed" /\ Logged([op |-> "write", e |-> e, res |-> "epipe"]) /\ UNCHANGED <<inflight, sent>>
    /\ pend' = [pend EXCEPT ![e] = NoPend]
    /\ UNCHANGED <<lst, backlog, st, received, clock, nb>>

Deliver(d, k) == /\ received' = [received EXCEPT ![d] = @ \o SubSeq(inflight[d], 1, k)]
                 /\ inflight' = [inflight EXCEPT ![d] = SubSeq(@, k + 1, Len(@))]
\* read(buf of n bytes, timeout d): k in 1..n bytes | 0 at end of stream | wait (PollIn) | Timeout
ReadStart(e, n, d) ==
    /\ st[e] = "connected" /\ pend[e] = NoPend /\ n >= 1
    /\ d # Inf => clock + d <= MaxClock            \* (bounded clock: the limit must be reachable)
    /\ IF inflight[In(e)] # <<>>
       THEN \E k \in 1..n : k <= Len(inflight[In(e)]) /\ Deliver(In(e), k)
                            /\ Logged([op |-> "read", e |-> e, res |-> "ok", n |-> k, d |-> d, start |-> clock, fin |-> clock]) /\ UNCHANGED pend
       ELSE IF st[Peer(e)] = "closed"
       THEN Logged([op |-> "read", e |-> e, res |-> "eof", n |-> 0, d |-> d, start |-> clock, fin |-> clock]) /\ UNCHANGED <<inflight, received, pend>>
       ELSE pend' = [pend EXCEPT ![e] = [k |-> "read", n |-> n, d |-> d, start |-> clock, since |-> clock, rem |-> d, ni |-> 0]] /\ UNCHANGED <<inflight, received, last>>
    /\ UNCHANGED <<lst, backlog, st, sent, clock, nb>>
ReadComplete(e) ==
    /\ pend[e].k = "read"
    /\ \/ /\ inflight[In(e)] # <<>>
          /\ \E k \in 1..pend[e].n : k <= Len(inflight[In(e)]) /\ Deliver(In(e), k)
               /\ Logged([op |-> "read", e |-> e, res |-> "ok", n |-> k, d |-> pend[e].d, start |-> pend[e].start, fin |-> clock])
       \/ /\ inflight[In(e)] = <<>> /\ st[Peer(e)] = "closed"
          /\ Logged([op |-> "read", e |-> e, res |-> "eof", n |-> 0, d |-> pend[e].d, start |-> pend[e].start, fin |-> clock])
          /\ UNCHANGED <<inflight, received>>
    /\ pend' = [pend EXCEPT ![e] = NoPend]
    /\ UNCHANGED <<lst, backlog, st, sent, clock, nb>>
\* the wait for readiness (and with it the Timeout) exists only on a non-blocking stream: on a
\* blocking one read(2) itself would wait, for ever if the peer stays silent
ReadTimeout(e) ==
    /\ pend[e].k = "read" /\ pend[e].d # Inf /\ inflight[In(e)] = <<>> /\ nb[e]
    /\ clock >= pend[e].since + pend[e].rem
    /\ pend' = [pend EXCEPT ![e] = NoPend]
    /\ Logged([op |-> "read", e |-> e, res |-> "timeout", d |-> pend[e].d, start |-> pend[e].start, fin |-> clock])
    /\ UNCHANGED <<lst, backlog, st, inflight, sent, received, clock, nb>>

\* a signal handler runs while a timed call waits (ppoll returns EINTR): the wait is resumed for the remainder
Interrupt(p) ==
    /\ pend[p].k \in {"accept", "read"} /\ pend[p].d # Inf /\ pend[p].ni < MaxIntr
    /\ clock < pend[p].since + pend[p].rem
    /\ LET gone == IF IntrMode = "remainder" THEN clock - pend[p].since ELSE clock - pend[p].start
           left == IF pend[p].rem > gone THEN pend[p].rem - gone ELSE 0
       IN pend' = [pend EXCEPT ![p].rem = left, ![p].since = clock, ![p].ni = @ + 1]
    /\ UNCHANGED <<lst, backlog, st, inflight, sent, received, clock, last, nb>>

Close(e) == /\ st[e] = "connected" /\ pend[e] = NoPend
            /\ st' = [st EXCEPT ![e] = "closed"]
            /\ UNCHANGED <<lst, backlog, inflight, sent, received, pend, clock, last, nb>>

Next == \/ Tick \/ Listen
        \/ \E d \in Timeouts \cup {Inf} : ConnectStart(d) \/ AcceptStart(d)
        \/ TryConnect \/ TryAccept \/ AcceptComplete \/ AcceptTimeout
        \/ \E p \in {"c", "s", "l"} : Interrupt(p)
        \/ \E e \in {"c", "s"} :
             \/ \E n \in 1..MaxBytes : WriteStart(e, n) \/ \E d \in Timeouts \cup {Inf} : ReadStart(e, n, d)
             \/ WriteComplete(e) \/ ReadComplete(e) \/ ReadTimeout(e) \/ Close(e)
Spec == Init /\ [][Next]_vars
Fair == /\ \A e \in {"c", "s"} : WF_vars(ReadComplete(e)) /\ WF_vars(WriteComplete(e)) /\ WF_vars(ReadTimeout(e))
        /\ WF_vars(AcceptComplete) /\ WF_vars(AcceptTimeout) /\ WF_vars(Tick)
FairSpec == Spec /\ Fair

\* ------------------------------------------------------------------ properties
TypeOK == /\ lst \in {"none", "listening", "closed"} /\ backlog \in 0..1
          /\ \A d \in Dirs : Len(inflight[d]) <= Cap
\* complete, ordered, unduplicated: what was received is a prefix of what was sent, and what
\* is neither received nor lost is exactly what is in flight
PrefixInv == \A d \in Dirs : /\ IsPrefix(received[d], sent[d])
                             /\ sent[d] = received[d] \o inflight[d]
                             /\ \A j \in 1..Len(sent[d]) : sent[d][j] = j
\* a reader that sees end-of-stream has everything the peer ever wrote
AllDeliveredAtEof ==
    \A e \in {"c", "s"} :
        (st[Peer(e)] = "closed" /\ inflight[In(e)] = <<>>) => received[In(e)] = sent[In(e)]
\* only a LOWER bound on the elapsed logical time is ever asserted
TimeoutNotEarly == last.res = "timeout" => last.fin >= last.start + last.d
EofOnlyAfterAll == (last.op = "read" /\ last.res = "eof") => received[In(last.e)] = sent[In(last.e)]
\* try-operations have no pending state: by construction pend never holds one
TryNeverBlocks == \A p \in {"c", "s", "l"} : pend[p].k \in {"none", "accept", "read", "write"}
\* however often a timed wait is interrupted, its legs add up to the limit
LegsAddUp == \A p \in {"c", "s", "l"} :
               (pend[p].k \in {"accept", "read"} /\ pend[p].d # Inf) => pend[p].since + pend[p].rem = pend[p].start + pend[p].d
\* blocking calls complete once the peer acts (under weak fairness of the completion steps)
ReadCompletes == \A e \in {"c", "s"} :
                   (pend[e].k = "read" /\ inflight[In(e)] # <<>>) ~> (pend[e].k # "read")
AcceptCompletes == (pend["l"].k = "accept" /\ backlog > 0) ~> (pend["l"].k # "accept")
\* every stream handed out by any constructor is in the same mode as its siblings
CtorUniform == \A e \in {"c", "s"} : st[e] = "connected" => nb[e] = nb[IF st["c"] = "connected" THEN "c" ELSE e]
\* a time-limited call always RETURNS (with data, end of stream, or Timeout) - however silent the peer
TimedCallsReturn == /\ \A e \in {"c", "s"} : (pend[e].k = "read" /\ pend[e].d # Inf) ~> (pend[e].k # "read")
                    /\ (pend["l"].k = "accept" /\ pend["l"].d # Inf) ~> (pend["l"].k # "accept")
WriteCompletes == \A e \in {"c", "s"} :
                    (pend[e].k = "write" /\ Room(Out(e)) > 0) ~> (pend[e].k # "write" \/ Room(Out(e)) = 0)
=============================================================================
