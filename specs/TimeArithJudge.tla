-------------------------- MODULE TimeArithJudge --------------------------
(***************************************************************************)
(* C19: judges recorded calls of the REAL Instant / SystemTime API         *)
(* (harness/src/bin/timearith.rs) against the definitional operators of    *)
(* TimeArith.tla, instantiated with BigNat.tla limb arithmetic and the     *)
(* real constants NPS = 10^9, SMAX = 2^63-1, DMAX = 2^64-1.                *)
(* One ndjson line per call:                                               *)
(*   op  "add" | "sub" (b = Duration) | "diff" | "since_unix" | "cmp" |    *)
(*       "elapsed" / "elapsed_sys" (b, c = clock readings before / after)  *)
(*   a, b  [neg, s (limbs of |seconds|), ns]                               *)
(*   out   [k |-> "some", s (limbs), ns] | "none" | "panic" | "cmp" le lt eq c*)
(* Verdict per line:                                                       *)
(*   - a panic is always rejected (the statement: never panics);           *)
(*   - if an operand has negative seconds only panic-freedom is asked      *)
(*     (the statement's quantifier for exactness is "at or after the       *)
(*     epoch/boot");                                                       *)
(*   - otherwise the result must equal the definition: exact total         *)
(*     nanoseconds, normalised, None iff negative / unrepresentable.       *)
(***************************************************************************)
EXTENDS BigNat, TLC, Json, IOUtils, SequencesExt

RECURSIVE Pow2(_)
Pow2(n) == IF n = 0 THEN <<1>> ELSE LET p == Pow2(n - 1) IN Add(p, p)
SMAXB == Sub(Pow2(63), <<1>>)
DMAXB == Sub(Pow2(64), <<1>>)
ASSUME SMAXB = <<5807, 5477, 368, 3372, 922>> /\ DMAXB = <<1615, 955, 737, 6744, 1844>>

\* NPS = 10^9 = 10 * (10^4)^2
BTotal(s, ns) == Add(ShiftL(MulSmall(s, 10), 2), ns)
BSecs(r) == DivSmall(DropL(r, 2), 10)
BNanos(r) == Add(ShiftL(FromInt(ModSmall(DropL(r, 2), 10)), 2), LowL(r, 2))
ASSUME \A s \in {<<>>, <<1>>, <<9999>>, <<0, 1>>, SMAXB, DMAXB} : \A n \in {0, 1, 9999, 10000, 99999999, 100000000, 999999999} :
          /\ BSecs(BTotal(s, FromInt(n))) = s /\ BNanos(BTotal(s, FromInt(n))) = FromInt(n)
          /\ IsBigNat(BTotal(s, FromInt(n)))
ASSUME BTotal(<<2>>, FromInt(7)) = FromInt(2000000007) /\ BTotal(<<>>, <<>>) = <<>>

B == INSTANCE TimeArith WITH Plus <- Add, Minus <- Sub, Leq <- Leq, Total <- BTotal, Secs <- BSecs,
                             Nanos <- BNanos, SMAX <- SMAXB, DMAX <- DMAXB

Rec == ndJsonDeserialize(IOEnv.TRACE)

Val(x) == [s |-> x.s, ns |-> FromInt(x.ns)]
Obs(o) == IF o.k = "some" THEN B!Some(o.s, FromInt(o.ns)) ELSE B!None
InDomain(x) == ~x.neg /\ IsBigNat(x.s) /\ x.ns >= 0 /\ x.ns < 1000000000
Judge(r) ==
    /\ r.out.k # "panic"
    /\ (InDomain(r.a) /\ InDomain(r.b)) => ~r.out.bad      \* negative seconds / nanoseconds outside 0..2^31 in a result
    /\ (InDomain(r.a) /\ InDomain(r.b)) =>
         CASE r.op = "add"  -> r.out.k \in {"some", "none"} /\ Obs(r.out) = B!AddDur(Val(r.a), Val(r.b))
           [] r.op = "sub"  -> r.out.k \in {"some", "none"} /\ Obs(r.out) = B!SubDur(Val(r.a), Val(r.b))
           [] r.op = "diff" -> r.out.k \in {"some", "none"} /\ Obs(r.out) = B!Diff(Val(r.a), Val(r.b))
           \* TryFrom<Duration> for TimeSpec is not named by the statement; it matters through sleep(d):
           \* a representable duration must convert exactly, for the others only panic-freedom is asked
           [] r.op = "to_timespec" -> /\ r.out.k \in {"some", "none"}
                                      /\ B!ToTime(Val(r.a)).some => Obs(r.out) = B!ToTime(Val(r.a))
           [] r.op = "since_unix" -> r.out.k = "some" /\ Obs(r.out) = B!Diff(Val(r.a), Val(r.b))
           \* Instant::elapsed = now - a, with the unknown `now` between the readings b (before) and c (after)
           [] r.op = "elapsed" ->
                 LET lo == B!Diff(Val(r.b), Val(r.a))
                     hi == B!Diff(Val(r.c), Val(r.a))
                     ob == Obs(r.out)
                 IN  /\ r.out.k \in {"some", "none"}
                     /\ InDomain(r.c)
                     /\ lo.some => /\ ob.some /\ hi.some
                                    /\ B!Before(B!AsVal(lo), B!AsVal(ob)) /\ B!Before(B!AsVal(ob), B!AsVal(hi))
                     /\ ~hi.some => ~ob.some
           \* SystemTime::elapsed: the real-time clock may be stepped between the readings; with 10 s
           \* of slack: a clearly past time gives Some(about b - a), a clearly future one None
           [] r.op = "elapsed_sys" ->
                 LET ten == [s |-> <<10>>, ns |-> <<>>]
                     ob  == Obs(r.out)
                     aP  == B!AddDur(Val(r.a), ten)                   \* a + 10 s
                     cP  == B!AddDur(Val(r.c), ten)                   \* c + 10 s
                 IN  /\ r.out.k \in {"some", "none"}
                     /\ InDomain(r.c)
                     /\ (aP.some /\ B!Before(B!AsVal(aP), Val(r.b))) =>      \* a + 10 s <= b
                            /\ ob.some
                            /\ B!Before(B!AsVal(B!Diff(Val(r.b), B!AsVal(aP))), B!AsVal(ob))     \* b - a - 10 s <= ob
                            /\ B!Before(B!AsVal(ob), B!AsVal(B!Diff(B!AsVal(cP), Val(r.a))))     \* ob <= c + 10 s - a
                     /\ (cP.some /\ B!Before(B!AsVal(cP), Val(r.a))) => ~ob.some                \* c + 10 s <= a
           [] r.op = "cmp"  -> /\ r.out.k = "cmp"
                               /\ r.out.le = B!Before(Val(r.a), Val(r.b))
                               /\ r.out.lt = ~B!Before(Val(r.b), Val(r.a))
                               /\ r.out.eq = (B!Before(Val(r.a), Val(r.b)) /\ B!Before(Val(r.b), Val(r.a)))
                               /\ r.out.c = (IF r.out.lt THEN -1 ELSE IF r.out.eq THEN 0 ELSE 1)
                               \* order <=> sign of the difference
                               /\ r.out.le = B!Diff(Val(r.b), Val(r.a)).some

Bad == {i \in 1..Len(Rec) : ~Judge(Rec[i])}
ASSUME PrintT(<<"JUDGED", ToJson([n |-> Len(Rec), bad |-> SetToSeq(Bad)])>>)

VARIABLE x
Init == x = 0
Next == UNCHANGED x
=============================================================================
