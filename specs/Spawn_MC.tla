----------------------------- MODULE Spawn_MC -----------------------------
(* Exhaustive configurations and plan generator for Spawn.tla.  Init ranges over            *)
(* configuration x fault plan; every terminal state prints its plan together with what the  *)
(* model predicts (per-process call history, returns, image), which the check replays into  *)
(* the real code under the tracer.                                                          *)
EXTENDS Spawn, Json

Modes == {"inherit", "null", "pipe", "raw"}
IoAll == {<<a, b, c>> : a \in Modes, b \in Modes, c \in Modes}
Base  == [nargs |-> 1, nenv |-> 1, cwd |-> "none", uid |-> "unset", gid |-> "unset", pg |-> "unset",
          io |-> <<"inherit", "inherit", "inherit">>, pre |-> << >>, prog |-> "ok", wseq |-> <<"wait">>, respawn |-> "none"]
PreAll   == {<< >>, <<0>>, <<0, 0>>, <<13>>, <<0, 13>>, <<-1>>}
PreQuick == {<< >>, <<0, 13>>, <<-1>>}
\* <<uid, gid>> settings: own ids, a foreign user, a foreign group, both (setgid then fails: EPERM)
IdPairsQuick == {<<"unset", "unset">>, <<"own", "own">>, <<"other", "unset">>, <<"unset", "other">>, <<"other", "other">>}
IdPairsFull  == IdPairsQuick \cup {<<"own", "unset">>, <<"other", "own">>}

\* every stdio combination on the base command
CfgsIo == {[Base EXCEPT !.io = x] : x \in IoAll}
\* ... and on a command that uses every other setting
Rich == [nargs |-> 2, nenv |-> 2, cwd |-> "ok", uid |-> "other", gid |-> "unset", pg |-> "own",
         io |-> <<"inherit", "inherit", "inherit">>, pre |-> <<0>>, prog |-> "ok", wseq |-> <<"wait">>, respawn |-> "none"]
CfgsIoRich == {[Rich EXCEPT !.io = x] : x \in IoAll}
\* the other dimensions, with one mixed stdio table
CfgsDimsQuick ==
    {[nargs |-> a, nenv |-> n, cwd |-> w, uid |-> u[1], gid |-> u[2], pg |-> g, io |-> <<"null", "pipe", "raw">>,
      pre |-> p, prog |-> b, wseq |-> <<"wait">>, respawn |-> "none"] :
        a \in {0, 2}, n \in {0, 2}, w \in {"none", "ok", "missing"}, u \in IdPairsQuick,
        g \in {"unset", "own"}, p \in PreQuick, b \in {"ok", "missing"}}
CfgsDimsFull ==
    {[nargs |-> a, nenv |-> n, cwd |-> w, uid |-> u[1], gid |-> u[2], pg |-> g, io |-> t, pre |-> p, prog |-> b,
      wseq |-> <<"wait">>, respawn |-> "none"] :
        a \in {0, 2}, n \in 0..2, w \in {"none", "ok", "missing"}, u \in IdPairsFull, g \in {"unset", "own"},
        t \in {<<"null", "pipe", "raw">>, <<"inherit", "inherit", "inherit">>}, p \in PreAll, b \in {"ok", "missing"}}
\* what the caller does with the returned Child: every sequence of 1..3 calls over wait / try_wait /
\* try_wait-polled-until-Some, on a plain command and on one whose program waits for the end of
\* its stdin pipe (there a try_wait before the pipe is closed says None for sure)
WaitOps  == {"wait", "poll", "try"}
WaitSeqs == UNION {[1..n -> WaitOps] : n \in 1..3}
WBase    == [Base EXCEPT !.nenv = 0]
CfgsWait == {[b EXCEPT !.wseq = w] : b \in {WBase, [WBase EXCEPT !.io = <<"pipe", "inherit", "inherit">>]}, w \in WaitSeqs}
\* Stdio::RawFd naming the caller's OWN standard descriptors: every table over inherit / RawFd(0) / RawFd(1) /
\* RawFd(2) (identity such as stdout(RawFd(1)), the shell's 1>&2 and 2>&1, the same descriptor in two slots,
\* swaps)
AliasModes == {"inherit", "fd0", "fd1", "fd2"}
CfgsAlias == {[WBase EXCEPT !.io = <<a, b, c>>] : a \in AliasModes, b \in AliasModes, c \in AliasModes} \ {WBase}
\* a program file that is open for writing somewhere (execve says ETXTBSY without any injection)
CfgsBusy == {[WBase EXCEPT !.prog = "busy"], [Rich EXCEPT !.prog = "busy", !.io = <<"null", "pipe", "inherit">>]}
\* the commands on which the failures that do not go away are tried
PersistCfgs == {WBase, [Rich EXCEPT !.io = <<"null", "pipe", "raw">>, !.gid = "other", !.uid = "unset"]} \cup CfgsBusy
\* several pre-exec closures with distinguishable outcomes: a failure that is not the last one, two
\* failures (the FIRST one's errno is the caller's), failures without errno, three closures
PreOrders == {<<13, 0>>, <<13, 5>>, <<5, 13>>, <<0, 13, 0>>, <<13, 0, 0>>, <<0, 0, 13>>, <<-1, 0>>, <<0, -1, 5>>, <<0, 0, 0>>}
CfgsPre == {[b EXCEPT !.pre = p] : b \in {WBase, [Rich EXCEPT !.io = <<"null", "pipe", "inherit">>, !.uid = "unset"]}, p \in PreOrders}
\* the same Command spawned twice (respawn = "same"), or with one more Command::arg in between ("arg")
ReuseBases == {WBase,
               [Base EXCEPT !.nargs = 2, !.nenv = 2, !.cwd = "ok", !.pg = "own", !.io = <<"null", "pipe", "inherit">>, !.pre = <<0>>],
               [Base EXCEPT !.nargs = 0, !.pre = <<0, 0>>, !.io = <<"pipe", "null", "pipe">>],
               [Base EXCEPT !.prog = "missing"], [Base EXCEPT !.cwd = "missing", !.nenv = 2]}
CfgsReuse == {[b EXCEPT !.respawn = r] : b \in ReuseBases, r \in {"same", "arg"}}
CfgsQuick    == CfgsIo \cup CfgsIoRich \cup CfgsDimsQuick \cup CfgsWait \cup CfgsReuse \cup CfgsAlias \cup PersistCfgs \cup CfgsPre
CfgsThorough == CfgsIo \cup CfgsIoRich \cup CfgsDimsFull \cup CfgsWait \cup CfgsReuse \cup CfgsAlias \cup PersistCfgs \cup CfgsPre
CfgsTiny     == {Base, [Base EXCEPT !.io = <<"null", "pipe", "raw">>, !.cwd = "ok", !.uid = "own", !.gid = "own",
                               !.pg = "own", !.pre = <<0>>, !.nargs = 2, !.nenv = 2],
                 [Base EXCEPT !.cwd = "missing"], [Base EXCEPT !.pre = <<0, 13>>], [Base EXCEPT !.pre = <<-1>>],
                 [Base EXCEPT !.prog = "missing"], [Base EXCEPT !.uid = "other", !.gid = "other"],
                 [Base EXCEPT !.uid = "other"], [Base EXCEPT !.gid = "other"],
                 [Base EXCEPT !.io = <<"pipe", "inherit", "inherit">>],
                 [WBase EXCEPT !.respawn = "arg"], [Base EXCEPT !.nargs = 2, !.nenv = 2, !.respawn = "same"],
                 [Base EXCEPT !.prog = "missing", !.respawn = "arg"],
                 [WBase EXCEPT !.io = <<"inherit", "fd2", "inherit">>], [WBase EXCEPT !.io = <<"inherit", "inherit", "fd1">>],
                 [WBase EXCEPT !.io = <<"inherit", "fd1", "inherit">>], [WBase EXCEPT !.io = <<"inherit", "fd2", "fd2">>],
                 [WBase EXCEPT !.prog = "busy"], WBase, [WBase EXCEPT !.pre = <<13, 0>>], [WBase EXCEPT !.pre = <<13, 5>>],
                 [WBase EXCEPT !.wseq = <<"poll", "wait">>], [WBase EXCEPT !.wseq = <<"wait", "try">>],
                 [WBase EXCEPT !.io = <<"pipe", "inherit", "inherit">>, !.wseq = <<"try", "poll", "try">>]}

Fl(p, s, ks, es) == {[p |-> p, sys |-> s, k |-> k, err |-> e, persist |-> FALSE] : k \in ks, e \in es}
\* failures that do not go away: the first and every later call of s by p fails with e
FlP(p, s, es) == {[p |-> p, sys |-> s, k |-> 1, err |-> e, persist |-> TRUE] : e \in es}
\* every step with its plausible errnos, the retry-tempting ones included (EINTR 4, EAGAIN 11, ENOMEM 12,
\* ETXTBSY 26).  Left out on purpose: EINTR on the parent's read of the sync pipe and EBUSY on dup3 - the
\* code repeats those calls, as every implementation does, and a world in which they fail for ever has no
\* way out
FaultsPersist ==
    FlP("C", "execve", {26, 11, 4, 12, 13}) \cup FlP("C", "dup3", {4, 9}) \cup FlP("C", "chdir", {4, 13})
    \cup FlP("C", "setuid", {11, 1}) \cup FlP("C", "setgid", {4, 1}) \cup FlP("C", "setpgid", {4, 1})
    \cup FlP("P", "openat", {4, 24}) \cup FlP("P", "pipe2", {4, 24}) \cup FlP("P", "fork", {11, 12})
    \cup FlP("P", "wait4", {4, 10}) \cup FlP("P", "read", {5})
\* one errno per call (quick); -3 = the read is forced to return 3 (short read)
FaultsQuick ==
    FaultsPersist \cup
    Fl("P", "openat", 1..3, {24}) \cup Fl("P", "pipe2", 1..4, {24}) \cup Fl("P", "fork", {1}, {11})
    \cup Fl("P", "close", {1}, {4}) \cup Fl("P", "read", {1}, {4, 5, -3}) \cup Fl("P", "wait4", {1, 2}, {10})
    \cup Fl("C", "close", {1}, {9}) \cup Fl("C", "dup3", 1..3, {9}) \cup Fl("C", "chdir", {1}, {13})
    \cup Fl("C", "setuid", {1}, {1}) \cup Fl("C", "setgid", {1}, {1}) \cup Fl("C", "setpgid", {1}, {1})
    \cup Fl("C", "execve", {1}, {13})
FaultsThorough ==
    FaultsQuick \cup FaultsPersist
    \cup Fl("P", "openat", 1..3, {12, 4}) \cup Fl("P", "pipe2", 1..4, {12, 23}) \cup Fl("P", "fork", {1}, {12})
    \cup Fl("P", "wait4", {1}, {4}) \cup Fl("P", "read", {1}, {9, -1})
    \cup Fl("C", "dup3", 1..3, {4, 24}) \cup Fl("C", "chdir", {1}, {2, 20}) \cup Fl("C", "setuid", {1}, {11, 22})
    \cup Fl("C", "setgid", {1}, {22}) \cup Fl("C", "setpgid", {1}, {3, 13}) \cup Fl("C", "execve", {1}, {2, 8, 12})

NCount(c, m) == Cardinality({i \in 1..3 : c.io[i] = m})
ApplicableOnce(c, f) ==
    \/ f = NoFault
    \/ f.sys = "openat" /\ f.k <= NCount(c, "null")
    \/ f.sys = "pipe2" /\ f.k <= NCount(c, "pipe") + 1
    \/ f.sys \in {"fork", "close", "read", "execve"}
    \/ f.sys = "wait4" /\ f.k <= Len(c.wseq)
    \/ f.sys = "dup3" /\ f.k <= 3 - NCount(c, "inherit")
    \/ f.sys = "chdir" /\ c.cwd # "none"
    \/ f.sys = "setuid" /\ c.uid # "unset"
    \/ f.sys = "setgid" /\ c.gid # "unset"
    \/ f.sys = "setpgid" /\ c.pg # "unset"

Applicable(c, f) == ApplicableOnce(c, f) /\ (f.persist => c \in PersistCfgs)
InitMC == Init /\ Applicable(cfg, fault)
SpecMC == InitMC /\ [][Next]_vars_all

Plan == [cfg |-> cfg, fault |-> fault, fired |-> fired, start |-> StartFeature, round |-> round,
         hist |-> hist, returns |-> returns, execd |-> execd, image |-> image, cstatus |-> cstatus,
         waits |-> waits, reaped |-> reaped, failed |-> F, viol |-> AbsViolated]
Emit == (Terminal /\ (fault = NoFault \/ fired)) => PrintT(<<"PLAN", ToJson(Plan)>>)
=============================================================================
