---------------------------- MODULE NumConvGen ----------------------------
(* X02: enumerates the boundary value classes of every conversion and prints the            *)
(* definition's answer; checks closure (& and | of non-negative numbers are non-negative)   *)
(* and Prng transcription = definition on the seed set.                                     *)
EXTENDS NumConv, Json, SequencesExt
CONSTANTS NOut
I32Set == {I32MIN, I32MIN + 1, -65536, -2, -1, 0, 1, 2, 255, 256, 65535, 65536, 1073741823, 1073741824,
           I32MAX - 1, I32MAX}
NonNeg == {v \in I32Set : v >= 0} \cup {5, 10, 12, 1431655765, 715827882}
SeedSet == {<<>>, <<1>>, <<55>>, <<4095, 4095, 4095, 4095>>, <<0, 0, 0, 0, 1>>, <<1, 0, 0, 0, 1>>,
            <<0, 0, 0, 0, 0, 8>>, <<4095, 4095, 4095, 4095, 4095, 15>>, <<2770, 496, 3307, 2712, 2900, 10>>,
            <<1365, 2730, 1365, 2730, 1365, 10>>}
VARIABLES op, a, b
Init == \/ op = "try_new" /\ a \in I32Set /\ b = 0
        \/ op = "comptime" /\ a \in I32Set /\ b = 0
        \/ op = "bits" /\ a \in NonNeg /\ b \in NonNeg
        \/ op = "consts" /\ a = 0 /\ b = 0
        \/ op = "clockid" /\ a \in I32Set /\ b = 0
        \/ op = "mode" /\ a \in NonNeg /\ b = 0
        \/ op = "timespec" /\ a \in SecsSet /\ b \in {0, 1, 999999999}
        \/ op = "prng" /\ a \in SeedSet /\ b = NOut
Next == UNCHANGED <<op, a, b>>
Closed == op = "bits" => ((a & b) >= 0 /\ (a | b) >= 0 /\ (a & b) <= I32MAX /\ (a | b) <= I32MAX)
PrngTranscription == op = "prng" => Outputs(a, b) = OutputsCode(a, b)
Expect ==
    CASE op = "try_new" -> TryNew(a)
      [] op = "comptime" -> SetToSeq(Comptime(a))
      [] op = "bits" -> BitsDef(a, b)
      [] op = "consts" -> [max |-> I32MAX, zero |-> 0, default |-> 0]
      [] op = "clockid" -> [from |-> a, from_raw |-> a]
      [] op = "mode" -> [bits |-> a]
      [] op = "timespec" -> TimeSpecDef(a, b)
      [] op = "prng" -> Outputs(a, b)
Emit == PrintT(<<"N", ToJson([op |-> op, a |-> a, b |-> b, exp |-> Expect])>>)
=============================================================================
