----------------------------- MODULE BigNat_MC -----------------------------
(* Self-check of BigNat.tla against TLC's native arithmetic: every operator, on            *)
(* x \in 0..XMAX plus windows around the limb boundaries 10^4, 10^8 and around 10^9,        *)
(* paired with every y of a boundary set.                                                   *)
EXTENDS BigNat, TLC
CONSTANT XMAX
VARIABLES x, y
Win(c, w) == (c - w)..(c + w)
XS == 0..XMAX \cup Win(10000, 12) \cup Win(20000, 3) \cup Win(100000, 12) \cup Win(99999999, 12) \cup Win(100000000, 12)
         \cup Win(999999990, 9) \cup {1000000000, 1073741823}
YS == {0, 1, 2, 9, 10, 11, 9998, 9999, 10000, 10001, 19999, 20000, 99999, 100000, 100001, 12345678,
       99999999, 100000000, 100000001, 999999999, 1000000000, 1073741823}
Ms == {1, 2, 7, 10, 16, 9999, 10000}
Pow(k) == IF k = 0 THEN 1 ELSE IF k = 1 THEN 10000 ELSE 100000000

Init == x \in XS /\ y \in YS
Next == UNCHANGED <<x, y>>

Check ==
    LET a == FromInt(x)
        b == FromInt(y)
    IN  /\ IsBigNat(a) /\ ToInt(a) = x
        /\ Add(a, b) = FromInt(x + y)
        /\ Cmp(a, b) = (IF x < y THEN -1 ELSE IF x = y THEN 0 ELSE 1)
        /\ Leq(a, b) = (x <= y) /\ Lt(a, b) = (x < y)
        /\ x >= y => Sub(a, b) = FromInt(x - y)
        /\ y >= x => Sub(b, a) = FromInt(y - x)
        /\ \A m \in Ms : /\ DivSmall(a, m) = FromInt(x \div m) /\ ModSmall(a, m) = x % m
                         /\ x <= 200000 => MulSmall(a, m) = FromInt(x * m)
        /\ MulSmall(a, 0) = <<>>
        /\ \A k \in 0..2 : /\ DropL(a, k) = FromInt(x \div Pow(k))
                           /\ LowL(a, k) = FromInt(x % Pow(k))
        /\ x <= 200000 => ShiftL(a, 1) = FromInt(x * 10000)
        /\ x <= 20 => ShiftL(a, 2) = FromInt(x * 100000000)
        \* beyond 2^31: algebraic identities only
        /\ LET big == ShiftL(Add(a, <<1>>), 3) IN   \* (x+1) * 10^12
             /\ IsBigNat(big)
             /\ Sub(Add(big, b), b) = big
             /\ Sub(Add(big, b), big) = b
             /\ DropL(Add(big, b), 3) = Add(a, <<1>>)
             /\ LowL(Add(big, b), 3) = b
             /\ DivSmall(MulSmall(big, 10), 10) = big
             /\ Cmp(big, b) = 1 /\ Cmp(b, big) = -1
=============================================================================
