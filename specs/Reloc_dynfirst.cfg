\* a LEAD decided by the model: with PT_DYNAMIC as the first program header the load base is never computed
\* (TLC must report a violation here; link editors never emit this order)
CONSTANTS
  Variant = "coded"
  Rels <- Rel1
  Relas <- Rela3
  Words <- W
  Layouts = {1}
  PhdrLists <- PhdrsDynFirst
  Modes = {"selfreloc"}
  BASE = 100000
  DYNVADDR = 200
INIT Init
NEXT Next
INVARIANTS ImageCorrect NoFault
