----------------------------- MODULE TimeArith -----------------------------
(***************************************************************************)
(* C19, property level: what adding / subtracting a Duration to an         *)
(* Instant / SystemTime and differencing two of them must return, defined  *)
(* on EXACT TOTAL NANOSECONDS.                                             *)
(*                                                                         *)
(* The module is parameterised by the arithmetic it is evaluated in, so    *)
(* that ONE definition serves                                              *)
(*   - TimeArithCode.tla : native integers, scaled constants, compared     *)
(*                         exhaustively with the transcription of the code *)
(*   - TimeArithJudge.tla: BigNat.tla limb arithmetic with the real        *)
(*                         constants (10^9, 2^63-1, 2^64-1), judging       *)
(*                         recorded results of the real API.               *)
(* Numbers below are values of that arithmetic (naturals).  A time value   *)
(* or a duration is a record [s, ns], normalised (0 <= ns < NPS), at or    *)
(* after the epoch / boot (s >= 0).  Results: None or Some(s, ns).         *)
(***************************************************************************)
CONSTANTS Plus(_, _),      \* a + b
          Minus(_, _),     \* a - b, only used for a >= b
          Leq(_, _),       \* a <= b
          Total(_, _),     \* Total(s, ns) = s * NPS + ns
          Secs(_),         \* Secs(r)  = r div NPS
          Nanos(_),        \* Nanos(r) = r mod NPS
          SMAX,            \* largest seconds value of a time value (i64::MAX)
          DMAX             \* largest seconds value of a Duration (u64::MAX)

None == [some |-> FALSE]
Some(s, ns) == [some |-> TRUE, s |-> s, ns |-> ns]

T(x) == Total(x.s, x.ns)
Split(r, maxs) == IF Leq(Secs(r), maxs) THEN Some(Secs(r), Nanos(r)) ELSE None

\* time + duration: None iff the seconds do not fit
AddDur(t, d) == Split(Plus(T(t), T(d)), SMAX)
\* time - duration: None iff the result would lie before the epoch / boot
SubDur(t, d) == IF Leq(T(d), T(t)) THEN Split(Minus(T(t), T(d)), SMAX) ELSE None
\* a - b as a Duration: None iff a is earlier than b
Diff(a, b) == IF Leq(T(b), T(a)) THEN Split(Minus(T(a), T(b)), DMAX) ELSE None
\* a <= b
Before(a, b) == Leq(T(a), T(b))
\* Duration -> time value (TryFrom<Duration> for TimeSpec): the same seconds and nanoseconds, None
\* iff the seconds do not fit
ToTime(d) == IF Leq(d.s, SMAX) THEN Some(d.s, d.ns) ELSE None

(* the algebraic laws of the statement, as predicates on arbitrary t, u, d *)
AsVal(r) == [s |-> r.s, ns |-> r.ns]
LawAddSub(t, d) == AddDur(t, d).some => /\ SubDur(AsVal(AddDur(t, d)), d) = Some(t.s, t.ns)
                                        /\ Diff(AsVal(AddDur(t, d)), t) = Some(d.s, d.ns)
LawSubAdd(t, d) == SubDur(t, d).some => AddDur(AsVal(SubDur(t, d)), d) = Some(t.s, t.ns)
LawOrder(a, b) == /\ Diff(a, b).some <=> Before(b, a)
                  /\ (Diff(a, b).some /\ Diff(b, a).some) <=> (a = b)
                  /\ Diff(a, b).some \/ Diff(b, a).some
=============================================================================
