---------------------------- MODULE FdTableTrace ----------------------------
(* C12 binding B2: replays windows recorded from the real code (tools/sysinj log of          *)
(* harness/src/bin/fdops.rs, turned into events by lib/checks/c12.py) through the actions of  *)
(* FdTable.tla and prints, for every window, the obligations it broke.                        *)
(* Events (ndjson, IOEnv.TRACE):                                                             *)
(*   {"ev":"begin","run":n,"pre":[fds],"owned":[fds]}     table from /proc/<pid>/fd           *)
(*   {"ev":"create","fds":[..]}  {"ev":"replace","fd":n}  {"ev":"close","fd":n}               *)
(*   {"ev":"return","res":"ok|err","handed":[..],"exact":bool,"snap":[fds]}                   *)
(*   {"ev":"end","snap":[fds]}                                                                *)
(* `snap` is the tracer's /proc snapshot at the marker; a difference between it and the       *)
(* table derived from the system calls is reported as "Drift" (a fault of the machinery:      *)
(* some descriptor-affecting call is not modelled), never as a property violation.            *)
EXTENDS FdTable, TLC, Json, IOUtils, SequencesExt
Rec == ndJsonDeserialize(IOEnv.TRACE)

VARIABLES i, drift
tvars == <<vars, i, drift>>

TInit == /\ i = 1 /\ drift = FALSE
         /\ open = {} /\ pre = {} /\ owned = {} /\ mine = {}
         /\ phase = "idle" /\ result = "none" /\ handed = {} /\ exact = TRUE /\ bad = {}

\* the same end-of-window obligations evaluated on the /proc snapshot alone (independent of the
\* table derived from the system-call log)
SnapBad(snap) == (IF (snap \ pre) # {} THEN {"Leak"} ELSE {})
                 \cup (IF (snap \cap owned) # {} THEN {"NotConsumed"} ELSE {})
                 \cup (IF ((pre \ owned) \ snap) # {} THEN {"ForeignClose"} ELSE {})
Report(e) == PrintT(<<"W", ToJson([run |-> e.run, bad |-> SetToSeq(bad'), snapbad |-> SetToSeq(SnapBad(ToSet(e.snap))),
                                   drift |-> drift', open |-> SetToSeq(open')])>>)

Step(e) ==
    CASE e.ev = "begin" ->
            \* a new window (possibly a new process): the table is what /proc showed
            /\ open' = ToSet(e.pre) /\ pre' = ToSet(e.pre)
            /\ owned' = ToSet(e.owned) /\ mine' = ToSet(e.owned)
            /\ phase' = "op" /\ result' = "none" /\ handed' = {} /\ exact' = TRUE /\ bad' = {}
            /\ drift' = ~(ToSet(e.owned) \subseteq ToSet(e.pre))
      [] e.ev = "create"  ->
            IF ToSet(e.fds) \cap open = {}
            THEN Create(ToSet(e.fds)) /\ UNCHANGED drift
            ELSE \* the kernel handed out a number the derived table holds as open: the table is wrong
                 /\ drift' = TRUE
                 /\ open' = open \cup ToSet(e.fds) /\ mine' = mine \cup ToSet(e.fds)
                 /\ UNCHANGED <<pre, owned, phase, result, handed, exact, bad>>
      [] e.ev = "replace" -> Replace(e.fd) /\ UNCHANGED drift
      [] e.ev = "close"   -> Close(e.fd) /\ UNCHANGED drift
      [] e.ev = "return"  -> /\ Return(e.res, ToSet(e.handed), e.exact)
                             /\ drift' = (drift \/ open # ToSet(e.snap))
      [] e.ev = "end"     -> /\ End
                             /\ drift' = (drift \/ open # ToSet(e.snap))
                             /\ Report(e)

TNext == /\ i <= Len(Rec)
         /\ Step(Rec[i])
         /\ i' = i + 1
TSpec == TInit /\ [][TNext]_tvars

\* printed once, when every event of the trace has been consumed (an event that no action
\* accepts would stop the replay before)
Done == i = Len(Rec) + 1 => PrintT(<<"DONE", ToJson([events |-> Len(Rec)])>>)
TraceFds == Nat
=============================================================================
