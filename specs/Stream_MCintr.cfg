CONSTANTS
  Cap = 1
  MaxBytes = 1
  MaxClock = 3
  Timeouts = {3}
  MaxIntr = 2
  IntrMode = "cumulative"
SPECIFICATION Spec
INVARIANTS TimeoutNotEarly
CHECK_DEADLOCK FALSE
