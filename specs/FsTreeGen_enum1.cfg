CONSTANTS
  Mode = "enum"
  Depth = 1
  OpSet = "all"
INIT Init
NEXT Next
INVARIANTS Emit Sane
CHECK_DEADLOCK FALSE
