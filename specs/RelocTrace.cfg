CONSTANTS
  Variant = "coded"
  Rels = {}
  Relas = {}
  Words = {}
  Layouts = {}
  PhdrLists = {}
  Modes = {}
  BASE = 0
  DYNVADDR = 0
INIT InitT
NEXT NextT
INVARIANT Report
CHECK_DEADLOCK FALSE
