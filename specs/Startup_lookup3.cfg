\* every environment block of at most 3 entries x every key x {var, var_unix}
CONSTANTS
  Version = "fixed"
  Argvs <- ArgvOne
  Entries <- EntriesQ
  MaxEnv = 3
  Keys <- KeysQ
  Auxvs <- AuxOne
  Fns = {"var", "var_unix"}
INIT Init
NEXT Next
INVARIANTS BootCorrect LookupCorrect ReadsInBounds
