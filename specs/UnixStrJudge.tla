--------------------------- MODULE UnixStrJudge ---------------------------
(* B2/B3 judge: reads recorded calls of the real UnixStr operations (ndjson, one call per   *)
(* line: op, a, b, out, view) and decides each against the definitional operators of        *)
(* UnixStr.tla.  view = "content": string results are compared as the API shows them        *)
(* (without the last stored byte; C11).  view = "term": only C10's termination obligation  *)
(* on the stored bytes (what the bytes should say is C11's subject).  view = "raw": the stored bytes themselves must be  *)
(* right and satisfy the termination obligation (C10).                                      *)
EXTENDS UnixStr, TLC, Json, IOUtils, SequencesExt
Rec == ndJsonDeserialize(IOEnv.TRACE)

Allowed(r) ==
    CASE r.op = "find"            -> Find(r.a, r.b)
      [] r.op = "find_buf"        -> FindBuf(r.a, r.b)
      [] r.op = "match_up_to"     -> MatchUpTo(r.a, r.b)
      [] r.op = "match_up_to_str" -> MatchUpTo(r.a, r.b)
      [] r.op = "ends_with"       -> EndsWith(r.a, r.b)
      [] r.op = "path_join"       -> PathJoin(r.a, r.b)
      [] r.op = "path_join_fmt"   -> PathJoin(r.a, r.b)
      [] r.op = "parent_path"     -> ParentPath(r.b)
      [] r.op = "path_file_name"  -> PathFileName(r.b)
      [] r.op = "str_try_from_bytes"     -> StrTryFromBytes(r.b)
      [] r.op = "str_try_from_str"       -> StrTryFromBytes(r.b)
      [] r.op = "string_try_from_bytes"  -> StringTryFrom(r.b)
      [] r.op = "string_try_from_vec"    -> StringTryFrom(r.b)
      [] r.op = "string_try_from_str"    -> StringTryFrom(r.b)
      [] r.op = "string_try_from_string" -> StringTryFrom(r.b)
      [] r.op = "string_from_str"        -> StringTryFrom(r.b)
      [] r.op = "from_format"            -> FromFormat(r.b)
      [] r.op = "from_str_checked"       -> FromStrChecked(r.b)
      [] r.op = "file_unix_name"         -> {Some(Raw(r.b))}
      [] r.op = "unix_lit"               -> {Some(Raw(r.b))}
      [] r.op = "string_from_unixstr"    -> {Some(Raw(r.b))}

StringOps == {"path_join", "path_join_fmt", "parent_path", "path_file_name", "file_unix_name",
              "unix_lit", "string_from_unixstr",
              "str_try_from_bytes", "str_try_from_str", "string_try_from_bytes",
              "string_try_from_vec", "string_try_from_str", "string_try_from_string",
              "string_from_str", "from_format", "from_str_checked"}
\* what a user of the API sees of a stored value: everything but its last byte
View(x) == IF Len(x) >= 2 /\ x[1] = 1 THEN <<1>> \o Chop(Tail(x)) ELSE x

Judge(r) ==
    IF r.view = "content" /\ r.op \in StringOps
    THEN View(r.out) \in {View(x) : x \in Allowed(r)}
    ELSE IF r.view = "term"   \* C10 on path operations: only the termination obligation
    THEN Produced(r.out, ~HasNul(r.a) /\ ~HasNul(r.b)) /\ r.out # PANIC
    ELSE /\ IF r.op = "path_join_fmt" THEN PathJoinFmtOk(r.a, r.b, r.out) ELSE r.out \in Allowed(r)
         /\ (r.op \in StringOps => Produced(r.out, ~HasNul(r.a) /\ ~HasNul(r.b)))

Bad == {i \in 1..Len(Rec) : ~Judge(Rec[i])}
ASSUME PrintT(<<"JUDGED", ToJson([n |-> Len(Rec), bad |-> SetToSeq(Bad)])>>)

VARIABLE x
Init == x = 0
Next == UNCHANGED x
=============================================================================
