------------------------------- MODULE BigNat -------------------------------
(***************************************************************************)
(* Natural numbers of arbitrary size as little-endian sequences of base-   *)
(* 10^4 limbs (<<>> = 0, no leading zero limb: the representation is       *)
(* canonical, so = on sequences is = on numbers).  TLC's integers are      *)
(* 32-bit; this module lets TLC judge 64-bit quantities (C19) exactly.     *)
(* All intermediate native values stay below 2^31                          *)
(* (limb * small + carry <= 9999 * 10^4 + 10^4).                           *)
(* BigNat_MC.cfg self-checks every operator against native arithmetic.     *)
(***************************************************************************)
EXTENDS Integers, Sequences

BASE == 10000
BMax(a, b) == IF a > b THEN a ELSE b
BMin(a, b) == IF a < b THEN a ELSE b

IsBigNat(a) == /\ \A i \in 1..Len(a) : a[i] \in 0..(BASE - 1)
               /\ (Len(a) > 0 => a[Len(a)] # 0)
Limb(a, i) == IF i >= 1 /\ i <= Len(a) THEN a[i] ELSE 0

\* strip zero limbs from the top
RECURSIVE Norm(_)
Norm(a) == IF Len(a) > 0 /\ a[Len(a)] = 0 THEN Norm(SubSeq(a, 1, Len(a) - 1)) ELSE a

RECURSIVE FromInt(_)
FromInt(n) == IF n = 0 THEN <<>> ELSE <<n % BASE>> \o FromInt(n \div BASE)
\* only for values known to be < 2^31
RECURSIVE ToInt(_)
ToInt(a) == IF Len(a) = 0 THEN 0 ELSE a[1] + BASE * ToInt(Tail(a))

Add(a, b) ==
    LET n == BMax(Len(a), Len(b))
        c[i \in 0..n] == IF i = 0 THEN 0 ELSE (Limb(a, i) + Limb(b, i) + c[i - 1]) \div BASE
    IN  Norm([i \in 1..(n + 1) |-> IF i <= n THEN (Limb(a, i) + Limb(b, i) + c[i - 1]) % BASE ELSE c[n]])

\* -1, 0, 1
Cmp(a, b) ==
    IF Len(a) # Len(b) THEN (IF Len(a) < Len(b) THEN -1 ELSE 1)
    ELSE LET diff == {i \in 1..Len(a) : a[i] # b[i]} IN
         IF diff = {} THEN 0
         ELSE LET top == CHOOSE i \in diff : \A j \in diff : j <= i IN
              IF a[top] < b[top] THEN -1 ELSE 1
Leq(a, b) == Cmp(a, b) <= 0
Lt(a, b) == Cmp(a, b) < 0

\* a - b for a >= b
Sub(a, b) ==
    LET n == Len(a)
        br[i \in 0..n] == IF i = 0 THEN 0 ELSE (IF Limb(a, i) - Limb(b, i) - br[i - 1] < 0 THEN 1 ELSE 0)
    IN  Norm([i \in 1..n |-> LET x == Limb(a, i) - Limb(b, i) - br[i - 1] IN IF x < 0 THEN x + BASE ELSE x])

\* a * m for 0 <= m <= BASE
MulSmall(a, m) ==
    LET n == Len(a)
        c[i \in 0..n] == IF i = 0 THEN 0 ELSE (a[i] * m + c[i - 1]) \div BASE
    IN  Norm([i \in 1..(n + 2) |-> IF i <= n THEN (a[i] * m + c[i - 1]) % BASE
                                   ELSE IF i = n + 1 THEN c[n] % BASE ELSE c[n] \div BASE])

\* a div m, a mod m for 1 <= m <= BASE (long division from the top limb)
DivRem(a, m) ==
    LET n == Len(a)
        rem[j \in 0..n] == IF j = 0 THEN 0 ELSE (rem[j - 1] * BASE + a[n - j + 1]) % m
    IN  [q |-> Norm([i \in 1..n |-> (rem[n - i] * BASE + a[i]) \div m]), r |-> rem[n]]
DivSmall(a, m) == DivRem(a, m).q
ModSmall(a, m) == DivRem(a, m).r

\* a * BASE^k, a div BASE^k, a mod BASE^k
ShiftL(a, k) == IF Len(a) = 0 THEN <<>> ELSE [i \in 1..k |-> 0] \o a
DropL(a, k) == IF Len(a) <= k THEN <<>> ELSE SubSeq(a, k + 1, Len(a))
LowL(a, k) == Norm(SubSeq(a, 1, BMin(k, Len(a))))
=============================================================================
