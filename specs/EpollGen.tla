------------------------------ MODULE EpollGen ------------------------------
(* X01 generator: random walks (tlc -simulate) through Epoll.tla with a history variable;    *)
(* every walk of length Depth is printed as one operation sequence for                       *)
(* harness/src/bin/epollops.rs.  Besides the actions of Epoll.tla the walks contain the      *)
(* operations that do not change the model state: registrations that must fail (EEXIST,      *)
(* ENOENT, EBADF, EPERM), waits interrupted by a signal, the over-long timeout of the        *)
(* EpollDriver, and ppoll calls over the same objects.                                       *)
EXTENDS Epoll, TLC, Json, SequencesExt
CONSTANTS Depth, Timeouts, PollMasks
VARIABLE hist
gvars == <<obj, interest, hist>>

Log(r) == hist' = Append(hist, r)
S2Q(S) == SetToSeq(S)

GInit == Init /\ hist = <<>>

\* a wait "for ever" is only generated when a level-triggered, not one-shot entry is ready
\* (whatever earlier waits reported, it comes back at once)
SurelyReady == \E o \in Objs : Registered(o) /\ interest[o].mask \cap Flags = {} /\ Req(o, interest[o].mask) # {}

\* TLC's simulator picks uniformly among the successor states, so the number of variants of an
\* operation is its weight: masks, poll sets and generations are derived from the position in
\* the walk (varied but not multiplying the successors), waits come in |Timeouts| x 3 variants.
N == Len(hist)
MaskSeq == SetToSeq(Masks)
PickMask(o) == MaskSeq[((N * 7 + o * 3) % Len(MaskSeq)) + 1]
PollSeq == SetToSeq(PollMasks)
PickPoll == PollSeq[(N % Len(PollSeq)) + 1]
ObjSeq == SetToSeq(Objs)
PickObjs == {ObjSeq[k] : k \in {j \in 1..Len(ObjSeq) : ((N \div j) + j) % 2 = 0 /\ ~obj[ObjSeq[j]].closed}}
Gen(o) == (N + o) % 2
Rep(max) == LET must == {o \in Objs : MustReport(o)}
            IN  IF Cardinality(must) <= max THEN must
                ELSE CHOOSE R \in SUBSET must : Cardinality(R) = max

GNext ==
    \/ \E o \in Objs :
          \/ Register(o, Gen(o), PickMask(o)) /\ Log([op |-> "register", o |-> o, data |-> DataOf(o, Gen(o)), mask |-> S2Q(PickMask(o))])
          \/ Modify(o, Gen(o), PickMask(o)) /\ Log([op |-> "modify", o |-> o, data |-> DataOf(o, Gen(o)), mask |-> S2Q(PickMask(o))])
          \/ RegisterTwice(o) /\ N % 3 = 0 /\ Log([op |-> "register", o |-> o, data |-> DataOf(o, Gen(o)) + 5, mask |-> S2Q(PickMask(o))])
          \/ ModifyUnknown(o) /\ N % 3 = 1 /\ Log([op |-> "modify", o |-> o, data |-> DataOf(o, Gen(o)), mask |-> S2Q(PickMask(o))])
          \/ Unregister(o) /\ N % 2 = 0 /\ Log([op |-> "unregister", o |-> o])
          \/ UnregisterUnknown(o) /\ N % 3 = 2 /\ Log([op |-> "unregister", o |-> o])
          \/ \E w \in 1..2 : PeerWrite(o) /\ Log([op |-> "peer_write", o |-> o, w |-> w])      \* (w: weight only)
          \/ \E w \in 1..3 : ReadOne(o) /\ Log([op |-> "read_one", o |-> o, w |-> w])
          \/ \E w \in 1..2 : ReadAll(o) /\ Log([op |-> "read_all", o |-> o, w |-> w])
          \/ Fill(o) /\ Log([op |-> "fill", o |-> o])
          \/ PeerDrain(o) /\ Log([op |-> "peer_drain", o |-> o])
          \/ ClosePeer(o) /\ N % 4 = 3 /\ Log([op |-> "close_peer", o |-> o])
          \/ CloseWatched(o) /\ N % 5 = 4 /\ Log([op |-> "close_watched", o |-> o])
          \/ CtlOnClosed(o) /\ Log([op |-> IF N % 3 = 0 THEN "register" ELSE IF N % 3 = 1 THEN "modify" ELSE "unregister",
                                     o |-> o, data |-> DataOf(o, Gen(o)), mask |-> S2Q(PickMask(o))])
    \/ \E max \in 1..3, to \in Timeouts :
          /\ (to = -1 => SurelyReady)
          /\ Wait(max, Rep(max)) /\ Log([op |-> "wait", max |-> max, timeout |-> to])
    \/ Wait(2, Rep(2)) /\ Log([op |-> "wait_intr", max |-> 2, timeout |-> 250, after |-> 30])
    \/ \E w \in {"closed_fd", "file"} : N % 5 = 0 /\ UNCHANGED vars /\ Log([op |-> "register_bad", what |-> w])
    \/ N % 7 = 0 /\ UNCHANGED vars /\ Log([op |-> "wait_huge", max |-> 1])
    \/ /\ N % 4 = 1 /\ PickObjs # {} /\ UNCHANGED vars
       /\ Log([op |-> "poll_reuse", timeout |-> 20,
               entries |-> [k \in 1..Cardinality(PickObjs) |-> [o |-> S2Q(PickObjs)[k], ev |-> S2Q(PickPoll)]]])
    \/ \E to \in Timeouts, bad \in BOOLEAN :
          LET S == PickObjs
              pm == PickPoll
              ents == [k \in 1..Cardinality(S) |-> [o |-> S2Q(S)[k], ev |-> S2Q(pm)]]
                      \o (IF bad THEN <<[ev |-> S2Q(pm)]>> ELSE <<>>)
          IN  /\ S # {} \/ bad
              /\ (to = -1 => \E o \in S : ReqEv(obj[o], obj[o].kind, pm) # {})
              /\ UNCHANGED vars
              /\ IF to > 0 /\ N % 3 = 0
                 THEN Log([op |-> "poll_intr", entries |-> ents, timeout |-> 250, after |-> 30])
                 ELSE Log([op |-> "poll", entries |-> ents, timeout |-> to])

GSpec == GInit /\ [][GNext]_gvars
Emit == Len(hist) = Depth => PrintT(<<"SEQ", ToJson(hist)>>)
Bound == Len(hist) <= Depth
=============================================================================
