---------------------------- MODULE TimeArithApa ----------------------------
(***************************************************************************)
(* C19 for Apalache (symbolic, unbounded integers): the same definition    *)
(* (exact total nanoseconds) and the same transcription of time.rs as      *)
(* TimeArith.tla / TimeArithCode.tla, flattened to first-order, uniformly  *)
(* typed operators on integers (Apalache cannot unify [some |-> FALSE]     *)
(* with [some, s, ns] and has no operator-valued constants).               *)
(*   apalache-mc check --cinit=ConstInit --length=0 --inv=AllInv           *)
(*                     TimeArithApaReal.tla   (real constants live there:  *)
(*                     TLC cannot even parse 2^63)                          *)
(* checks AllInv for ALL initial states, i.e. for all 64-bit inputs, with  *)
(* the real constants.  TimeArithTie.tla lets TLC check on the scaled      *)
(* domain that these flattened operators coincide with TimeArithCode's.    *)
(* Results: <<k, s, ns>> with k = 0 None, 1 Some(s, ns), 2 panic.          *)
(***************************************************************************)
EXTENDS Integers

CONSTANTS
    \* @type: Int;
    NPS,
    \* @type: Int;
    SMAX,
    \* @type: Int;
    DMAX,
    \* @type: Int;
    U32MAX

SMIN == -SMAX - 1

\* @type: (Int) => Bool;
I64(x) == x >= SMIN /\ x <= SMAX
\* @type: (Int) => Bool;
U64(x) == x >= 0 /\ x <= DMAX

\* @type: <<Int, Int, Int>>;
NoneR == <<0, 0, 0>>
\* @type: (Int, Int) => <<Int, Int, Int>>;
SomeR(s, ns) == <<1, s, ns>>
\* @type: <<Int, Int, Int>>;
PanicR == <<2, 0, 0>>

(* definition: exact total nanoseconds *)
\* @type: (Int, Int) => <<Int, Int, Int>>;
SplitR(r, maxs) == IF r \div NPS <= maxs THEN SomeR(r \div NPS, r % NPS) ELSE NoneR
\* @type: (Int, Int, Int, Int) => <<Int, Int, Int>>;
DefAdd(ts, tn, ds, dn) == SplitR((ts * NPS + tn) + (ds * NPS + dn), SMAX)
\* @type: (Int, Int, Int, Int) => <<Int, Int, Int>>;
DefSub(ts, tn, ds, dn) ==
    IF ds * NPS + dn <= ts * NPS + tn THEN SplitR((ts * NPS + tn) - (ds * NPS + dn), SMAX) ELSE NoneR
\* @type: (Int, Int, Int, Int) => <<Int, Int, Int>>;
DefDiff(as, an, bs, bn) ==
    IF bs * NPS + bn <= as * NPS + an THEN SplitR((as * NPS + an) - (bs * NPS + bn), DMAX) ELSE NoneR

(* transcription of tiny-std/src/time.rs, as in TimeArithCode.tla *)
\* @type: (Int, Int, Int, Int) => <<Int, Int, Int>>;
CodeAdd(ts, tn, ds, dn) ==
    LET n1 == tn + dn IN
    IF ~I64(n1) THEN NoneR ELSE
    LET carry == n1 >= NPS
        n2 == IF carry THEN n1 - NPS ELSE n1
        secs == IF carry THEN ds + 1 ELSE ds
    IN  IF ~I64(n2) THEN PanicR
        ELSE IF ~U64(secs) THEN NoneR
        ELSE IF secs > SMAX THEN NoneR
        ELSE IF ~I64(ts + secs) THEN NoneR
        ELSE SomeR(ts + secs, n2)
\* @type: (Int, Int, Int, Int) => <<Int, Int, Int>>;
CodeSub(ts, tn, ds, dn) ==
    LET n1 == tn - dn IN
    IF ~I64(n1) THEN NoneR ELSE
    LET borrow == n1 < 0
        n2 == IF borrow THEN n1 + NPS ELSE n1
        secs == IF borrow THEN ds + 1 ELSE ds
    IN  IF ~I64(n2) THEN PanicR
        ELSE IF ~U64(secs) THEN NoneR
        ELSE IF secs > SMAX THEN NoneR
        ELSE IF ~I64(ts - secs) THEN NoneR
        ELSE IF ts - secs >= 0 THEN SomeR(ts - secs, n2) ELSE NoneR
\* @type: (Int, Int, Int, Int) => <<Int, Int, Int>>;
CodeDiff(ls, ln, rs, rn) ==
    LET n1 == ln - rn IN
    IF ~I64(n1) THEN NoneR ELSE
    LET borrow == n1 < 0
        n2 == IF borrow THEN n1 + NPS ELSE n1
        sub == IF borrow THEN 1 ELSE 0
        s1 == ls - rs
    IN  IF ~I64(n2) THEN PanicR
        ELSE IF ~I64(s1) THEN NoneR
        ELSE IF ~I64(s1 - sub) THEN NoneR
        ELSE IF s1 - sub < 0 THEN NoneR
        ELSE IF n2 < 0 \/ n2 > U32MAX THEN NoneR
        ELSE SomeR(s1 - sub, n2)
\* @type: (Int, Int, Int, Int) => Bool;
CodeLeq(as, an, bs, bn) == as < bs \/ (as = bs /\ an <= bn)

VARIABLES
    \* @type: Int;
    ts,
    \* @type: Int;
    tn,
    \* @type: Int;
    us,
    \* @type: Int;
    un,
    \* @type: Int;
    ds,
    \* @type: Int;
    dn

Init == /\ ts \in SMIN..SMAX /\ tn \in 0..(NPS - 1)
        /\ us \in SMIN..SMAX /\ un \in 0..(NPS - 1)
        /\ ds \in 0..DMAX /\ dn \in 0..(NPS - 1)
Next == UNCHANGED <<ts, tn, us, un, ds, dn>>

Exact ==
    /\ ts >= 0 => /\ CodeAdd(ts, tn, ds, dn) = DefAdd(ts, tn, ds, dn)
                  /\ CodeSub(ts, tn, ds, dn) = DefSub(ts, tn, ds, dn)
    /\ (ts >= 0 /\ us >= 0) => /\ CodeDiff(ts, tn, us, un) = DefDiff(ts, tn, us, un)
                               /\ CodeLeq(ts, tn, us, un) = (ts * NPS + tn <= us * NPS + un)
NoPanic ==
    /\ CodeAdd(ts, tn, ds, dn)[1] # 2 /\ CodeSub(ts, tn, ds, dn)[1] # 2
    /\ CodeDiff(ts, tn, us, un)[1] # 2
\* (t+d)-d = t, (t+d)-t = d, order <=> sign of the difference, on the code
Laws ==
    /\ (ts >= 0 /\ CodeAdd(ts, tn, ds, dn)[1] = 1) =>
          LET r == CodeAdd(ts, tn, ds, dn) IN
          /\ CodeSub(r[2], r[3], ds, dn) = SomeR(ts, tn)
          /\ CodeDiff(r[2], r[3], ts, tn) = SomeR(ds, dn)
    /\ (ts >= 0 /\ us >= 0) => ((CodeDiff(ts, tn, us, un)[1] = 1) <=> CodeLeq(us, un, ts, tn))
AllInv == Exact /\ NoPanic /\ Laws
=============================================================================
