------------------------------ MODULE MemRuns ------------------------------
(* Run-length descriptions of a tagged arena and the two ways of judging them against       *)
(* Mem.tla (shared by MemJudge and MemRunLemma).                                            *)
(* The arena initially holds position tags Tag(i) = (i % PERIOD) + 1.  A run                *)
(* <<start, len, 0, off>> says "cell i holds Tag(i+off)" for its cells, <<start, len, 1, v>>*)
(* says "cell i holds v".  CellJudge decodes the runs into a memory function and compares   *)
(* it with Memmove/Memset cell by cell; RunJudge takes the same decision on the runs        *)
(* (needed for arenas of megabytes).  MemRunLemma.tla lets TLC check CellJudge = RunJudge   *)
(* for every run list and call on a scaled-down arena and period.                           *)
EXTENDS Mem
CONSTANTS PERIOD
Tag(i) == (i % PERIOD) + 1
TagMem(L) == [i \in 0..L-1 |-> Tag(i)]
Max2(a, b) == IF a > b THEN a ELSE b
Min2(a, b) == IF a < b THEN a ELSE b

\* runs are consecutive, non-empty, and cover 0..L-1 exactly; tag runs stay inside the arena
RunsCover(runs, L) ==
    /\ Len(runs) >= 1
    /\ runs[1][1] = 0
    /\ \A k \in 1..Len(runs) :
          /\ runs[k][2] >= 1
          /\ runs[k][3] \in {0, 1}
          /\ runs[k][3] = 0 => runs[k][1] + runs[k][4] >= 0 /\ runs[k][1] + runs[k][2] + runs[k][4] <= L
          /\ runs[k][3] = 1 => runs[k][4] \in 0..255
    /\ \A k \in 1..Len(runs)-1 : runs[k+1][1] = runs[k][1] + runs[k][2]
    /\ runs[Len(runs)][1] + runs[Len(runs)][2] = L

RunOf(runs, i) == CHOOSE k \in 1..Len(runs) : runs[k][1] <= i /\ i < runs[k][1] + runs[k][2]
Decode(runs, L) ==
    [i \in 0..L-1 |-> LET r == runs[RunOf(runs, i)] IN IF r[3] = 0 THEN Tag(i + r[4]) ELSE r[4]]

InArena(r) == r.n >= 0 /\ r.d >= 0 /\ r.d + r.n <= r.L
IsCopy(r) == r.f \in {"memcpy", "memmove"}
Pre(r) ==  \* the call is inside the property's quantifier
    /\ InArena(r)
    /\ IsCopy(r) => r.s >= 0 /\ r.s + r.n <= r.L
    /\ r.f = "memcpy" => Disjoint(r.d, r.s, r.n)

Expected(r) == IF IsCopy(r) THEN Memmove(TagMem(r.L), r.d, r.s, r.n)
                            ELSE Memset(TagMem(r.L), r.d, r.c, r.n)
CellJudge(r) == RunsCover(r.runs, r.L) /\ Decode(r.runs, r.L) = Expected(r)

\* ---- the same decision taken on the runs --------------------------------------------------
\* a piece of the expected memory: cells [lo,hi) all hold Tag(i+ev) (ek = 0) or all hold ev (ek = 1)
PieceOK(run, lo, hi, ek, ev) ==
    LET a == Max2(run[1], lo)
        b == Min2(run[1] + run[2], hi)
    IN  \/ a >= b
        \/ /\ a < b
           /\ CASE run[3] = 0 /\ ek = 0 -> (run[4] - ev) % PERIOD = 0
                [] run[3] = 1 /\ ek = 1 -> run[4] = ev
                [] run[3] = 0 /\ ek = 1 -> b = a + 1 /\ Tag(a + run[4]) = ev
                [] run[3] = 1 /\ ek = 0 -> b = a + 1 /\ run[4] = Tag(a + ev)
RunJudge(r) ==
    /\ RunsCover(r.runs, r.L)
    /\ \A k \in 1..Len(r.runs) :
          /\ PieceOK(r.runs[k], 0, r.d, 0, 0)
          /\ IF IsCopy(r) THEN PieceOK(r.runs[k], r.d, r.d + r.n, 0, r.s - r.d)
                          ELSE PieceOK(r.runs[k], r.d, r.d + r.n, 1, AsByte(r.c))
          /\ PieceOK(r.runs[k], r.d + r.n, r.L, 0, 0)

=============================================================================
