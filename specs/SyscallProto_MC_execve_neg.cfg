CONSTANTS
  RawDom <- Dom
  Idiom = "execve_neg"
  MaxIssues = 3
SPECIFICATION Spec
INVARIANTS TypeOK ReturnConforms LimitConforms
CHECK_DEADLOCK FALSE
