----------------------------- MODULE FsTreeFanout -----------------------------
(* C14 scale cases: one directory with n entries (n up to thousands, names up to 255 bytes,  *)
(* files / directories / links / fifos), listed by tiny_std's ReadDir (512-byte getdents      *)
(* window) and then removed by remove_dir_all.  Judged by FsTree's ListingOk: every child     *)
(* exactly once with its exact name and type, "."/".." allowed extra.  Directories with more  *)
(* than 200 entries are judged on summaries of the two listings (count, number of distinct    *)
(* entries, digest of the sorted listing, type histogram) computed by the recorder.           *)
(* After remove_dir_all: Ok, the directory is gone, the sibling `outside` (target of the      *)
(* links) is intact.                                                                          *)
EXTENDS FsTree, Json, IOUtils, SequencesExt
Rec == ndJsonDeserialize(IOEnv.TRACE)

FullOk(r) == ListingOk(r.listed, {r.children[j] : j \in 1..Len(r.children)})
SummaryOk(r) == /\ r.listed.count = r.children.count
                /\ r.listed.distinct = r.listed.count
                /\ r.listed.digest = r.children.digest
                /\ r.listed.d = r.children.d /\ r.listed.f = r.children.f
                /\ r.listed.l = r.children.l /\ r.listed.p = r.children.p
                /\ r.dots <= 2
Judge(r) == /\ r.lclass = "ok"
            /\ IF r.mode = "full" THEN FullOk(r) ELSE SummaryOk(r)
            /\ r.rmclass = "ok" /\ r.left = <<"outside">> /\ r.outside_ok
Bad == {k \in 1..Len(Rec) : ~Judge(Rec[k])}
ASSUME PrintT(<<"JUDGED", ToJson([n |-> Len(Rec), bad |-> SetToSeq(Bad)])>>)
VARIABLE x
Init == x = 0
Next == UNCHANGED x
=============================================================================
