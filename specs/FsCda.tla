-------------------------------- MODULE FsCda --------------------------------
(* C14, algorithm level: a transcription of tiny_std::fs::create_dir_all /                  *)
(* write_all_sub_paths (tiny-std/src/fs.rs) as a state machine over the characters of the   *)
(* path, one action per scan step / mkdir system call, checked by TLC against the            *)
(* property-level post-condition of FsTree (Accept) for ALL path strings over Alpha up to    *)
(* MaxLen characters (so: relative/absolute, 1..4 components, repeated and trailing          *)
(* separators) and ALL existence patterns of the path's own prefixes (k leading components   *)
(* exist as directories, the next one is absent | a file | a link to a directory | a         *)
(* dangling link | a unix socket).                                                          *)
(*                                                                                           *)
(* Algo = "pinned": the algorithm of the pinned snapshot (backward scan; `EEXIST => return   *)
(*   Ok`; loop exhaustion => Ok; paths longer than the 512-byte stack buffer go through a    *)
(*   Vec::with_capacity whose slice is EMPTY).  TLC finds the counterexamples; the check     *)
(*   confirms them on the real code before anything is reported.                             *)
(* Algo = "fixed": the algorithm after the `fix:` commits (backward scan stops at the        *)
(*   deepest prefix that exists or can be created, forward mkdirs tolerate EEXIST, the leaf  *)
(*   is always created and an existing leaf must be a directory).                            *)
(* BufMax is the stack-buffer size scaled down (512 in the code).                            *)
EXTENDS FsTree, Json, SequencesExt
CONSTANTS Alpha, MaxLen, BufMax, Algo
VARIABLES raw, tree0, tree, pc, it, ind, i, res
vars == <<raw, tree0, tree, pc, it, ind, i, res>>

\* ---- characters -> segments ('/'-separated, characters of a segment concatenated)
RECURSIVE SegsFrom(_, _, _)
SegsFrom(cs, k, cur) ==
    IF k > Len(cs) THEN <<cur>>
    ELSE IF cs[k] = "/" THEN <<cur>> \o SegsFrom(cs, k + 1, "")
    ELSE SegsFrom(cs, k + 1, cur \o cs[k])
Segs(cs) == SegsFrom(cs, 1, "")
Prefix(k) == SubSeq(raw, 1, k)

\* ---- initial states: every string, every existence pattern of its own prefixes
Strings == UNION {[1..k -> Alpha] : k \in 1..MaxLen}
Chain(comps, k, blocker) ==          \* k leading components are directories, then the blocker
    LET dirs == [p \in {SubSeq(comps, 1, j) : j \in 0..k} |-> Dir]
        next == SubSeq(comps, 1, k + 1)
    IN CASE blocker = "none"     -> dirs
         [] blocker = "file"     -> Put(dirs, next, File(Small(<<1>>)))
         [] blocker = "linkdir"  -> Put(Put(dirs, next, Link([j \in 1..k |-> ".."] \o <<"zd">>)), <<"zd">>, Dir)
         [] blocker = "dangling" -> Put(dirs, next, Link(<<"zz">>))
         [] blocker = "sock"     -> Put(dirs, next, Sock)
Init ==
    /\ raw \in Strings
    /\ \A j \in 1..Len(Segs(raw)) : Segs(raw)[j] # ".."          \* never above the private root
    /\ \E k \in 0..Len(Comps(Segs(raw))), blocker \in {"none", "file", "linkdir", "dangling", "sock"} :
          /\ blocker # "none" => k < Len(Comps(Segs(raw)))
          /\ tree0 = Chain(Comps(Segs(raw)), k, blocker)
    /\ tree = tree0 /\ pc = "start" /\ it = 1 /\ ind = 0 /\ i = 0 /\ res = "none"

Finish(r) == pc' = "done" /\ res' = r
MkdirAt(k) == Mkdir(tree, Segs(Prefix(k)))
IsDirNow(t) == LET w == Resolve(t, Segs(raw), TRUE) IN w.r = "node" /\ t[w.p].k = "d"
L == Len(raw)

\* ------------------------------------------------------------------ the pinned algorithm
PStart == /\ pc = "start" /\ Algo = "pinned"
          /\ IF L > BufMax THEN Finish("panic") /\ UNCHANGED <<it, ind, i, tree>>   \* empty slice: len - it underflows
             ELSE pc' = "scan" /\ UNCHANGED <<it, ind, i, tree, res>>
PScan == /\ pc = "scan" /\ Algo = "pinned"
         /\ LET nd == L - it IN        \* 0-based index into buf
            IF nd = 0 THEN Finish("ok") /\ UNCHANGED <<it, ind, i, tree>>          \* `break` => Ok(())
            ELSE IF raw[nd + 1] # "/" THEN it' = it + 1 /\ UNCHANGED <<pc, ind, i, tree, res>>
            ELSE LET m == MkdirAt(nd) IN   \* buf[..nd] with the slash swapped for NUL
                 CASE m.e = "ok"     -> tree' = m.t /\ ind' = nd /\ i' = nd + 1 /\ pc' = "fwd" /\ UNCHANGED <<it, res>>
                   [] m.e = "ENOENT" -> it' = it + 1 /\ UNCHANGED <<pc, ind, i, tree, res>>
                   [] m.e = "EEXIST" -> Finish("ok") /\ UNCHANGED <<it, ind, i, tree>>
                   [] OTHER          -> Finish("err") /\ UNCHANGED <<it, ind, i, tree>>
PFwd == /\ pc = "fwd" /\ Algo = "pinned"
        /\ IF i >= L THEN pc' = "last" /\ UNCHANGED <<it, ind, i, tree, res>>
           ELSE IF raw[i + 1] # "/" THEN i' = i + 1 /\ UNCHANGED <<pc, it, ind, tree, res>>
           ELSE LET m == MkdirAt(i) IN
                IF m.e = "ok" THEN tree' = m.t /\ i' = i + 1 /\ UNCHANGED <<pc, it, ind, res>>
                ELSE Finish("err") /\ UNCHANGED <<it, ind, i, tree>>
PLast == /\ pc = "last" /\ Algo = "pinned"
         /\ IF raw[L] = "/" THEN Finish("ok") /\ UNCHANGED <<it, ind, i, tree>>
            ELSE LET m == MkdirAt(L) IN
                 IF m.e = "ok" THEN tree' = m.t /\ Finish("ok") /\ UNCHANGED <<it, ind, i>>
                 ELSE Finish("err") /\ UNCHANGED <<it, ind, i, tree>>

\* ------------------------------------------------------------------ the fixed algorithm
FStart == /\ pc = "start" /\ Algo = "fixed"
          /\ ind' = L - 1 /\ pc' = "back" /\ UNCHANGED <<it, i, tree, res>>
FBack == /\ pc = "back" /\ Algo = "fixed"
         /\ IF ind = 0 THEN pc' = "fwd" /\ i' = 1 /\ UNCHANGED <<it, ind, tree, res>>
            ELSE IF raw[ind + 1] # "/" THEN ind' = ind - 1 /\ UNCHANGED <<pc, it, i, tree, res>>
            ELSE LET m == MkdirAt(ind) IN
                 CASE m.e \in {"ok", "EEXIST"} -> tree' = m.t /\ i' = ind + 1 /\ pc' = "fwd" /\ UNCHANGED <<it, ind, res>>
                   [] m.e = "ENOENT"           -> ind' = ind - 1 /\ UNCHANGED <<pc, it, i, tree, res>>
                   [] OTHER                    -> Finish("err") /\ UNCHANGED <<it, ind, i, tree>>
FFwd == /\ pc = "fwd" /\ Algo = "fixed"
        /\ IF i >= L THEN pc' = "last" /\ UNCHANGED <<it, ind, i, tree, res>>
           ELSE IF raw[i + 1] # "/" THEN i' = i + 1 /\ UNCHANGED <<pc, it, ind, tree, res>>
           ELSE LET m == MkdirAt(i) IN
                IF m.e \in {"ok", "EEXIST"} THEN tree' = m.t /\ i' = i + 1 /\ UNCHANGED <<pc, it, ind, res>>
                ELSE Finish("err") /\ UNCHANGED <<it, ind, i, tree>>
FLast == /\ pc = "last" /\ Algo = "fixed"
         /\ LET m == MkdirAt(L) IN
            CASE m.e = "ok"     -> tree' = m.t /\ Finish("ok") /\ UNCHANGED <<it, ind, i>>
              [] m.e = "EEXIST" -> Finish(IF IsDirNow(tree) THEN "ok" ELSE "err") /\ UNCHANGED <<it, ind, i, tree>>
              [] OTHER          -> Finish("err") /\ UNCHANGED <<it, ind, i, tree>>

Next == /\ (PStart \/ PScan \/ PFwd \/ PLast \/ FStart \/ FBack \/ FFwd \/ FLast)
        /\ UNCHANGED <<raw, tree0>>

\* ------------------------------------------------------------------ properties
TheOp == [op |-> "create_dir_all", p |-> Segs(raw), q |-> <<>>, c |-> Empty]
PostCondition == pc = "done" => Accept(tree0, TheOp, [class |-> res, v |-> <<>>], tree)
NeverPanics   == res # "panic"
\* every pre-existing node is untouched at every step, not only at the end
Untouched     == \A p \in DOMAIN tree0 : p \in DOMAIN tree /\ tree[p] = tree0[p]
\* conformance vectors: what the transcription predicts for each initial state
TreeList(t) == SetToSeq({[p |-> q, n |-> t[q]] : q \in DOMAIN t})
Emit == pc = "done" =>
          PrintT(<<"V", ToJson([raw |-> raw, tree |-> TreeList(tree0), res |-> res, after |-> TreeList(tree),
                                post |-> Accept(tree0, TheOp, [class |-> res, v |-> <<>>], tree)])>>)
=============================================================================
