CONSTANTS
  Sigs = {"TERM", "CHLD"}
  Hids = {1, 2}
  Threads = {0, 1}
  MaxRaise = 3
  SelfBlock = TRUE
SPECIFICATION Spec
INVARIANTS ProbeBlockedPending
CHECK_DEADLOCK FALSE
