CONSTANTS
  Objs = {1, 2}
  Kind <- K2
  MaxRx = 2
  Masks <- MasksQ
  DataOf <- Data
SPECIFICATION Spec
INVARIANTS ProbeEdgeNo
CHECK_DEADLOCK FALSE
