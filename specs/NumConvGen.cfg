CONSTANT NOut = 8
INIT Init
NEXT Next
INVARIANTS Closed PrngTranscription Emit
