CONSTANTS
  N = 4
  Progs <- P4b
  Ord <- OrdCode
  MaxSpur = 1
  MaxEintr = 0
SPECIFICATION Spec
INVARIANTS TypeOK MutualExclusion RaceFree TryLockHonest TryNeverBlocks NoLostWakeup WordAgrees Progress
PROPERTY Termination
CHECK_DEADLOCK FALSE
