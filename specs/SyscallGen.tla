----------------------------- MODULE SyscallGen -----------------------------
(* C09 plan generator: TLC enumerates the fault-plan space                                   *)
(*     (result kind, retry discipline) x (sequence of forced kernel answers)                 *)
(* as initial states and prints one JSON vector per plan: the answers to force, the issue    *)
(* counts after which a conforming wrapper may return and what it must return then.          *)
(* lib/checks/c09.py crosses the plans with the wrapper table (every wrapper of that kind /  *)
(* discipline), forces the answers into the real wrappers with tools/sysinj and sends the    *)
(* recorded invocations to SyscallJudge.                                                     *)
EXTENDS Syscall, TLC, Json, SequencesExt
CONSTANTS Errnos,     \* errno values forced as -e
          Succ,       \* small success values forced as +n
          Combos      \* set of strings "<kind>:<retry>" present in the wrapper table
VARIABLES kind, retry, plan

Odd == {Neg(4096), Neg(4097), Neg(65536), Neg(2147483647),
        Big("80000000"), Big("ffffffff"), Big("100000005"), Big("7fffffffffffffff"),
        Big("8000000000000000"), Big("ffffffff7fffffff")}
AllRaws == {Neg(e) : e \in Errnos} \cup {Pos(n) : n \in Succ} \cup Odd

\* a wrapper whose success never returns (execve) is only ever answered with errors
RawsFor(k) == IF k = "noreturn" THEN {Neg(e) : e \in Errnos} ELSE AllRaws

Plans(k, r) ==
    {<<v>> : v \in RawsFor(k)} \cup
    (IF r = "ebusy"
     THEN {<<Neg(EBUSY), v>> : v \in RawsFor(k) \ {Neg(EBUSY)}} \cup
          {<<Neg(EBUSY), Neg(EBUSY), v>> : v \in RawsFor(k) \ {Neg(EBUSY)}}
     ELSE {})

Init == /\ kind \in Kinds
        /\ retry \in {"none", "ebusy"}
        /\ (kind \o ":" \o retry) \in Combos
        /\ plan \in Plans(kind, retry)
Next == UNCHANGED <<kind, retry, plan>>

\* what a conforming wrapper returns when it stops after answer i
Expect(i) ==
    LET raw == plan[i]
    IN  IF IsErr(raw)
        THEN IF kind \in {"nofail", "void"} THEN [tag |-> "any"] ELSE [tag |-> "err", code |-> raw[2]]
        ELSE CASE kind \in {"noreturn", "void"} -> [tag |-> "any"]
               [] kind = "unit" -> [tag |-> "unit"]
               [] OTHER -> [tag |-> "val", v |-> raw, exact |-> Fits(kind, raw)]

Stops == {i \in 1..Len(plan) : MayStopAt(retry, plan, i)}
Vec == [kind |-> kind, retry |-> retry, raws |-> plan,
        stops |-> SetToSeq(Stops),
        expect |-> [i \in 1..Len(plan) |-> IF i \in Stops THEN Expect(i) ELSE [tag |-> "never"]],
        maylimit |-> \A j \in 1..Len(plan) : Retryable(retry, plan[j])]
Emit == PrintT(<<"P", ToJson(Vec)>>)

\* consistency of generator and judge inside the specification: the expected result is admitted
SelfCheck == \A i \in Stops :
    LET e == Expect(i)
    IN  e.tag # "any" => Conforms(kind, retry, plan, i, "returned",
                                  IF e.tag = "val" THEN [tag |-> "val", v |-> e.v] ELSE e)
=============================================================================
