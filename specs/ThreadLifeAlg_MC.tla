--------------------------- MODULE ThreadLifeAlg_MC ---------------------------
EXTENDS ThreadLifeAlg
S(p) == [op |-> "spawn", p |-> p]
ProgJ   == <<S(1), [op |-> "join", p |-> 1]>>
ProgD   == <<S(1), [op |-> "drop", p |-> 1]>>
ProgK   == <<S(1)>>
FinR  == <<"ret">>
FinP  == <<"panic">>
NoThread == {}
AllThreads == 1..NT
Only1 == {1}
=============================================================================
