------------------------------ MODULE PtyName ------------------------------
(* X02 - tiny-std/src/unix/misc/openpty.rs: the slave name is formatted on the stack.       *)
(* DEFINITION: the slave of pty number n is "/dev/pts/<n in decimal>"; the 13-byte array    *)
(* holds that path followed by NULs.  TRANSCRIPTION: get_chars / create_pty_name with their *)
(* three-way case split and u8 arithmetic.  Numbers above u8::MAX are refused by the code  *)
(* ("Terminal number exceeded u8::MAX"): documented only by that message - an error or the *)
(* right slave are both admitted there.                                                    *)
EXTENDS Integers, Sequences, TLC
RECURSIVE Dec(_)
Dec(n) == IF n < 10 THEN <<48 + n>> ELSE Dec(n \div 10) \o <<48 + (n % 10)>>
Prefix == <<47,100,101,118,47,112,116,115,47>>                      \* /dev/pts/
PathOf(n) == Prefix \o Dec(n)
NameDef(n) == LET p == PathOf(n) IN p \o [i \in 1..(13 - Len(p)) |-> 0]
\* ---- as coded
GetChars(num) ==
    IF num < 10 THEN <<num + 48>>
    ELSE IF num < 100 THEN LET rem == num % 10  base == num \div 10 IN <<base + 48, rem + 48>>
    ELSE LET base == num \div 100
             nextbase == num - base * 100
             nb == nextbase \div 10
             rem == nextbase % 10
         IN <<base + 48, nb + 48, rem + 48>>
CreatePtyName(num) ==
    LET name == Prefix \o <<48, 0, 0, 0>>            \* *b"/dev/pts/0\0\0\0"
        ch == GetChars(num)
    IN [i \in 1..13 |-> IF i >= 10 /\ i < 10 + Len(ch) THEN ch[i - 9] ELSE name[i]]
UpToNul(a) == SubSeq(a, 1, (CHOOSE i \in 1..Len(a) : a[i] = 0 /\ \A j \in 1..(i - 1) : a[j] # 0) - 1)
\* what the k-th openpty(None, ..) of a fresh devpts instance may give (pty number k)
Expect(k) == IF k <= 255 THEN {[r |-> "ok", slave |-> PathOf(k)]}
             ELSE {[r |-> "ok", slave |-> PathOf(k)], [r |-> "err", slave |-> <<>>]}
=============================================================================
