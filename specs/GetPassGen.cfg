CONSTANTS
  MaxDrain = 2
INIT GInit
NEXT GNext
INVARIANT Emit
CHECK_DEADLOCK FALSE
