---------------------------- MODULE SyscallJudge ----------------------------
(* C09 judge (binding B2): reads the invocations recorded from the real rusl wrappers under   *)
(* tools/sysinj (ndjson, one per line: w, kind, retry, raws = the forced kernel answers       *)
(* actually delivered, issues = number of times the wrapper issued the call, ended, res =     *)
(* the Result the wrapper returned) and decides each against Syscall.tla's Conforms.          *)
EXTENDS SyscallIdioms, TLC, Json, IOUtils, SequencesExt
Rec == ndJsonDeserialize(IOEnv.TRACE)

Judge(r) == Conforms(r.kind, r.retry, r.raws, r.issues, r.ended, r.res)

Bad == {i \in 1..Len(Rec) : ~Judge(Rec[i])}
ASSUME PrintT(<<"JUDGED", ToJson([n |-> Len(Rec), bad |-> SetToSeq(Bad)])>>)

\* algorithm level: for every record, the (indices of the) idioms of SyscallIdioms that explain it
Explained == [i \in 1..Len(Rec) |->
                SetToSeq({k \in 1..Len(IdiomSeq) :
                    Explains(IdiomSeq[k], Rec[i].raws, Rec[i].issues, Rec[i].ended, Rec[i].res)})]
ASSUME IOEnv.EXPLAIN = "0" \/ PrintT(<<"IDIOMS", ToJson([names |-> IdiomSeq, of |-> Explained])>>)

VARIABLE x
Init == x = 0
Next == UNCHANGED x
=============================================================================
