----------------------------- MODULE SyncTrace -----------------------------
(* B2, property level: judge of executions recorded from the REAL tiny_std::sync::Mutex /   *)
(* RwLock under the controlled scheduler (harness/src/bin/sched.rs).  Properties C01, C02.  *)
(*                                                                                          *)
(* The judge knows nothing about the lock algorithms.  It interprets the machine events of  *)
(* a trace (ndjson, IOEnv.TRACE; many runs separated by "reset" events) with the generic    *)
(* semantics of Machine.tla and evaluates, at every event, what the property statements     *)
(* say:                                                                                     *)
(*   exclusion      a write/mutex guard excludes every other guard, read guards coexist     *)
(*                  only with read guards (guard = from the return of the acquiring call    *)
(*                  to the call of its drop);                                               *)
(*   race           every access through a guard happens-after all earlier conflicting      *)
(*                  accesses, computed from the orderings the code REALLY passed            *)
(*                  (= "everything the previous holder wrote is visible to the next");      *)
(*   try_dishonest  Mutex::try_lock returned None although the mutex was not held at any    *)
(*                  instant between call and return (held = guard exists or its drop is     *)
(*                  in progress: the widest reading, so nothing legal is rejected);         *)
(*   try_blocks     a FUTEX_WAIT inside try_lock / try_read / try_write;                    *)
(*   lost_wakeup    the run ended (nobody can take a step without the environment's help)   *)
(*                  with a thread parked in FUTEX_WAIT while all holders have released;     *)
(*   panic          a lock operation panicked instead of returning;                         *)
(*   unbounded_spin a blocking acquisition spins on the unchanged word without ever parking  *)
(*                  (starves the holder under a non-preempting scheduler);                   *)
(*   data_lost      get_mut / into_inner on the quiescent lock do not deliver the value the  *)
(*                  write accesses left.                                                     *)
(* Debug formatting of the lock hands out no guard: during the call the lock counts as      *)
(* possibly held; its read must not coincide with a foreign write guard and must be         *)
(* race-free; a try_lock / try_write on the quiescent lock after the run must succeed.      *)
(* Nothing else is a violation.  The first violation of each run is recorded; the verdicts  *)
(* are printed as one JSON value tagged JUDGED.                                             *)
EXTENDS Machine, TLC, Json, IOUtils

Rec == ndJsonDeserialize(IOEnv.TRACE)
T == 1..8
Locs == {"futex", "state", "notify", "other"}
AcqW == {"lock", "try_lock", "write", "try_write"}
AcqR == {"read", "try_read"}
Tries == {"try_lock", "try_read", "try_write"}
Blocking == {"lock", "read", "write"}
\* A blocking acquisition that re-reads the unchanged lock word SpinBound times in a row (n = number of
\* identical consecutive loads merged into one event; the instrument stops merging there) never
\* parks: under a scheduler that does not preempt the spinner (SCHED_FIFO, one CPU) the holder is
\* never run and the call never returns although the holder would release.  The code's own spin
\* budget is 100.
SpinBound == 4096

VARIABLES l, st, bad, nviol, nruns, ncut

Fresh(run) ==
    [ run |-> run, gw |-> {}, gr |-> {}, rel |-> {}, incall |-> [t \in T |-> "-"],
      saw |-> [t \in T |-> FALSE], parked |-> {}, knows |-> [t \in T |-> {}],
      pub |-> [x \in Locs |-> {}], lastW |-> 0, reads |-> {}, acc |-> 0, nw |-> 0, hit |-> "" ]

Flag(s, code) == IF s.hit = "" THEN [s EXCEPT !.hit = code] ELSE s
SeqSet(q) == {q[i] : i \in 1..Len(q)}

\* ---- one event
OnCall(s, e) ==
    LET t == e.t IN
    IF e.fn = "unlock"
    THEN [s EXCEPT !.gw = @ \ {t}, !.gr = @ \ {t}, !.rel = @ \cup {t}, !.incall[t] = "unlock"]
    ELSE IF e.fn = "debug"
    \* Debug formatting of the lock itself may take the lock for the duration of the call (it hands
    \* out no guard): from now until its return the lock counts as possibly held
    THEN [s EXCEPT !.rel = @ \cup {t}, !.incall[t] = "debug", !.saw = [u \in T |-> TRUE]]
    ELSE [s EXCEPT !.incall[t] = e.fn, !.saw[t] = (s.gw \cup s.gr \cup s.rel) # {}]

OnRet(s, e) ==
    LET t == e.t
        s1 == [s EXCEPT !.incall[t] = "-"] IN
    IF e.fn \in {"unlock", "debug"} THEN [s1 EXCEPT !.rel = @ \ {t}]
    ELSE IF e.fn \in AcqW /\ e.ok
    THEN LET s2 == [s1 EXCEPT !.gw = @ \cup {t}, !.saw = [u \in T |-> TRUE]] IN
         IF (s.gw \ {t}) # {} \/ s.gr # {} THEN Flag(s2, "exclusion") ELSE s2
    ELSE IF e.fn \in AcqR /\ e.ok
    THEN LET s2 == [s1 EXCEPT !.gr = @ \cup {t}, !.saw = [u \in T |-> TRUE]] IN
         IF s.gw # {} THEN Flag(s2, "exclusion") ELSE s2
    ELSE IF e.fn = "try_lock" /\ ~e.ok /\ ~s.saw[t] THEN Flag(s1, "try_dishonest")
    ELSE s1

OnRead(s, t, loc, o) == [s EXCEPT !.knows[t] = Import(@, o, s.pub[loc])]
OnRmw(s, t, loc, o) ==
    LET k == Import(s.knows[t], o, s.pub[loc]) IN
    [s EXCEPT !.knows[t] = k, !.pub[loc] = PubRmw(@, o, k)]
OnStore(s, t, loc, o) == [s EXCEPT !.pub[loc] = PubStore(o, s.knows[t])]

OnWait(s, e) ==
    LET s1 == IF e.res = "parked" THEN [s EXCEPT !.parked = @ \cup {e.t}] ELSE s IN
    IF s.incall[e.t] \in Tries THEN Flag(s1, "try_blocks") ELSE s1

OnData(s, e) ==
    LET t == e.t
        id == s.acc + 1 IN
    IF e.kind = "write"
    THEN LET s1 == [s EXCEPT !.acc = id, !.lastW = id, !.reads = {}, !.nw = @ + 1,
                             !.knows = [u \in T |-> IF u = t THEN {id} ELSE {}],
                             !.pub = [x \in Locs |-> {}]] IN
         IF t \notin s.gw THEN Flag(s1, "access_without_guard")
         ELSE IF WriteRaces(s.knows[t], s.lastW, s.reads) THEN Flag(s1, "race") ELSE s1
    ELSE LET s1 == [s EXCEPT !.acc = id, !.reads = @ \cup {id}, !.knows[t] = @ \cup {id}] IN
         \* a read made by Debug formatting of the lock (no guard is handed out): nobody else may
         \* hold a write guard at that instant, and it must happen-after the last write
         IF s.incall[t] = "debug"
         THEN IF (s.gw \ {t}) # {} THEN Flag(s1, "exclusion")
              ELSE IF ReadRaces(s.knows[t], s.lastW) THEN Flag(s1, "race") ELSE s1
         ELSE IF t \notin (s.gw \cup s.gr) THEN Flag(s1, "access_without_guard")
         ELSE IF ReadRaces(s.knows[t], s.lastW) THEN Flag(s1, "race") ELSE s1

OnEnd(s, e) ==
    IF e.cut THEN s
    ELSE IF Len(e.blocked) > 0 /\ s.gw = {} /\ s.gr = {} THEN Flag(s, "lost_wakeup")
    ELSE IF Len(e.blocked) > 0 THEN Flag(s, "deadlock_with_holder")
    ELSE s

\* after the run, on the quiescent lock with no guard outstanding: try_lock / try_write must
\* succeed (an operation that handed out no guard must not have left the lock taken), get_mut and
\* into_inner must deliver what the write accesses left
OnFinal(s, e) ==
    IF ~e.try_ok /\ s.gw = {} /\ s.gr = {} /\ s.rel = {} THEN Flag(s, "try_dishonest")
    ELSE IF e.get_mut # s.nw \/ e.into_inner # s.nw THEN Flag(s, "data_lost")
    ELSE s

\* ---- static (type-level) obligations: who may share a lock, a guard and therefore the payload.
\* One event per fact: did `is_send::<X>()` / `is_sync::<X>()` / a usage pattern compile against the
\* real crate.  The tables are the assumptions Mutex.tla / RwLock.tla make (their headers): a Mutex
\* serialises all accesses, so a payload that may be SENT may be shared through it; read guards of
\* an RwLock coexist in several threads, so the payload must be Sync; a guard must be dropped by the
\* thread that acquired it (never Send) and shares the payload by reference (Sync only if T is).
\* These are also std::sync's bounds (the check verifies each expectation against std as well).
MustCompile == { "mutex_cell_send", "mutex_cell_sync", "mutex_u32_send_sync", "mutexguard_u32_sync", "mutex_usage",
                 "mutex_shared_across_threads",
                 "rwlock_u32_send_sync", "rwlock_cell_send", "rwreadguard_u32_sync", "rwwriteguard_u32_sync",
                 "rwlock_usage", "rwlock_shared_across_threads" }
MustNotCompile == { "mutex_rc_sync", "mutex_rc_send", "mutexguard_cell_sync", "mutexguard_send",
                    "rwlock_cell_sync", "rwlock_rc_send", "rwlock_rc_sync", "rwreadguard_cell_sync", "rwwriteguard_cell_sync",
                    "rwreadguard_send", "rwwriteguard_send" }
OnObligation(s, e) ==
    IF e.fact \in MustNotCompile /\ e.compiles THEN Flag(s, "static_obligation_not_rejected")
    ELSE IF e.fact \in MustCompile /\ ~e.compiles THEN Flag(s, "static_obligation_not_met")
    ELSE IF e.fact \notin (MustCompile \cup MustNotCompile) THEN Flag(s, "static_obligation_unknown")
    ELSE s

Apply(s, e) ==
    CASE e.ev = "call"  -> OnCall(s, e)
      [] e.ev = "ret"   -> OnRet(s, e)
      [] e.ev = "load"  -> IF e.n >= SpinBound /\ s.incall[e.t] \in Blocking
                           THEN Flag(OnRead(s, e.t, e.loc, e.ord), "unbounded_spin")
                           ELSE OnRead(s, e.t, e.loc, e.ord)
      [] e.ev = "cas"   -> IF e.ok THEN OnRmw(s, e.t, e.loc, e.os) ELSE OnRead(s, e.t, e.loc, e.of)
      [] e.ev \in {"swap", "fadd", "fsub"} -> OnRmw(s, e.t, e.loc, e.ord)
      [] e.ev = "store" -> OnStore(s, e.t, e.loc, e.ord)
      [] e.ev = "wait"  -> OnWait(s, e)
      [] e.ev = "woken" -> [s EXCEPT !.parked = @ \ {e.t}]
      [] e.ev = "wake"  -> [s EXCEPT !.parked = @ \ SeqSet(e.woken)]
      [] e.ev = "data"  -> OnData(s, e)
      [] e.ev = "panic" -> Flag(s, "panic")
      [] e.ev = "final" -> OnFinal(s, e)
      [] e.ev = "obl"   -> OnObligation(s, e)
      [] e.ev = "end"   -> OnEnd(s, e)
      [] OTHER -> s

Init ==
    /\ l = 1
    /\ st = Fresh(-1)
    /\ bad = <<>>
    /\ nviol = 0
    /\ nruns = 0
    /\ ncut = 0

Step ==
    /\ l <= Len(Rec)
    /\ LET e == Rec[l] IN
       IF e.ev = "reset"
       THEN /\ st' = Fresh(e.run)
            /\ nruns' = nruns + 1
            /\ UNCHANGED <<bad, nviol, ncut>>
       ELSE LET s2 == Apply(st, e) IN
            /\ st' = s2
            /\ IF s2.hit # "" /\ st.hit = ""
               THEN /\ nviol' = nviol + 1
                    /\ bad' = IF Len(bad) < 100
                              THEN Append(bad, [run |-> st.run, line |-> l, code |-> s2.hit,
                                                t |-> IF "t" \in DOMAIN e THEN e.t ELSE 0])
                              ELSE bad
               ELSE UNCHANGED <<bad, nviol>>
            /\ ncut' = IF e.ev = "end" /\ e.cut THEN ncut + 1 ELSE ncut
            /\ UNCHANGED nruns
    /\ l' = l + 1

Final ==
    /\ l = Len(Rec) + 1
    /\ PrintT(<<"JUDGED", ToJson([events |-> Len(Rec), runs |-> nruns, nviol |-> nviol,
                                   cut |-> ncut, bad |-> bad])>>)
    /\ l' = l + 1
    /\ UNCHANGED <<st, bad, nviol, nruns, ncut>>

Next == Step \/ Final
=============================================================================
