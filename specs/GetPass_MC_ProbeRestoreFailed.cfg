CONSTANTS
  MaxDrain = 2
SPECIFICATION Spec
INVARIANTS ProbeRestoreFailed
CHECK_DEADLOCK FALSE
