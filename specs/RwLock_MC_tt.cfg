CONSTANTS
  N = 2
  Progs <- A_TT
  Ord <- OrdCode
  MaxSpur = 0
  MaxEintr = 0
  MaxWeak = 1
SPECIFICATION Spec
INVARIANTS TypeOK WriterExclusive RaceFree TryNeverBlocks NoLostWakeup AssertsHold WordAgrees Progress
PROPERTY Termination
CHECK_DEADLOCK FALSE
