------------------------------ MODULE FsReadDir ------------------------------
(* C14, algorithm level: tiny_std::fs::ReadDir over its fixed getdents window.               *)
(*                                                                                           *)
(* A directory is a sequence of name lengths (in the order the file system returns them).    *)
(* getdents64(fd, buf, Window) copies as many WHOLE records as fit, from its position on;    *)
(* a record is RecLen(l) = align8(19 + l + 1) bytes; 0 = end of directory; EINVAL if not     *)
(* even one record fits (cannot happen: 255-byte names need 280 <= 512).                     *)
(* The iterator as coded: (offset, read_size, eod); refill when offset = read_size;           *)
(* Dirent::try_from_bytes(buf[offset..]) needs HeaderSize = 18 bytes, advances by d_reclen.   *)
(* Early (constant, 0 in the code) is the refill slack: a model of the seeded mutant          *)
(* "refill Early bytes early" makes TLC show the lost entry.                                  *)
(* EodSlack (constant, 0 in the code) models the "skip the confirming getdents" shortcut:     *)
(* with 256 TLC shows a 256-byte batch followed by a 264..280-byte record losing it.           *)
(* NameLens is chosen so that record sizes sweep the boundary: 24, 32, 120, 208, 232 .. 280.   *)
(* Property: the entries yielded are exactly the directory, each once, in order.              *)
EXTENDS Integers, Sequences, TLC
CONSTANTS NameLens, MaxEntries, Window, Early,
          EodSlack     \* 0 in the code; s > 0 models "after a batch that leaves >= s bytes free, assume end of directory"
VARIABLES dir, pos, buf, offset, readSize, eod, out, done
vars == <<dir, pos, buf, offset, readSize, eod, out, done>>
RecLen(l) == ((19 + l + 1 + 7) \div 8) * 8
Dirs == UNION {[1..n -> NameLens] : n \in 0..MaxEntries}
\* the records one getdents call returns from position p: the longest run that fits
RECURSIVE Fit(_, _, _)
Fit(d, p, room) == IF p > Len(d) \/ RecLen(d[p]) > room THEN <<>>
                   ELSE <<p>> \o Fit(d, p + 1, room - RecLen(d[p]))
RECURSIVE Bytes(_, _)
Bytes(d, ps) == IF ps = <<>> THEN 0 ELSE RecLen(d[Head(ps)]) + Bytes(d, Tail(ps))
\* which entry of buf (sequence of directory positions) starts at byte offset o, 0 if none
RECURSIVE At(_, _, _, _)
At(d, ps, o, acc) == IF ps = <<>> THEN 0 ELSE IF acc = o THEN Head(ps) ELSE At(d, Tail(ps), o, acc + RecLen(d[Head(ps)]))

Init == /\ dir \in Dirs /\ pos = 1 /\ buf = <<>> /\ offset = 0 /\ readSize = 0 /\ eod = FALSE
        /\ out = <<>> /\ done = FALSE
NextEntry ==
    /\ ~done
    /\ IF readSize <= offset + Early                      \* `self.read_size == self.offset` in the code (Early = 0)
       THEN IF eod THEN done' = TRUE /\ UNCHANGED <<dir, pos, buf, offset, readSize, eod, out>>
            ELSE LET got == Fit(dir, pos, Window) IN
                 IF got = <<>>                             \* read == 0
                 THEN eod' = TRUE /\ done' = TRUE /\ UNCHANGED <<dir, pos, buf, offset, readSize, out>>
                 ELSE \* refill, then parse the first record of the new window in the same call
                      /\ buf' = got /\ pos' = pos + Len(got) /\ readSize' = Bytes(dir, got)
                      /\ offset' = RecLen(dir[got[1]]) /\ out' = Append(out, got[1])
                      /\ eod' = (EodSlack > 0 /\ Window - Bytes(dir, got) >= EodSlack)
                      /\ UNCHANGED <<dir, done>>
       ELSE LET e == At(dir, buf, offset, 0) IN
            /\ e # 0 /\ readSize - offset >= 18            \* try_from_bytes finds a header
            /\ out' = Append(out, e) /\ offset' = offset + RecLen(dir[e])
            /\ UNCHANGED <<dir, pos, buf, readSize, eod, done>>
Next == NextEntry
EachOnceInOrder == done => out = [j \in 1..Len(dir) |-> j]
NoPartial == offset <= readSize /\ readSize <= Window
=============================================================================
