CONSTANTS
  WORD = 4
  THRESHOLD = 8
  L = 20
  MaxN = 20
  Fns = {"memcpy", "memmove", "memset"}
  Fills = {0, 165, 421}
  WRAP = 65536
SPECIFICATION Spec
INVARIANTS DoneCorrect WritesInside ReadsInside WordAligned HeadFits
PROPERTY Terminates
