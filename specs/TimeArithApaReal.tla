-------------------------- MODULE TimeArithApaReal --------------------------
(* TimeArithApa.tla with the real constants, for Apalache only (TLC cannot parse 2^63). *)
EXTENDS TimeArithApa
ConstInit == /\ NPS = 1000000000
             /\ SMAX = 9223372036854775807
             /\ DMAX = 18446744073709551615
             /\ U32MAX = 4294967295
=============================================================================
