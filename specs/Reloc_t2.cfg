\* every RELA table of <= 2 entries x every REL table of <= 2 entries over 4 words, 4 dynamic-section layouts,
\* 3 program-header lists, 3 start-up situations
CONSTANTS
  Variant = "coded"
  Rels <- Rel2
  Relas <- Rela2
  Words <- W
  Layouts = {1, 2, 3, 4}
  PhdrLists <- PhdrsOk
  Modes = {"static", "loader", "selfreloc"}
  BASE = 100000
  DYNVADDR = 200
INIT Init
NEXT Next
INVARIANTS ImageCorrect AtMostOnce TablesFound NoFault
