CONSTANTS
  NS = 2
  NC = 2
  H = 8
  Side = "cq"
  SqStarts <- OneStart
  CqStarts <- AllStarts
  Wrapping = TRUE
  DebugChecks = TRUE
  CqEmptyLE = FALSE
  AtomicReapRead = TRUE
INIT Init
NEXT Next
INVARIANTS TypeOK PropertyHolds CountersConsistent
CHECK_DEADLOCK FALSE
