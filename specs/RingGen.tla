------------------------------ MODULE RingGen ------------------------------
(* C17, behaviour generator for configurations whose state graph is too big to tour:        *)
(* Ring.tla plus a history variable, run with `tlc -simulate num=.. -depth D`; every         *)
(* behaviour that reaches D steps is printed as one JSON line (start values, and for each    *)
(* step the action, its argument and the state the model reaches) and then replayed into     *)
(* the real IoUring by harness/ring.                                                         *)
EXTENDS Ring_MC, Json
CONSTANT D
VARIABLE hist
NearWrap == (H - NS - NC)..(H-1)

Obs == [st |-> <<sqHead', sqTail', kSqHead', kSqTail', kCqHead', kCqTail'>>, sqs |-> sqSlot',
        cqs |-> cqSlot', want |-> want', held |-> held']
Log(op, arg) == hist' = Append(hist, [op |-> op, arg |-> arg, o |-> Obs])

GInit == Init /\ hist = <<[op |-> "init", arg |-> 0,
                           o |-> [st |-> <<sqHead, sqTail, kSqHead, kSqTail, kCqHead, kCqTail>>, sqs |-> sqSlot,
                                  cqs |-> cqSlot, want |-> want, held |-> held]]>>
GNext ==
    /\ Len(hist) <= D
    /\ \/ \E r \in {PANIC, NONE} \cup 0..(NS-1) : GetSlot(r) /\ Log("get", r)
       \/ \E sl \in 0..(NS-1) : Fill(sl) /\ Log("fill", sl)
       \/ \E r \in {PANIC} \cup 0..NS \cup {HUGE} : Flush(r) /\ Log("flush", r)
       \/ \E k \in 1..NS : Consume(k) /\ Log("consume", k)
       \/ \E k \in 1..NC : Post(k) /\ Log("post", k)
       \/ \E r \in {NONE} \cup 0..(NC-1) : Reap(r) /\ Log("reap", r)
       \/ \E v \in -1..(2*H + NC) : Read(v) /\ Log("read", v)

Emit == Len(hist) <= D \/ PrintT(<<"B", ToJson(hist)>>)
=============================================================================
