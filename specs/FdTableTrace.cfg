CONSTANT Fds <- TraceFds
INIT TInit
NEXT TNext
INVARIANT Done
CHECK_DEADLOCK FALSE
