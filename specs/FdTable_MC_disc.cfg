CONSTANTS Fds = {0, 1, 2, 3}
SPECIFICATION DSpec
INVARIANTS TypeOK DisciplineSafe EndRestores
CHECK_DEADLOCK FALSE
