-------------------------- MODULE SyscallProto_MC --------------------------
EXTENDS SyscallProto
\* small raw domain: errno boundary, EBUSY both signs, successes, odd values
Dom == {Neg(1), Neg(2), Neg(16), Neg(4095), Neg(4096), Neg(4097),
        Pos(0), Pos(1), Pos(2), Pos(3), Pos(16), Pos(4095), Pos(2147483647),
        Big("80000000"), Big("8000000000000000")}
=============================================================================
