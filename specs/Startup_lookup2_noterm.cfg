\* the terminator test of match_up_to_str removed: TLC must find the read past the terminator / the wrong answer
\* every environment block of at most 2 entries x every key x {var, var_unix}
CONSTANTS
  Version = "noterm"
  Argvs <- ArgvOne
  Entries <- EntriesQ
  MaxEnv = 2
  Keys <- KeysQ
  Auxvs <- AuxOne
  Fns = {"var", "var_unix"}
SPECIFICATION Spec
INVARIANTS PictureOk BootCorrect ArgsCorrect LookupCorrect ReadsInBounds
PROPERTY Terminates
