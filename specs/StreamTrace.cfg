INIT Init
NEXT Next
INVARIANTS Report PrefixInv
CHECK_DEADLOCK FALSE
