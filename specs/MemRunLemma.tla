---------------------------- MODULE MemRunLemma ----------------------------
(* Lemma behind the run-level judgement of large arenas (MemRuns!RunJudge): for EVERY run   *)
(* list (<= MaxRuns runs, any offsets / literal values) and EVERY call (memmove with any    *)
(* overlap, memset) on an arena of LL cells with tag period PERIOD, the run-level decision  *)
(* equals the cell-by-cell comparison with Mem.tla.  TLC enumerates the whole space as      *)
(* initial states; the invariant is the equivalence.                                        *)
EXTENDS MemRuns, TLC
CONSTANTS LL, MaxRuns, MaxVal
VARIABLES r
\* all ways to cut 0..LL-1 into k consecutive non-empty pieces: sets of cut points
Cuts(k) == {c \in SUBSET (1..(LL-1)) : Cardinality(c) = k - 1}
RECURSIVE SortedSeq(_)
SortedSeq(S) == IF S = {} THEN <<>> ELSE LET m == CHOOSE x \in S : \A y \in S : x <= y IN <<m>> \o SortedSeq(S \ {m})
Bounds(c) == <<0>> \o SortedSeq(c) \o <<LL>>
Payload == ({0} \X ((0-LL)..LL)) \cup ({1} \X (0..MaxVal))
RunListsFor(k, c) == { [i \in 1..k |-> <<Bounds(c)[i], Bounds(c)[i+1] - Bounds(c)[i], p[i][1], p[i][2]>>] : p \in [1..k -> Payload] }
RunLists == UNION { UNION { RunListsFor(k, c) : c \in Cuts(k) } : k \in 1..MaxRuns }
Calls == { [f |-> "memmove", L |-> LL, n |-> n, d |-> d, s |-> s, c |-> 0] : n \in 0..LL, d \in 0..LL, s \in 0..LL }
         \cup { [f |-> "memset", L |-> LL, n |-> n, d |-> d, s |-> 0, c |-> c] : n \in 0..LL, d \in 0..LL, c \in 0..MaxVal }
Init == \E call \in {q \in Calls : q.d + q.n <= LL /\ q.s + q.n <= LL}, runs \in RunLists :
            r = [call EXCEPT !.c = call.c] @@ [runs |-> runs]
Next == UNCHANGED r
WellFormed == \A k \in 1..Len(r.runs) : Len(r.runs[k]) = 4
Equivalent == CellJudge(r) = RunJudge(r)
\* anti-vacuity: both verdicts occur (counted by the check from the printed totals)
Accepting == CellJudge(r)
=============================================================================
