INIT Init
NEXT Next
INVARIANT Report
CHECK_DEADLOCK FALSE
