---------------------------- MODULE StartupTrace ----------------------------
(* C07 - the algorithm-level walk of Startup.tla run on REAL initial stacks.                 *)
(* The launcher dumps the initial stack (argc .. AT_NULL and the strings behind it) of the   *)
(* stopped probe; lib/checks/c07.py rewrites pointers into indices of the dump.  For each    *)
(* such record TLC runs the transcription (Resolve, ScanEnv, AuxFirst, AuxLoop, then         *)
(* ArgsNext or VarEntry/Match/Matched) on that real picture and compares what it delivers    *)
(* with what the real code reported for the same process: the argument list, the collected   *)
(* uid / gid / random / exec-fn aux values, the answer of var / var_unix for every key.      *)
(* A divergence means the code no longer is the algorithm that was model-checked (model      *)
(* drift): reported in the evidence, never a verdict on the property.                        *)
EXTENDS Startup, TLC, Json, IOUtils, SequencesExt
Rec == ndJsonDeserialize(IOEnv.TRACE)
VARIABLES ri, j, verdict

CallChoices(r) == {<<"args_os", 0>>}
              \cup {<<"var_unix", i>> : i \in {x \in 1..Len(r.look) : r.look[x].varu.k # "skipped"}}
              \cup {<<"var", i>> : i \in {x \in 1..Len(r.look) : r.look[x].var.k # "skipped"}}
InitT ==
    /\ ri \in 1..Len(Rec)
    /\ \E ch \in CallChoices(Rec[ri]) :
          /\ fn = ch[1] /\ j = ch[2]
          /\ key = (IF ch[2] = 0 THEN <<>> ELSE Rec[ri].look[ch[2]].key)
    /\ argv = <<>> /\ env = <<>> /\ aux = <<>>
    /\ st = Rec[ri].st /\ heap = Rec[ri].heap
    /\ pc = "resolve"
    /\ argc = 0 /\ argvp = 0 /\ envp = 0 /\ off = 0 /\ akey = 0 /\ coll = ZeroAux /\ it = 0
    /\ out = <<>> /\ rdw = {} /\ rdb = {} /\ rdk = {}
    /\ verdict = "running"

AsRes(x) == IF x = Missing THEN [k |-> "missing"] ELSE [k |-> "ok", v |-> x[2]]
Agrees ==
    LET r == Rec[ri] IN
    CASE fn = "args_os" ->
            /\ out = r.args_os
            /\ argc = r.argc[1]
            /\ r.has_aux => /\ coll.uid = r.aux.uid /\ coll.gid = r.aux.gid
                            /\ coll.random # 0 /\ SubSeq(heap, coll.random, coll.random + 15) = r.aux.random
                            /\ coll.execfn # 0 /\ CStr(heap, coll.execfn) = r.aux.execfn
      [] fn = "var_unix" -> AsRes(out) = r.look[j].varu
      [] fn = "var" -> IF out = Missing THEN r.look[j].var = [k |-> "missing"]
                       ELSE IF out = NotUnicode THEN r.look[j].var.k \in {"notunicode", "ok"}    \* (non-ASCII but valid UTF-8 is "ok" in reality)
                       ELSE r.look[j].var = [k |-> "ok", v |-> out[2]]
NextT ==
    /\ verdict = "running"
    /\ IF pc # "done"
       THEN Next /\ UNCHANGED <<ri, j, verdict>>
       ELSE /\ UNCHANGED <<vars, ri, j>>
            /\ verdict' = IF Agrees THEN "conforms" ELSE "diverged"
Report == /\ verdict = "diverged" => PrintT(<<"DIV", ToJson([rec |-> ri, fn |-> fn, j |-> j, out |-> out])>>)
          /\ verdict = "conforms" => PrintT(<<"CONF", ToJson([rec |-> ri, fn |-> fn, j |-> j])>>)
=============================================================================
