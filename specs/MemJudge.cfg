CONSTANTS
  PERIOD = 251
  CellLimit = 256
INIT Init
NEXT Next
CHECK_DEADLOCK FALSE
