------------------------------ MODULE RingAbs ------------------------------
(* C17, PROPERTY LEVEL.  What the property statement says about the two io_uring rings and  *)
(* nothing about how the wrapper computes it: two FIFO channels between an application and   *)
(* the kernel side, observed at call granularity.                                            *)
(*                                                                                           *)
(*   submission:  every entry the application fills and flushes is consumed exactly once and *)
(*                in order; no slot is handed out again before the kernel consumed it; a     *)
(*                flushed entry is visible to the kernel; a slot is refused only when all    *)
(*                ns slots are outstanding (a ring of size ns holds ns entries).             *)
(*   completion:  every completion the kernel posts is returned exactly once, in order and   *)
(*                with the content the kernel wrote (judged when the application reads       *)
(*                through the returned reference); "none" is answered only when nothing is   *)
(*                pending (a posted completion that is never returned is returned 0 times).  *)
(*   no operation panics.                                                                    *)
(*                                                                                           *)
(* The module is a MONITOR: a record `a` and one total operator per observable event that    *)
(* returns the next record.  The first inadmissible observation is stored in a.why and the   *)
(* monitor freezes (one clause is only noted, in a.stale, see ARead).  It is used (1) in product with the algorithm-level model Ring.tla, so   *)
(* that TLC checks exhaustively that the algorithm as coded satisfies the property on the    *)
(* bounded configurations, and (2) by RingTrace.tla to judge executions recorded from the    *)
(* real IoUring methods.  Verdicts on the implementation are taken here only.               *)
(*                                                                                           *)
(* Observables: slot numbers (address of the returned pointer relative to the entry array),  *)
(* entry contents (sequence stamps in user_data), what the simulated kernel reads/writes,    *)
(* and how many entries the kernel sees as available after a flush.  No counter values.      *)
EXTENDS Integers, Sequences, FiniteSets

NONE  == -1     \* "None" returned / no reference held / slot not filled yet
PANIC == -2     \* the call did not return (panic caught by the harness)
BADPTR == -3    \* a pointer outside the entry array was returned

\* ns, nc: sizes of the submission / completion ring
AbsInit(ns, nc) ==
           [ns   |-> ns, nc |-> nc,
            sq   |-> <<>>,   \* flushed, not yet consumed: <<slot, stamp>> in ring order
            ho   |-> <<>>,   \* handed out, not yet flushed: <<slot, stamp or NONE>> in hand-out order
            cq   |-> <<>>,   \* posted, not yet returned: stamps in posting order
            held |-> NONE,   \* stamp of the completion whose reference the application holds
            gap  |-> FALSE,  \* the kernel posted since that reference was returned
            stale |-> FALSE, \* some read saw an entry overwritten after its slot was released (see ARead)
            why  |-> ""]     \* first violated clause (all clauses but the one recorded in `stale`)

Flag(a, w) == [a EXCEPT !.why = w]
\* set-up: the kernel takes submission entry arr[i] for ring position i (i = 0..ns-1, arr 1-based here); the entry the
\* application writes for position i is entry i, so the index array must be the identity
AbsInitArr(ns, nc, arr) ==
    IF arr = [i \in 1..ns |-> i - 1] THEN AbsInit(ns, nc)
    ELSE [AbsInit(ns, nc) EXCEPT !.why = "index_array_does_not_name_the_slots"]
Frozen(a) == a.why # ""

SeqRange(s) == {s[i] : i \in 1..Len(s)}
Busy(a) == {e[1] : e \in SeqRange(a.sq)} \cup {e[1] : e \in SeqRange(a.ho)}
Stamps(s) == [i \in 1..Len(s) |-> s[i][2]]

\* get_next_sqe_slot returned r (slot number, NONE, PANIC, BADPTR)
AGetSlot(a, r) ==
    IF Frozen(a) THEN a
    ELSE IF r = PANIC THEN Flag(a, "panic_get_slot")
    ELSE IF r = NONE THEN
        IF Len(a.sq) + Len(a.ho) < a.ns THEN Flag(a, "slot_refused_while_ring_not_full") ELSE a
    ELSE IF r \notin 0..(a.ns-1) THEN Flag(a, "get_slot_pointer_outside_ring")
    ELSE IF r \in Busy(a) THEN Flag(a, "slot_handed_out_before_consumed")
    ELSE [a EXCEPT !.ho = Append(@, <<r, NONE>>)]

\* the application wrote an entry stamped `stamp` into the handed-out slot
AFill(a, slot, stamp) ==
    IF Frozen(a) THEN a
    ELSE IF ~\E i \in 1..Len(a.ho) : a.ho[i] = <<slot, NONE>> THEN Flag(a, "harness_fill_protocol")
    ELSE [a EXCEPT !.ho = [i \in 1..Len(@) |-> IF @[i] = <<slot, NONE>> THEN <<slot, stamp>> ELSE @[i]]]

\* flush_submission_queue returned r; afterwards the kernel side sees kavail entries to consume.
\* r is the number the caller hands to io_uring_enter as to_submit: it must be every entry published and not yet
\* consumed (tail - kernel head at that moment), else published entries are never handed to the kernel (e.g. when an
\* earlier flush's entries are still pending, or on the retry after a failed io_uring_enter)
AFlush(a, r, kavail) ==
    IF Frozen(a) THEN a
    ELSE IF r = PANIC THEN Flag(a, "panic_flush")
    ELSE IF \E i \in 1..Len(a.ho) : a.ho[i][2] = NONE THEN Flag(a, "harness_flush_protocol")
    ELSE LET sq2 == a.sq \o a.ho IN
         IF kavail < Len(sq2) THEN Flag(a, "flushed_entry_not_visible_to_kernel")
         ELSE IF kavail > Len(sq2) THEN Flag(a, "kernel_sees_entry_never_flushed")
         ELSE IF r # Len(sq2) THEN Flag(a, "flush_did_not_return_the_number_of_unconsumed_entries")
         ELSE [a EXCEPT !.sq = sq2, !.ho = <<>>]

\* needs_wakeup() with the submission ring's flags word holding `flags`: the test of IORING_SQ_NEED_WAKEUP (bit 0),
\* whatever the other bits (IORING_SQ_CQ_OVERFLOW = 2, IORING_SQ_TASKRUN = 4) say - an idle polling thread that is not
\* woken never consumes what was flushed
AWakeup(a, flags, ret) ==
    IF Frozen(a) THEN a
    ELSE IF ret # ((flags % 2) = 1) THEN Flag(a, "needs_wakeup_is_not_the_need_wakeup_bit")
    ELSE a

\* the kernel consumed Len(stamps) entries and read these contents, in ring order
AConsume(a, stamps) ==
    IF Frozen(a) THEN a
    ELSE IF Len(stamps) > Len(a.sq) THEN Flag(a, "kernel_consumed_entry_never_flushed")
    ELSE IF stamps # SubSeq(Stamps(a.sq), 1, Len(stamps)) THEN Flag(a, "consumed_wrong_entry_or_order")
    ELSE [a EXCEPT !.sq = SubSeq(@, Len(stamps) + 1, Len(@))]

\* the kernel posted completions with these contents
APost(a, stamps) ==
    IF Frozen(a) THEN a
    ELSE [a EXCEPT !.cq = @ \o stamps, !.gap = (a.held # NONE)]

\* get_next_cqe returned r (slot number of the reference, NONE, PANIC, BADPTR)
AReap(a, r) ==
    IF Frozen(a) THEN a
    ELSE IF r = PANIC THEN Flag(a, "panic_reap")
    ELSE IF a.held # NONE THEN Flag(a, "harness_reap_protocol")
    ELSE IF r = NONE THEN
        IF a.cq # <<>> THEN Flag(a, "none_returned_while_completion_pending") ELSE a
    ELSE IF r \notin 0..(a.nc-1) THEN Flag(a, "reap_pointer_outside_ring")
    ELSE IF a.cq = <<>> THEN Flag(a, "completion_returned_that_was_not_posted")
    ELSE [a EXCEPT !.held = Head(a.cq), !.cq = Tail(@), !.gap = FALSE]

\* the application read `stamp` through the reference returned by the last get_next_cqe
ARead(a, stamp) ==
    IF Frozen(a) THEN a
    ELSE IF a.held = NONE THEN Flag(a, "harness_read_protocol")
    ELSE IF stamp # a.held /\ ~a.gap THEN Flag(a, "wrong_completion_content")
    ELSE \* a wrong content after the kernel posted behind the returned reference is clause
         \* "content_overwritten_between_return_and_read"; the monitor notes it and goes on (the lost
         \* completion aside, the channels stay in step), so that the rest of the run is still judged
         [a EXCEPT !.held = NONE, !.gap = FALSE, !.stale = @ \/ (stamp # a.held)]

Clauses == {"index_array_does_not_name_the_slots", "panic_get_slot", "slot_refused_while_ring_not_full", "get_slot_pointer_outside_ring",
            "slot_handed_out_before_consumed", "panic_flush", "flushed_entry_not_visible_to_kernel",
            "flush_did_not_return_the_number_of_unconsumed_entries", "needs_wakeup_is_not_the_need_wakeup_bit",
            "kernel_sees_entry_never_flushed", "kernel_consumed_entry_never_flushed",
            "consumed_wrong_entry_or_order", "panic_reap", "none_returned_while_completion_pending",
            "reap_pointer_outside_ring", "completion_returned_that_was_not_posted",
            "content_overwritten_between_return_and_read", "wrong_completion_content"}
=============================================================================
