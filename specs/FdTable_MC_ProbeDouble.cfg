CONSTANTS Fds = {0, 1, 2}
SPECIFICATION Spec
INVARIANTS ProbeDouble
CHECK_DEADLOCK FALSE
