---------------------------- MODULE UnixStrGen ----------------------------
(* B3 generator: enumerates the bounded input space of UnixStr.tla as initial states and   *)
(* prints one JSON vector {inputs, admissible results per operation} per state.            *)
EXTENDS UnixStr, TLC, Json, SequencesExt
CONSTANTS Alpha,      \* alphabet (set of byte values)
          MaxLen,     \* maximal operand length
          Mode        \* "pair" (binary + path operations) | "ctor" (constructors, unary)
VARIABLES a, b
Strs == UNION {[1..k -> Alpha] : k \in 0..MaxLen}
S2Q(S) == SetToSeq(S)

Init == /\ b \in Strs
        /\ IF Mode = "pair" THEN a \in Strs ELSE a = <<>>
Next == UNCHANGED <<a, b>>

PairVec == [a |-> a, b |-> b,
            find |-> S2Q(Find(a, b)), find_buf |-> S2Q(FindBuf(a, b)),
            match_up_to |-> S2Q(MatchUpTo(a, b)), match_up_to_str |-> S2Q(MatchUpTo(a, b)),
            ends_with |-> S2Q(EndsWith(a, b)),
            path_join |-> S2Q(PathJoin(a, b)), path_join_fmt |-> S2Q(PathJoin(a, b)),
            parent_path |-> S2Q(ParentPath(b)), path_file_name |-> S2Q(PathFileName(b))]
CtorVec == [b |-> b,
            str_try_from_bytes |-> S2Q(StrTryFromBytes(b)),
            string_try_from_bytes |-> S2Q(StringTryFrom(b)),
            string_try_from_vec |-> S2Q(StringTryFrom(b)),
            string_try_from_str |-> S2Q(StringTryFrom(b)),
            string_try_from_string |-> S2Q(StringTryFrom(b)),
            string_from_str |-> S2Q(StringTryFrom(b)),
            str_try_from_str |-> S2Q(StrTryFromBytes(b)),
            from_format |-> S2Q(FromFormat(b)),
            from_str_checked |-> S2Q(FromStrChecked(b))]

Emit == PrintT(<<"V", ToJson(IF Mode = "pair" THEN PairVec ELSE CtorVec)>>)

\* Consistency of the two properties inside the specification: every string result that C11's
\* definitions admit for NUL-free operands satisfies C10's obligation.
C10FollowsFromC11 ==
    Mode = "pair" =>
        \A r \in PathJoin(a, b) \cup ParentPath(b) \cup PathFileName(b) : Produced(r, TRUE)
C10Ctors ==
    Mode = "ctor" =>
        \A r \in StrTryFromBytes(b) \cup StringTryFrom(b) \cup FromFormat(b) \cup FromStrChecked(b) :
            Produced(r, ~HasNul(b))
=============================================================================
