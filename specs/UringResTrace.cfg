CONSTANTS
  SingleMmap = TRUE
  GuardSingle = TRUE
INIT TInit
NEXT TNext
CHECK_DEADLOCK FALSE
