------------------------------ MODULE FdOps_MC ------------------------------
(* Programs of FdOps: "Fixed" = the operations as they are after the fix: commits recorded in *)
(* known_findings.d/C12.json, "Pinned" = as they were in the pinned tree.  Program names are  *)
(* scenario names of harness/src/bin/fdops.rs (suffix "!input" = the run in which the         *)
(* non-system-call step fails because of the argument, e.g. the 120-byte socket path).        *)
EXTENDS FdOps
S(n, mk, r, of) == [n |-> n, mk |-> mk, raii |-> r, ad |-> {}, cl |-> {}, of |-> of, fal |-> TRUE]
C(n, cl)        == [n |-> n, mk |-> <<>>, raii |-> FALSE, ad |-> {}, cl |-> cl, of |-> {}, fal |-> FALSE]
Adopt(v)        == [n |-> "", mk |-> <<>>, raii |-> FALSE, ad |-> {v}, cl |-> {}, of |-> {}, fal |-> FALSE]
Conv(of)        == [n |-> "", mk |-> <<>>, raii |-> FALSE, ad |-> {}, cl |-> {}, of |-> of, fal |-> TRUE]

SpawnPipes(forkOf, adopt) ==
    <<S("pipe2", <<"i1", "i2">>, TRUE, {}), S("pipe2", <<"o1", "o2">>, TRUE, {}), S("pipe2", <<"e1", "e2">>, TRUE, {}),
      S("pipe2", <<"r", "w">>, FALSE, {}), S("fork", <<>>, FALSE, forkOf), C("close", {"w"})>>
    \o (IF adopt THEN <<Adopt("r")>> ELSE <<>>) \o <<S("read", <<>>, FALSE, {})>>

FixedOnly == [
  unix_connect |-> [steps |-> <<Conv({}), S("socket", <<"a">>, FALSE, {}), S("connect", <<>>, FALSE, {"a"})>>, ret |-> {"a"}],
  unix_bind    |-> [steps |-> <<Conv({}), S("socket", <<"a">>, FALSE, {}), S("bind", <<>>, FALSE, {"a"}), S("listen", <<>>, FALSE, {"a"})>>, ret |-> {"a"}],
  tcp_bind     |-> [steps |-> <<S("socket", <<"a">>, FALSE, {}), S("bind", <<>>, FALSE, {"a"}), S("listen", <<>>, FALSE, {"a"})>>, ret |-> {"a"}],
  getpwuid_r   |-> [steps |-> <<S("openat", <<"a">>, FALSE, {}), S("read", <<>>, FALSE, {"a"}), C("close", {"a"})>>, ret |-> {}],
  openpty      |-> [steps |-> <<S("openat", <<"m">>, FALSE, {}), S("ioctl", <<>>, FALSE, {"m"}), S("ioctl", <<>>, FALSE, {"m"}),
                                S("openat", <<"s">>, FALSE, {"m"})>>, ret |-> {"m", "s"}],
  openpty_termios |-> [steps |-> <<S("openat", <<"m">>, FALSE, {}), S("ioctl", <<>>, FALSE, {"m"}), S("ioctl", <<>>, FALSE, {"m"}),
                                S("openat", <<"s">>, FALSE, {"m"}), S("ioctl", <<>>, FALSE, {"m", "s"}), S("ioctl", <<>>, FALSE, {"m", "s"})>>, ret |-> {"m", "s"}],
  io_uring_setup |-> [steps |-> <<S("io_uring_setup", <<"a">>, FALSE, {}), S("mmap", <<>>, FALSE, {"a"}), S("mmap", <<>>, FALSE, {"a"})>>, ret |-> {"a"}],
  spawn_pipes  |-> [steps |-> SpawnPipes({"r", "w"}, TRUE), ret |-> {"i2", "o1", "e1"}]
]
PinnedOnly == [
  unix_connect |-> [steps |-> <<S("socket", <<"a">>, FALSE, {}), Conv({}), S("connect", <<>>, FALSE, {"a"})>>, ret |-> {"a"}],
  unix_bind    |-> [steps |-> <<S("socket", <<"a">>, FALSE, {}), Conv({}), S("bind", <<>>, FALSE, {"a"}), S("listen", <<>>, FALSE, {"a"}),
                                S("listen", <<>>, FALSE, {})>>, ret |-> {"a"}],
  tcp_bind     |-> [steps |-> <<S("socket", <<"a">>, FALSE, {}), S("bind", <<>>, FALSE, {"a"}), S("listen", <<>>, FALSE, {})>>, ret |-> {"a"}],
  getpwuid_r   |-> [steps |-> <<S("openat", <<"a">>, FALSE, {}), S("read", <<>>, FALSE, {})>>, ret |-> {}],
  openpty      |-> [steps |-> <<S("openat", <<"m">>, FALSE, {}), S("ioctl", <<>>, FALSE, {}), S("ioctl", <<>>, FALSE, {}),
                                S("openat", <<"s">>, FALSE, {})>>, ret |-> {"m", "s"}],
  openpty_termios |-> [steps |-> <<S("openat", <<"m">>, FALSE, {}), S("ioctl", <<>>, FALSE, {}), S("ioctl", <<>>, FALSE, {}),
                                S("openat", <<"s">>, FALSE, {}), S("ioctl", <<>>, FALSE, {}), S("ioctl", <<>>, FALSE, {})>>, ret |-> {"m", "s"}],
  io_uring_setup |-> [steps |-> <<S("io_uring_setup", <<"a">>, FALSE, {}), S("mmap", <<>>, FALSE, {}), S("mmap", <<>>, FALSE, {})>>, ret |-> {"a"}],
  spawn_pipes  |-> [steps |-> SpawnPipes({}, FALSE), ret |-> {"i2", "o1", "e1"}]
]

\* operations whose descriptor handling did not change between the pinned and the fixed tree
SpawnNoPipes(pre, forkOf, adopt) ==
    pre \o <<S("pipe2", <<"r", "w">>, FALSE, {}), S("fork", <<>>, FALSE, forkOf), C("close", {"w"})>>
    \o (IF adopt THEN <<Adopt("r")>> ELSE <<>>) \o <<S("read", <<>>, FALSE, {})>>
Nulls == <<S("openat", <<"n1">>, TRUE, {}), S("openat", <<"n2">>, TRUE, {}), S("openat", <<"n3">>, TRUE, {})>>
Common == [
  tcp_connect  |-> [steps |-> <<S("socket", <<"a">>, FALSE, {}), S("connect", <<>>, FALSE, {"a"}), S("ppoll", <<>>, FALSE, {"a"}),
                                S("connect", <<>>, FALSE, {"a"})>>, ret |-> {"a"}],
  tcp_try_connect |-> [steps |-> <<S("socket", <<"a">>, FALSE, {}), S("connect", <<>>, FALSE, {"a"})>>, ret |-> {"a"}],
  unix_try_connect |-> [steps |-> <<Conv({}), S("socket", <<"a">>, FALSE, {}), S("connect", <<>>, FALSE, {"a"})>>, ret |-> {"a"}],
  unix_accept  |-> [steps |-> <<S("accept4", <<"a">>, FALSE, {})>>, ret |-> {"a"}],
  copy_file    |-> [steps |-> <<S("openat", <<"a">>, TRUE, {}), S("newfstatat", <<>>, FALSE, {}), S("openat", <<"b">>, TRUE, {}),
                                S("copy_file_range", <<>>, FALSE, {})>>, ret |-> {"b"}],
  file_copy    |-> [steps |-> <<S("newfstatat", <<>>, FALSE, {}), S("openat", <<"b">>, TRUE, {}), S("copy_file_range", <<>>, FALSE, {})>>, ret |-> {"b"}],
  fs_read      |-> [steps |-> <<S("openat", <<"a">>, TRUE, {}), S("read", <<>>, FALSE, {}), S("read", <<>>, FALSE, {})>>, ret |-> {}],
  dir_open     |-> [steps |-> <<S("openat", <<"a">>, TRUE, {})>>, ret |-> {"a"}],
  epoll        |-> [steps |-> <<S("epoll_create1", <<"a">>, TRUE, {}), S("epoll_ctl", <<>>, FALSE, {}), S("epoll_pwait", <<>>, FALSE, {}),
                                S("epoll_ctl", <<>>, FALSE, {})>>, ret |-> {"a"}]
]
Fixed == FixedOnly @@ Common @@ [spawn_inherit |-> [steps |-> SpawnNoPipes(<<>>, {"r", "w"}, TRUE), ret |-> {}],
                                  spawn_null |-> [steps |-> SpawnNoPipes(Nulls, {"r", "w"}, TRUE), ret |-> {}]]
Pinned == PinnedOnly @@ [unix_try_connect |-> [steps |-> <<S("socket", <<"a">>, FALSE, {}), Conv({}), S("connect", <<>>, FALSE, {"a"})>>, ret |-> {"a"}]]
          @@ Common @@ [spawn_inherit |-> [steps |-> SpawnNoPipes(<<>>, {}, FALSE), ret |-> {}],
                        spawn_null |-> [steps |-> SpawnNoPipes(Nulls, {}, FALSE), ret |-> {}]]
=============================================================================
