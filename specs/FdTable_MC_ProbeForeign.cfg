CONSTANTS Fds = {0, 1, 2}
SPECIFICATION Spec
INVARIANTS ProbeForeign
CHECK_DEADLOCK FALSE
