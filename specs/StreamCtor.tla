------------------------------ MODULE StreamCtor ------------------------------
(* C16, structural clause on constructors: IOEnv.TRACE (ndjson) has one record per stream the *)
(* real code handed out, {fam, side ("c" | "s"), ctor (connect | try_connect | connect_to |    *)
(* accept | try_accept | accept_to), nonblock, cloexec}: O_NONBLOCK / FD_CLOEXEC as fcntl      *)
(* reports them right after construction.  A stream is accepted iff its mode equals the mode   *)
(* of the streams the PLAIN constructor of its side and family hands out (Stream!CtorUniform:  *)
(* equality with the siblings, not a fixed value - a deliberate library-wide change is not     *)
(* flagged).  The waits of tiny_std::sock ("non-blocking call, then ppoll, then retry") and    *)
(* with them every Timeout and try-result rest on this attribute.                              *)
EXTENDS Sequences, FiniteSets, TLC, Json, IOUtils, SequencesExt
Rec == ndJsonDeserialize(IOEnv.TRACE)
Plain(r) == IF r.side = "c" THEN "connect" ELSE "accept"
Siblings(r) == {j \in 1..Len(Rec) : Rec[j].fam = r.fam /\ Rec[j].side = r.side /\ Rec[j].ctor = Plain(r)}
Judge(r) == /\ Siblings(r) # {}                                  \* the reference was observed in this run
            /\ \A j \in Siblings(r) : Rec[j].nonblock = r.nonblock /\ Rec[j].cloexec = r.cloexec
Bad == {j \in 1..Len(Rec) : ~Judge(Rec[j])}
ASSUME PrintT(<<"JUDGED", ToJson([n |-> Len(Rec), bad |-> SetToSeq(Bad)])>>)
VARIABLE x
Init == x = 0
Next == UNCHANGED x
=============================================================================
