\* C04 design model: the disciplined model allocator (asks the OS only when the request does not
\* fit, stays inside the envelope and the steady-state bound) satisfies every C04 invariant
CONSTANTS
  Arena = 8
  Huge = 7
  Gran = 2
  Slack = 0
  DirectMap = 1000
  EnvK = 1
  EnvC = 0
  HoleCap = 0
  Ids = {1, 2}
  Sizes = {3}
  Aligns = {1}
  MapSizes = {4, 8}
  Page = 4
  MaxOs = 2
  MaxReps = 2
  Base0 = 1
  TrackC04 = TRUE
  Disciplined = TRUE
INIT Init
NEXT Next
INVARIANTS TypeOK Aligned Disjoint Accessible OomClean NullJustified
           ReleaseOnce NoGratuitousMap SteadyState SteadyStateStep Envelope
CHECK_DEADLOCK FALSE
