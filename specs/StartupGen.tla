---------------------------- MODULE StartupGen ----------------------------
(* B3 generator for C07: enumerates the bounded input space of Startup.tla as initial states *)
(* and prints one JSON line per element: environment blocks (with the answers the definition *)
(* admits for every key) or argument vectors.  The launcher execs the real probe with exactly*)
(* these vectors.                                                                            *)
EXTENDS StartupData, FiniteSets, TLC, Json, SequencesExt
S == INSTANCE Startup WITH Version <- "fixed", Argvs <- {}, Entries <- {}, MaxEnv <- 0, Keys <- {},
                           Auxvs <- {}, Fns <- {},
                           argv <- <<>>, env <- <<>>, aux <- <<>>, key <- <<>>, fn <- "", st <- <<>>, heap <- <<>>,
                           pc <- "", argc <- 0, argvp <- 0, envp <- 0, off <- 0, akey <- 0, coll <- <<>>, it <- 0,
                           out <- <<>>, rdw <- {}, rdb <- {}, rdk <- {}
CONSTANTS GenMode,     \* "env" | "argv"
          GenMaxEnv
VARIABLE v
ArgStrsFull == {<<>>, <<a>>, <<FF>>, Long}
ArgvsFull == UNION {[1..k -> ArgStrsFull] : k \in 0..3}
GInit == IF GenMode = "env"
         THEN v \in UNION {[1..k -> EntriesQ] : k \in 0..GenMaxEnv}
         ELSE v \in ArgvsFull
GNext == UNCHANGED v
KeySeq == SetToSeq(KeysQ)
Res(r) == IF r = S!Missing THEN [k |-> "missing"] ELSE [k |-> "ok", v |-> r[2]]
EnvVec == [env |-> v,
           look |-> [i \in 1..Len(KeySeq) |->
                       [key |-> KeySeq[i], allowed |-> SetToSeq({Res(r) : r \in S!LookupAdmissible(v, KeySeq[i])}),
                        hits |-> Cardinality(S!Hits(v, KeySeq[i]))]]]
Emit == PrintT(<<"V", ToJson(IF GenMode = "env" THEN EnvVec ELSE [argv |-> v])>>)
=============================================================================
