------------------------------- MODULE Reloc -------------------------------
(* C07 - static-PIE self-relocation (tiny-start/src/elf/dynlink.rs).                         *)
(*                                                                                           *)
(* PROPERTY LEVEL.  A program image: the dynamic section as a sequence of <<tag, value>>     *)
(* closed by DT_NULL, a REL table (entries [off, info]) and a RELA table (entries            *)
(* [off, info, addend]) found through DT_REL/DT_RELSZ and DT_RELA/DT_RELASZ, memory as a     *)
(* function word-offset -> value.  Relocated(mem, base, rel, rela) is what the ELF ABI says  *)
(* the image must look like before any program code depends on it: the word of every        *)
(* R_X86_64_RELATIVE entry holds base + addend (RELA) resp. its link-time content + base    *)
(* (REL) - applied exactly once - and every other word is untouched.                         *)
(*                                                                                           *)
(* ALGORITHM LEVEL.  A transcription of relocate_symbols / DynSection::init_from_dynv /      *)
(* DynSection::relocate as coded: the three start-up situations (dynv = 0: static non-PIE;   *)
(* at_base # 0: a dynamic loader did the work; else self-relocation), the program-header     *)
(* walk that finds PT_DYNAMIC to compute the load base (it starts at the SECOND header),     *)
(* the DT_* scan (i += 2, the `key < 19` filter), the REL and the RELA loop with their       *)
(* bounds (size / size_of(entry)).  One action per loop iteration.                           *)
(*                                                                                           *)
(* TLC checks for every image of the bounded domain: the final memory is Relocated(...) in   *)
(* the self-relocating situation and the untouched memory in the other two; no word is       *)
(* written twice; the walk terminates.                                                       *)
EXTENDS RelocDef

\* ---- the case --------------------------------------------------------------------------------
CONSTANTS Rels,        \* set of REL tables (sequences of [off, info])
          Relas,       \* set of RELA tables (sequences of [off, info, addend])
          Words,       \* word offsets of the image
          Layouts,     \* dynamic-section layouts 1..4 (orders, noise tags, absent groups)
          PhdrLists,   \* program-header lists: sequences of [type, vaddr]
          Modes,       \* subset of {"static", "loader", "selfreloc"}
          Variant,     \* "coded" | "rela_adds" (an independent mutant: one helper `*word += base + addend` for REL and RELA -
                       \* RELA entries ADD to the place; invisible while the places are zero in the file, refuted by TLC here)
          BASE,        \* load base of the position-independent cases
          DYNVADDR     \* link-time address of the dynamic section
RELADDR == 300         \* link-time addresses of the two tables (bounded configurations)
RELAADDR == 500

\* dynamic sections as link editors write them, in several orders, with tags the code must skip
BIG1 == 1879048187      \* DT_FLAGS_1   0x6ffffffb
BIG2 == 1879048185      \* DT_RELACOUNT 0x6ffffff9
Dyn(layout, rel, rela) ==
    LET ra == << <<DT_RELA, RELAADDR>>, <<DT_RELASZ, Len(rela) * RELA_ENTRY>>, <<9, RELA_ENTRY>> >>
        rl == << <<DT_REL, RELADDR>>, <<DT_RELSZ, Len(rel) * REL_ENTRY>>, <<19, REL_ENTRY>> >>
    IN CASE layout = 1 -> ra \o rl \o << <<30, 8>>, <<BIG1, 134217729>> >>
         [] layout = 2 -> << <<30, 8>>, <<BIG1, 1>>, <<21, 0>> >> \o rl \o << <<DT_RELASZ, Len(rela) * RELA_ENTRY>>, <<9, RELA_ENTRY>>, <<DT_RELA, RELAADDR>>, <<BIG2, Len(rela)>> >>
         [] layout = 3 -> (IF rela = <<>> THEN <<>> ELSE ra) \o << <<6, 700>>, <<5, 800>>, <<20, 7>>, <<23, 900>>, <<2, 48>> >> \o (IF rel = <<>> THEN <<>> ELSE rl)
         [] layout = 4 -> << <<1, 1>> >> \o rl \o << <<12, 18>> >> \o ra

VARIABLES mode, rel, rela, dyn, phdrs,      \* the case
          lay,                              \* its layout: [reladdr, relaaddr, dynvaddr, base, mem0] (link-time addresses of
                                            \* the tables and of the dynamic section, load base, link-time memory)
          mem,
          pc, base, i, idx, key,
          ds,                               \* DynSection { rel, rel_sz, rela, rela_sz }
          limit,
          writes                            \* observation: how often each word was written
vars == <<mode, rel, rela, dyn, phdrs, lay, mem, pc, base, i, idx, key, ds, limit, writes>>
kase == <<mode, rel, rela, dyn, phdrs, lay>>
ZeroDs == [rel |-> 0, rel_sz |-> 0, rela |-> 0, rela_sz |-> 0]

Init ==
    /\ mode \in Modes
    /\ rel \in Rels /\ rela \in Relas
    /\ TargetsDistinct(rel, rela)
    /\ \E l \in Layouts : dyn = Dyn(l, rel, rela) \o << <<DT_NULL, 0>> >>
    /\ phdrs \in PhdrLists
    /\ lay = [reladdr |-> RELADDR, relaaddr |-> RELAADDR, dynvaddr |-> DYNVADDR, base |-> BASE,
              mem0 |-> [w \in Words |-> 3 + w]]       \* link-time contents (REL: the implicit addend)
    /\ mem = [w \in Words |-> 3 + w]
    /\ pc = "entry" /\ base = 0 /\ i = 0 /\ idx = 0 /\ key = 0 /\ ds = ZeroDs /\ limit = 0
    /\ writes = [w \in Words |-> 0]

\* what start-up hands to relocate_symbols
Dynv == IF mode = "static" THEN 0 ELSE lay.base + lay.dynvaddr     \* weak _DYNAMIC: 0 in a non-PIE static link
AtBase == IF mode = "loader" THEN 7777 ELSE 0                \* AT_BASE: the interpreter's base, 0 without one
\* tables as found in memory at run time (address -> entries)
TableAt(addr) == IF addr = lay.base + lay.reladdr THEN rel ELSE IF addr = lay.base + lay.relaaddr THEN rela ELSE <<>>

\* if dynv != 0 { let mut base = aux.at_base; if base == 0 { ... } }
Entry ==
    /\ pc = "entry"
    /\ UNCHANGED <<kase, mem, idx, key, ds, limit, writes>>
    /\ IF Dynv = 0 \/ AtBase # 0
       THEN pc' = "done" /\ base' = AtBase /\ i' = 0
       ELSE /\ base' = 0
            /\ IF Len(phdrs) > 0 THEN pc' = "phdr" /\ i' = Len(phdrs) - 1
                                 ELSE pc' = "dyn_first" /\ i' = 0
\* let mut i = ph_num - 1; while i > 0 { phdr = *(phdr_base + phent); phdr_base += phent;
\*     if p_type == PT_DYNAMIC { base = dynv - p_vaddr; break }  i -= 1 }      (idx: headers stepped over)
Phdr ==
    /\ pc = "phdr"
    /\ UNCHANGED <<kase, mem, key, ds, limit, writes>>
    /\ IF i > 0
       THEN /\ idx' = idx + 1
            /\ IF phdrs[idx + 2].type = PT_DYNAMIC
               THEN base' = Dynv - phdrs[idx + 2].vaddr /\ pc' = "dyn_first" /\ i' = i
               ELSE base' = base /\ pc' = "phdr" /\ i' = i - 1
       ELSE pc' = "dyn_first" /\ UNCHANGED <<base, i, idx>>
\* init_from_dynv: let mut i = 0; let mut key = *dynv;
DynFirst ==
    /\ pc = "dyn_first"
    /\ UNCHANGED <<kase, mem, base, idx, ds, limit, writes>>
    /\ i' = 0
    /\ key' = dyn[1][1]
    /\ pc' = "dyn_loop"
\* while key != 0 { if key < 19 { match key { DT_RELA => .., DT_RELASZ => .., DT_REL => .., DT_RELSZ => .. } } i += 2; key = *(dynv + i) }
DynLoop ==
    /\ pc = "dyn_loop"
    /\ UNCHANGED <<kase, mem, base, idx, limit, writes>>
    /\ IF key # 0
       THEN /\ ds' = IF key < 19
                     THEN CASE key = DT_RELA -> [ds EXCEPT !.rela = dyn[i \div 2 + 1][2]]
                            [] key = DT_RELASZ -> [ds EXCEPT !.rela_sz = dyn[i \div 2 + 1][2]]
                            [] key = DT_REL -> [ds EXCEPT !.rel = dyn[i \div 2 + 1][2]]
                            [] key = DT_RELSZ -> [ds EXCEPT !.rel_sz = dyn[i \div 2 + 1][2]]
                            [] OTHER -> ds
                     ELSE ds
            /\ i' = i + 2
            /\ key' = dyn[(i + 2) \div 2 + 1][1]
            /\ pc' = "dyn_loop"
       ELSE /\ pc' = "rel_loop" /\ i' = 0 /\ UNCHANGED <<ds, key>>
\* let mut i = 0; let limit = rel_sz / size_of::<Elf64Rel>(); while i < limit { rel = table[i];
\*     if rel.r_info == RELATIVE { *(base + rel.r_offset) += base }  i += 1 }
RelLoop ==
    /\ pc = "rel_loop"
    /\ UNCHANGED <<kase, base, idx, key, ds>>
    /\ limit' = ds.rel_sz \div REL_ENTRY
    /\ IF i < ds.rel_sz \div REL_ENTRY
       THEN IF i + 1 \notin DOMAIN TableAt(base + ds.rel)
            THEN pc' = "fault" /\ UNCHANGED <<mem, writes, i>>       \* reads whatever lies at a wrong address
            ELSE LET e == TableAt(base + ds.rel)[i + 1]
                 IN /\ IF IsRelative(e)
                       THEN mem' = [mem EXCEPT ![e.off] = @ + base] /\ writes' = [writes EXCEPT ![e.off] = @ + 1]
                       ELSE UNCHANGED <<mem, writes>>
                    /\ i' = i + 1 /\ pc' = "rel_loop"
       ELSE pc' = "rela_loop" /\ i' = 0 /\ UNCHANGED <<mem, writes>>
\* the same for rela: *(base + rela.r_offset) = base + rela.r_addend
RelaLoop ==
    /\ pc = "rela_loop"
    /\ UNCHANGED <<kase, base, idx, key, ds>>
    /\ limit' = ds.rela_sz \div RELA_ENTRY
    /\ IF i < ds.rela_sz \div RELA_ENTRY
       THEN IF i + 1 \notin DOMAIN TableAt(base + ds.rela)
            THEN pc' = "fault" /\ UNCHANGED <<mem, writes, i>>
            ELSE LET e == TableAt(base + ds.rela)[i + 1]
                 IN /\ IF IsRelative(e)
                       THEN mem' = [mem EXCEPT ![e.off] = IF Variant = "rela_adds" THEN @ + base + e.addend ELSE base + e.addend] /\ writes' = [writes EXCEPT ![e.off] = @ + 1]
                       ELSE UNCHANGED <<mem, writes>>
                    /\ i' = i + 1 /\ pc' = "rela_loop"
       ELSE pc' = "done" /\ i' = i /\ UNCHANGED <<mem, writes>>
Done == pc \in {"done", "fault"} /\ UNCHANGED vars
Next == Entry \/ Phdr \/ DynFirst \/ DynLoop \/ RelLoop \/ RelaLoop \/ Done
Spec == Init /\ [][Next]_vars /\ WF_vars(Next)

\* ---- what TLC checks -----------------------------------------------------------------------
HasDynamicPhdr == \E k \in 1..Len(phdrs) : phdrs[k].type = PT_DYNAMIC
DefBase == Dynv - phdrs[CHOOSE k \in 1..Len(phdrs) : phdrs[k].type = PT_DYNAMIC].vaddr
ImageCorrect ==
    pc = "done" =>
        IF mode = "selfreloc" THEN HasDynamicPhdr /\ mem = Relocated(lay.mem0, DefBase, rel, rela)
                              ELSE mem = lay.mem0
NoFault == pc # "fault"
AtMostOnce == \A w \in DOMAIN writes : writes[w] <= 1
TablesFound == pc \in {"rel_loop", "rela_loop"} /\ mode = "selfreloc" =>
                  /\ (rel # <<>> => ds.rel = lay.reladdr /\ ds.rel_sz = Len(rel) * REL_ENTRY)
                  /\ (rela # <<>> => ds.rela = lay.relaaddr /\ ds.rela_sz = Len(rela) * RELA_ENTRY)
Terminates == <>(pc \in {"done", "fault"})
=============================================================================
