------------------------------ MODULE RingInd ------------------------------
(* C17, lifted to the REAL counter width.  A typed copy of the application and kernel      *)
(* actions of Ring.tla (same structure, code as fixed in /repo: wrapping arithmetic,       *)
(* `tail == head` emptiness test, head released before the reference is returned) over    *)
(* integer counters in 0..W-1 with explicit `% W`, W = 2^32, ring sizes NS/NC any power of *)
(* two up to 32768, and an INDUCTIVE invariant IndInv checked by Apalache:                 *)
(*     Init => IndInv  for EVERY start value of the counters (Init leaves them arbitrary)  *)
(*     IndInv /\ Next => IndInv'                                                           *)
(*     IndInv => Props (the property-level clauses of RingAbs that are state predicates)   *)
(* Ring memory is followed POINTWISE: JS / JC are arbitrary (symbolic) slot numbers of the *)
(* submission / completion ring and sqCell / cqCell the content of exactly those slots;    *)
(* since JS, JC are arbitrary, what is proved of them holds of every slot.  Likewise DS,   *)
(* DC are arbitrary offsets into the outstanding windows.  Stamps are ring positions       *)
(* (the k-th entry handed out from start value s carries (s + k) mod W).                   *)
(* The application reads through the returned reference before the kernel acts again      *)
(* (AtomicReapRead discipline of Ring.tla; without it the known finding applies).          *)
(* Overridable sets: KSet (how many entries the kernel takes at once), Counters (start     *)
(* values), Rets (return values) are Int for Apalache and finite ranges for TLC            *)
(* (RingInd_MC.tla), which cross-checks this copy against Ring.tla (RingIndX.tla).         *)
(* Variants of the code as found: CqEmptyLE (`tail <= head`), PlainSub (`next - head`      *)
(* without wrapping: an underflow is a panic).  Apalache must REJECT those.                *)
EXTENDS Integers

CONSTANTS
    \* @type: Int;
    W,
    \* @type: Int;
    NS,
    \* @type: Int;
    NC,
    \* @type: Int;
    JS,
    \* @type: Int;
    JC,
    \* @type: Int;
    DS,
    \* @type: Int;
    DC,
    \* @type: Bool;
    CqEmptyLE,
    \* @type: Bool;
    PlainSub

VARIABLES
    \* @type: Int;
    sqHead,
    \* @type: Int;
    sqTail,
    \* @type: Int;
    kSqHead,
    \* @type: Int;
    kSqTail,
    \* @type: Int;
    kCqHead,
    \* @type: Int;
    kCqTail,
    \* @type: Int;
    sqCell,
    \* @type: Int;
    cqCell,
    \* @type: Int;
    wantJ,
    \* @type: Int;
    unfilled,
    \* @type: Int;
    held,
    \* @type: Int;
    nextStamp,
    \* @type: Int;
    cStamp,
    \* @type: Str;
    pc,
    \* ghosts: the FIFO abstraction in numbers
    \* @type: Int;
    out,
    \* @type: Int;
    fl,
    \* @type: Int;
    pend

vars == <<sqHead, sqTail, kSqHead, kSqTail, kCqHead, kCqTail, sqCell, cqCell, wantJ, unfilled, held, nextStamp, cStamp, pc, out, fl, pend>>

Pow2 == {1, 2, 4, 8, 16, 32, 64, 128, 256, 512, 1024, 2048, 4096, 8192, 16384, 32768}
\* Apalache: the constants are arbitrary within their types
CInitWith(le, ps) ==
    /\ W = 65536 * 65536                  \* 2^32 (written as a product: TLC cannot read the literal)
    /\ NS \in Pow2 /\ NC \in Pow2
    /\ JS \in Int /\ 0 <= JS /\ JS < NS
    /\ JC \in Int /\ 0 <= JC /\ JC < NC
    /\ DS \in Int /\ DC \in Int
    /\ CqEmptyLE = le /\ PlainSub = ps
CInit == CInitWith(FALSE, FALSE)
CInitLE == CInitWith(TRUE, FALSE)        \* the emptiness test as found
CInitPlain == CInitWith(FALSE, TRUE)     \* next - head as found
NONE == -1
PANIC == -2

KSet == Int
Counters == Int
Rets == Int

WAdd(a, k) == (a + k) % W
WSub(a, b) == ((a + W) - b) % W
InU32(x) == 0 <= x /\ x < W

---------------------------------------------------------------------------
\* the two tests of the code, shared by the actions and by the property clauses
GetPanics == PlainSub /\ WAdd(sqTail, 1) < kSqHead                     \* `next - head` underflows: overflow-checked builds panic
GetUsed == IF PlainSub THEN WAdd(sqTail, 1) - kSqHead ELSE WSub(WAdd(sqTail, 1), kSqHead)
CqEmpty == IF CqEmptyLE THEN kCqTail <= kCqHead ELSE kCqTail = kCqHead

Init ==
    /\ \E s \in Counters : /\ InU32(s)
                           /\ sqHead = s /\ sqTail = s /\ kSqHead = s /\ kSqTail = s /\ nextStamp = s
    /\ \E c \in Counters : /\ InU32(c)
                           /\ kCqHead = c /\ kCqTail = c /\ cStamp = c
    /\ sqCell = -1 /\ cqCell = -1 /\ wantJ = -1 /\ unfilled = 0 /\ held = -1
    /\ pc = "run" /\ out = 0 /\ fl = 0 /\ pend = 0

(* application: get_next_sqe_slot                                                           *)
(*   let next = tail.wrapping_add(1); let head = khead;                                      *)
(*   if next.wrapping_sub(head) <= ring_entries { index = tail & mask; tail = next; Some }   *)
GetSlot(r) ==
    /\ pc = "run"
    /\ LET next == WAdd(sqTail, 1) IN
       IF GetPanics
       THEN /\ r = PANIC /\ pc' = "panicked"
            /\ UNCHANGED <<sqHead, sqTail, kSqHead, kSqTail, kCqHead, kCqTail, sqCell, cqCell, wantJ, unfilled, held, nextStamp, cStamp, out, fl, pend>>
       ELSE IF GetUsed <= NS
       THEN /\ r = sqTail % NS
            /\ sqTail' = next
            /\ wantJ' = IF r = JS THEN nextStamp ELSE wantJ
            /\ unfilled' = unfilled + 1
            /\ nextStamp' = WAdd(nextStamp, 1)
            /\ out' = out + 1
            /\ UNCHANGED <<sqHead, kSqHead, kSqTail, kCqHead, kCqTail, sqCell, cqCell, held, cStamp, pc, fl, pend>>
       ELSE /\ r = NONE
            /\ UNCHANGED vars

(* application: writes the entry through the pointer it was handed (slot JS or some other) *)
FillJ ==
    /\ pc = "run" /\ wantJ # -1
    /\ sqCell' = wantJ /\ wantJ' = -1 /\ unfilled' = unfilled - 1
    /\ UNCHANGED <<sqHead, sqTail, kSqHead, kSqTail, kCqHead, kCqTail, cqCell, held, nextStamp, cStamp, pc, out, fl, pend>>
FillOther ==
    /\ pc = "run" /\ unfilled > (IF wantJ # -1 THEN 1 ELSE 0)
    /\ unfilled' = unfilled - 1
    /\ UNCHANGED <<sqHead, sqTail, kSqHead, kSqTail, kCqHead, kCqTail, sqCell, cqCell, wantJ, held, nextStamp, cStamp, pc, out, fl, pend>>

(* application: flush_submission_queue (only with every handed-out slot filled)              *)
(*   let tail = self.tail; if self.head != tail { self.head = tail; ktail.store(tail) }      *)
(*   tail.wrapping_sub(khead)                                                                *)
Flush(r) ==
    /\ pc = "run" /\ unfilled = 0
    /\ LET tail == sqTail
           kt2  == IF sqHead # tail THEN tail ELSE kSqTail IN
       /\ sqHead' = tail
       /\ kSqTail' = kt2
       /\ r = WSub(tail, kSqHead)
       /\ fl' = out
    /\ UNCHANGED <<sqTail, kSqHead, kCqHead, kCqTail, sqCell, cqCell, wantJ, unfilled, held, nextStamp, cStamp, pc, out, pend>>

Min(a, b) == IF a < b THEN a ELSE b
(* kernel: consumes k of the entries it sees (tail - head, at most the ring size) *)
Consume(k) ==
    /\ pc = "run" /\ held = -1
    /\ 1 <= k /\ k <= Min(WSub(kSqTail, kSqHead), NS)
    /\ kSqHead' = WAdd(kSqHead, k)
    /\ out' = out - k /\ fl' = fl - k
    /\ UNCHANGED <<sqHead, sqTail, kSqTail, kCqHead, kCqTail, sqCell, cqCell, wantJ, unfilled, held, nextStamp, cStamp, pc, pend>>

(* kernel: posts k completions into free completion slots (size - (tail - head)) *)
Post(k) ==
    /\ pc = "run" /\ held = -1
    /\ 1 <= k /\ k <= NC - WSub(kCqTail, kCqHead)
    /\ LET i == ((JC + NC) - (kCqTail % NC)) % NC IN       \* which of the k writes hits slot JC
       cqCell' = IF i < k THEN WAdd(cStamp, i) ELSE cqCell
    /\ kCqTail' = WAdd(kCqTail, k)
    /\ cStamp' = WAdd(cStamp, k)
    /\ pend' = pend + k
    /\ UNCHANGED <<sqHead, sqTail, kSqHead, kSqTail, kCqHead, sqCell, wantJ, unfilled, held, nextStamp, pc, out, fl>>

(* application: get_next_cqe                                                                 *)
(*   tail = ktail; head = khead; if tail == head {None}                                      *)
(*   else { cqe = &cqes[head & mask]; khead.fetch_add(1); Some(cqe) }                        *)
Reap(r) ==
    /\ pc = "run" /\ held = -1
    /\ IF CqEmpty
       THEN /\ r = NONE /\ UNCHANGED vars
       ELSE /\ r = kCqHead % NC
            /\ held' = r
            /\ kCqHead' = WAdd(kCqHead, 1)
            /\ pend' = pend - 1
            /\ UNCHANGED <<sqHead, sqTail, kSqHead, kSqTail, kCqTail, sqCell, cqCell, wantJ, unfilled, nextStamp, cStamp, pc, out, fl>>

(* application: reads the completion through the reference *)
Read ==
    /\ pc = "run" /\ held # -1
    /\ held' = -1
    /\ UNCHANGED <<sqHead, sqTail, kSqHead, kSqTail, kCqHead, kCqTail, sqCell, cqCell, wantJ, unfilled, nextStamp, cStamp, pc, out, fl, pend>>

Next ==
    \/ \E r \in Rets : GetSlot(r)
    \/ FillJ \/ FillOther
    \/ \E r \in Rets : Flush(r)
    \/ \E k \in KSet : Consume(k)
    \/ \E k \in KSet : Post(k)
    \/ \E r \in Rets : Reap(r)
    \/ Read

---------------------------------------------------------------------------
(* The inductive invariant *)
\* where slot JS lies in the outstanding window that starts at kSqHead (offset 0..NS-1), and the position there
OffS == ((JS + NS) - (kSqHead % NS)) % NS
PosS == WAdd(kSqHead, OffS)
OffC == ((JC + NC) - (kCqHead % NC)) % NC
PosC == WAdd(kCqHead, OffC)

IndInv ==
    /\ pc = "run"
    /\ InU32(sqHead) /\ InU32(sqTail) /\ InU32(kSqHead) /\ InU32(kSqTail) /\ InU32(kCqHead) /\ InU32(kCqTail)
    /\ InU32(nextStamp) /\ InU32(cStamp)
    \* submission ring: kSqHead <= kSqTail = sqHead <= sqTail, all within NS of the kernel head (mod W)
    /\ 0 <= fl /\ fl <= out /\ out <= NS
    /\ WSub(sqTail, kSqHead) = out
    /\ WSub(kSqTail, kSqHead) = fl
    /\ kSqTail = sqHead
    /\ nextStamp = sqTail
    /\ 0 <= unfilled /\ unfilled <= out - fl
    /\ (wantJ # -1) => unfilled >= 1
    \* the content of slot JS
    /\ (OffS < fl) => (sqCell = PosS /\ wantJ = -1)                              \* flushed: filled with its position
    /\ (fl <= OffS /\ OffS < out) => ((wantJ = -1 /\ sqCell = PosS) \/ wantJ = PosS) \* handed out: filled or to be filled
    /\ (OffS >= out) => wantJ = -1                                               \* free
    \* completion ring
    /\ 0 <= pend /\ pend <= NC
    /\ WSub(kCqTail, kCqHead) = pend
    /\ cStamp = kCqTail
    /\ (OffC < pend) => cqCell = PosC                                            \* posted, not returned: what the kernel wrote
    /\ held >= -1 /\ held < NC
    /\ (held # -1) => (/\ pend <= NC - 1
                       /\ held = WSub(kCqHead, 1) % NC
                       /\ (held = JC => cqCell = WSub(kCqHead, 1)))                \* the held reference still shows its completion

\* Apalache: an arbitrary state satisfying the invariant
IndInit ==
    /\ sqHead \in Int /\ sqTail \in Int /\ kSqHead \in Int /\ kSqTail \in Int /\ kCqHead \in Int /\ kCqTail \in Int
    /\ sqCell \in Int /\ cqCell \in Int /\ wantJ \in Int /\ unfilled \in Int /\ held \in Int
    /\ nextStamp \in Int /\ cStamp \in Int /\ out \in Int /\ fl \in Int /\ pend \in Int
    /\ pc \in {"run", "panicked"}
    /\ IndInv

---------------------------------------------------------------------------
(* The property-level clauses of RingAbs that are state predicates, in this vocabulary *)
GetRefuses == GetUsed > NS          \* get_next_sqe_slot would answer None
ReapRefuses == CqEmpty             \* get_next_cqe would answer None
Props ==
    \* a slot is refused only when all NS slots are outstanding
    /\ ~GetPanics
    /\ GetRefuses => out = NS
    \* no slot is handed out again before the kernel consumed it: the slot get_next_sqe_slot would hand out
    \* is the slot of no outstanding position (DS: an arbitrary offset into the outstanding window)
    /\ (~GetRefuses /\ 0 <= DS /\ DS < out) => (WAdd(kSqHead, DS) % NS # sqTail % NS)
    \* a flushed entry is visible to the kernel, and the kernel sees nothing that was not flushed
    /\ Min(WSub(kSqTail, kSqHead), NS) = fl
    \* in order, exactly once: the entry the kernel consumes next, if it lies in slot JS, is the one stamped with that position
    /\ (fl > 0 /\ kSqHead % NS = JS) => sqCell = kSqHead
    \* distinct outstanding positions lie in distinct slots (nothing is overwritten before it is consumed)
    /\ (0 <= DS /\ DS < out /\ WAdd(kSqHead, DS) % NS = JS) => DS = OffS
    \* a pending completion is never refused
    /\ (pend > 0) => ~ReapRefuses
    \* the completion returned next, if it lies in slot JC, carries what the kernel wrote for that position
    /\ (pend > 0 /\ kCqHead % NC = JC) => cqCell = kCqHead
    \* the kernel never posts over a completion that was not returned (DC: arbitrary offset into the pending window)
    /\ (pend < NC /\ 0 <= DC /\ DC < pend) => (WAdd(kCqHead, DC) % NC # kCqTail % NC)
    \* what the application reads through the reference is the completion it was returned
    /\ (held # -1 /\ held = JC) => cqCell = WSub(kCqHead, 1)
    /\ pc = "run"

\* anti-vacuity probes: Apalache must find a state satisfying IndInv in which each holds (run as --inv=~Probe)
ProbeSat == TRUE
ProbeSqFullAcrossWrap == out = NS /\ sqTail < kSqHead
ProbeCqPendingAcrossWrap == pend > 0 /\ kCqTail < kCqHead
ProbeHeldJ == held = JC /\ held # -1 /\ pend > 0
NotProbeSat == ~ProbeSat
NotProbeSqFullAcrossWrap == ~ProbeSqFullAcrossWrap
NotProbeCqPendingAcrossWrap == ~ProbeCqPendingAcrossWrap
NotProbeHeldJ == ~ProbeHeldJ
=============================================================================
