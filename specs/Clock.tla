------------------------------- MODULE Clock -------------------------------
(***************************************************************************)
(* C19, second clause: successive readings of the monotonic clock never    *)
(* decrease and sleep(d) returns no earlier than d.                        *)
(*                                                                         *)
(* The clock is a hidden, never-decreasing counter `now` (abstract ticks). *)
(* Observers are LANES: a lane is a sequence of events that is totally     *)
(* ordered by happens-before (one thread's own events; or readings taken   *)
(* inside critical sections of one lock).  Nothing is assumed about the    *)
(* order of events of different lanes.                                     *)
(*   Tick           the clock advances                                      *)
(*   Read(l)        lane l observes the clock: its observation is `now`    *)
(*   SleepBegin(l,d) lane l reads the clock and starts sleeping for d:     *)
(*                  sleep(d) is a LOOP of nanosleep calls, the first one   *)
(*                  requesting d                                            *)
(*   Interrupt(l)   a signal ends the pending nanosleep call early (EINTR);*)
(*                  the kernel reports the remainder of THAT call and the  *)
(*                  loop restarts with exactly the remainder                *)
(*   SleepEnd(l)    the pending call has run its full request: sleep       *)
(*                  returns; the lane reads the clock                       *)
(* Properties (checked by TLC on small bounds, Clock_MC.cfg):              *)
(*   ReadMonotone   what a lane observes never decreases                    *)
(*   SleepLower     a sleep that has returned lasted at least d             *)
(* ClockTrace.tla validates recorded readings / sleeps of the real code    *)
(* against exactly these two properties (a lower bound only, never an      *)
(* upper bound on a sleep).                                                 *)
(***************************************************************************)
EXTENDS Integers
CONSTANTS Lanes, MaxNow, Durs
VARIABLES now, seen, sleeping, prev, lastSleep
cvars == <<now, seen, sleeping, prev, lastSleep>>

\* start/d: the sleep(d) call; cstart/req: the pending nanosleep call
NoSleep == [on |-> FALSE, start |-> 0, d |-> 0, cstart |-> 0, req |-> 0]
Init == /\ now = 0
        /\ seen = [l \in Lanes |-> 0]
        /\ prev = [l \in Lanes |-> 0]
        /\ sleeping = [l \in Lanes |-> NoSleep]
        /\ lastSleep = [l \in Lanes |-> [start |-> 0, d |-> 0, end |-> 0]]
Tick == /\ now < MaxNow /\ now' = now + 1
        /\ UNCHANGED <<seen, sleeping, prev, lastSleep>>
Read(l) == /\ ~sleeping[l].on
           /\ prev' = [prev EXCEPT ![l] = seen[l]]
           /\ seen' = [seen EXCEPT ![l] = now]
           /\ UNCHANGED <<now, sleeping, lastSleep>>
SleepBegin(l, d) == /\ ~sleeping[l].on
                    /\ sleeping' = [sleeping EXCEPT ![l] = [on |-> TRUE, start |-> now, d |-> d, cstart |-> now, req |-> d]]
                    /\ prev' = [prev EXCEPT ![l] = seen[l]]
                    /\ seen' = [seen EXCEPT ![l] = now]
                    /\ UNCHANGED <<now, lastSleep>>
\* Err(EINTR) => continue, with the remainder the kernel wrote back
Interrupt(l) == /\ sleeping[l].on
                /\ now < sleeping[l].cstart + sleeping[l].req
                /\ sleeping' = [sleeping EXCEPT ![l].cstart = now,
                                                ![l].req = sleeping[l].cstart + sleeping[l].req - now]
                /\ UNCHANGED <<now, seen, prev, lastSleep>>
SleepEnd(l) == /\ sleeping[l].on
               /\ now >= sleeping[l].cstart + sleeping[l].req
               /\ sleeping' = [sleeping EXCEPT ![l] = NoSleep]
               /\ lastSleep' = [lastSleep EXCEPT ![l] = [start |-> sleeping[l].start, d |-> sleeping[l].d, end |-> now]]
               /\ prev' = [prev EXCEPT ![l] = seen[l]]
               /\ seen' = [seen EXCEPT ![l] = now]
               /\ UNCHANGED now
Next == Tick \/ \E l \in Lanes : Read(l) \/ SleepEnd(l) \/ Interrupt(l) \/ \E d \in Durs : SleepBegin(l, d)

ReadMonotone == \A l \in Lanes : prev[l] <= seen[l]
SleepLower == \A l \in Lanes : lastSleep[l].end >= lastSleep[l].start + lastSleep[l].d
\* why it holds: restarting with the remainder never moves the deadline
DeadlineKept == \A l \in Lanes : sleeping[l].on => sleeping[l].cstart + sleeping[l].req = sleeping[l].start + sleeping[l].d
=============================================================================
