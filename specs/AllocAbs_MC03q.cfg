\* C03 design model (quick): every C03 invariant of AllocAbs on a 12-byte arena, 2 blocks
CONSTANTS
  Arena = 12
  Huge = 6
  Gran = 4
  Slack = 0
  DirectMap = 1000
  EnvK = 2
  EnvC = 8
  HoleCap = 0
  Ids = {1, 2}
  Sizes = {3, 6}
  Aligns = {1, 4}
  MapSizes = {4, 8}
  Page = 4
  MaxOs = 2
  MaxReps = 0
  Base0 = 2
  TrackC04 = FALSE
  Disciplined = FALSE
INIT Init
NEXT Next
INVARIANTS TypeOK Aligned Disjoint Accessible Intact NullJustified OomClean ReleaseOnce
           AlignedStep DisjointStep AccessibleStep
CHECK_DEADLOCK FALSE
