---------------------------- MODULE StartupData ----------------------------
(* Bounded domains shared by Startup_MC (exhaustive configurations) and StartupGen (cases   *)
(* for the real probe); cfg files cannot express nested tuples.                              *)
EXTENDS Integers, Sequences
EQ_ == 61
A == 65
B == 66
C == 67
D == 68
x == 120
y == 121
a == 97
b == 98
FF == 255
Long == [i \in 1..200 |-> 76]

NamesQ == {<<>>, <<A>>, <<A, B>>, <<A, B, C>>, <<B>>}
ValuesQ == {<<>>, <<x>>, <<EQ_, y>>, <<a, EQ_, b>>}
NoEqQ == {<<>>, <<A>>, <<A, B>>}                      \* entries without '='
EntriesQ == {n \o <<EQ_>> \o v : n \in NamesQ, v \in ValuesQ} \cup NoEqQ
KeysQ == {<<>>, <<A>>, <<A, B>>, <<A, B, C>>, <<A, B, C, D>>, <<B>>, <<C>>,
          \* keys no name can equal: with '=' and with an embedded NUL
          <<A, EQ_>>, <<EQ_, A>>, <<EQ_>>, <<A, 0>>, <<0>>, <<A, EQ_, x, 0, B>>}

\* duplicates whose first / later matching entry has a non-UTF-8 value (var must convert the FIRST match)
EntriesU == {<<A, EQ_, FF>>, <<A, EQ_, x>>, <<A, B, EQ_, FF>>, <<A, B, EQ_, y>>, <<B, EQ_, x>>}
KeysU == {<<A>>, <<A, B>>, <<B>>, <<C>>}

\* for the boot / args walks the contents matter little: few strings, all lengths 0..3
ArgStrs == {<<>>, <<a>>, <<FF>>}
ArgvsQ == UNION {[1..k -> ArgStrs] : k \in 0..3}
EntriesBoot == {<<A, EQ_, x>>, <<A>>, <<>>}
\* aux vectors: empty; a realistic one (keys the code collects, keys it ignores incl. > 51, value 0);
\* one with only ignored keys; one with the collected keys in another order
AuxvsQ == { <<>>,
            << <<33, 900>>, <<51, 3>>, <<16, 7>>, <<6, 4096>>, <<17, 100>>, <<3, 64>>, <<4, 56>>, <<5, 11>>,
               <<7, 500>>, <<8, 0>>, <<9, 77>>, <<11, 1000>>, <<12, 1001>>, <<13, 100>>, <<14, 101>>,
               <<23, 0>>, <<25, 40>>, <<26, 2>>, <<31, 41>>, <<15, 42>>, <<27, 28>>, <<28, 32>> >>,
            << <<6, 4096>>, <<51, 3>>, <<52, 9>>, <<64, 1>> >>,
            << <<31, 5>>, <<25, 6>>, <<13, 7>>, <<11, 8>>, <<7, 9>>, <<5, 10>>, <<4, 11>>, <<3, 12>>, <<23, 1>>, <<33, 13>> >> }
AuxOne == { << <<11, 1000>>, <<13, 100>>, <<52, 1>> >> }
ArgvOne == { << <<a>> >> }
=============================================================================
