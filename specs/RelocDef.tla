------------------------------ MODULE RelocDef ------------------------------
(* C07 - static-PIE self-relocation, PROPERTY LEVEL (shared by Reloc.tla and RelocJudge.tla). *)
(* A REL table is a sequence of [off, info], a RELA table a sequence of [off, info, addend],  *)
(* memory a function word-offset -> value.  Relocated(mem, base, rel, rela) is the image the  *)
(* ELF ABI prescribes: the word of every R_X86_64_RELATIVE entry holds base + addend (RELA)   *)
(* resp. its link-time content + base (REL), every other word is untouched.                   *)
EXTENDS Integers, Sequences, FiniteSets
DT_NULL == 0
DT_RELA == 7
DT_RELASZ == 8
DT_REL == 17
DT_RELSZ == 18
PT_DYNAMIC == 2
R_RELATIVE == 8          \* x86_64: info = (sym 0, type 8)
REL_ENTRY == 16          \* size_of::<Elf64Rel>()
RELA_ENTRY == 24         \* size_of::<Elf64Rela>()

\* ---- property level ------------------------------------------------------------------------
IsRelative(e) == e.info = R_RELATIVE
RelaTargets(rela) == {k \in 1..Len(rela) : IsRelative(rela[k])}
RelTargets(rel) == {k \in 1..Len(rel) : IsRelative(rel[k])}
\* The two kinds of entry differ in WHERE the addend lives, and therefore in what happens to the place:
\*   REL  (implicit addend): the addend is the link-time content of the place  -> the place is ADDED to:  place + base
\*   RELA (explicit addend): the addend is in the entry                        -> the place is OVERWRITTEN: base + addend,
\*        whatever the place held before (zero in default links, the addend itself with `--apply-dynamic-relocs`)
RelApplied(place, base) == place + base
RelaApplied(place, base, addend) == base + addend
Relocated(mem, base, rel, rela) ==
    [w \in DOMAIN mem |->
        IF \E k \in RelaTargets(rela) : rela[k].off = w
        THEN RelaApplied(mem[w], base, rela[CHOOSE k \in RelaTargets(rela) : rela[k].off = w].addend)
        ELSE IF \E k \in RelTargets(rel) : rel[k].off = w
        THEN RelApplied(mem[w], base)
        ELSE mem[w]]
\* every word is the target of at most one RELATIVE entry (what link editors produce)
TargetsDistinct(rel, rela) ==
    /\ \A j, k \in RelaTargets(rela) : rela[j].off = rela[k].off => j = k
    /\ \A j, k \in RelTargets(rel) : rel[j].off = rel[k].off => j = k
    /\ \A j \in RelaTargets(rela), k \in RelTargets(rel) : rela[j].off # rel[k].off

=============================================================================
