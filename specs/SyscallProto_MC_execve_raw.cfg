CONSTANTS
  RawDom <- Dom
  Idiom = "execve_raw"
  MaxIssues = 3
SPECIFICATION Spec
INVARIANTS TypeOK ReturnConforms LimitConforms
CHECK_DEADLOCK FALSE
