----------------------------- MODULE StrlenGen -----------------------------
(* X02: every byte string of length <= MaxLen over Alpha; both loops of strlen.rs run as a  *)
(* machine (one byte read per step); invariants: the machine never reads a byte the          *)
(* definition does not allow, its result is the definition's; vectors printed at the end.   *)
EXTENDS Strlen, Json, SequencesExt
CONSTANTS Alpha, MaxLen
VARIABLES b, ph, bounded, ind, res, maxread
vars == <<b, ph, bounded, ind, res, maxread>>
Init == b = <<>> /\ ph = "build" /\ bounded \in BOOLEAN /\ ind = 0 /\ res = <<0>> /\ maxread = 0
Extend == /\ ph = "build" /\ Len(b) < MaxLen /\ \E x \in Alpha : b' = Append(b, x)
          /\ UNCHANGED <<ph, bounded, ind, res, maxread>>
Go == /\ ph = "build" /\ (bounded \/ Nuls(b) # {}) /\ ph' = "run"
      /\ UNCHANGED <<b, bounded, ind, res, maxread>>
Step == /\ ph = "run" /\ res = <<0>>
        /\ LET n == LoopStep(b, ind, bounded)
           IN ind' = n.ind /\ res' = n.res /\ maxread' = IF n.read > maxread THEN n.read ELSE maxread
        /\ UNCHANGED <<b, ph, bounded>>
Done == ph = "run" /\ res # <<0>> /\ UNCHANGED vars
Next == Extend \/ Go \/ Step \/ Done
NoOverRead == maxread <= MayRead(b)
ResultIsDefinition == (ph = "run" /\ res # <<0>>) => res = (IF bounded THEN BufStrlen(b) ELSE StrlenDef(b))
Emit == ~(ph = "run" /\ res # <<0>> /\ bounded) \/
        PrintT(<<"S", ToJson([b |-> b, buf_strlen |-> BufStrlen(b),
                              strlen |-> IF Nuls(b) = {} THEN <<>> ELSE StrlenDef(b)])>>)
=============================================================================
