CONSTANTS Fds = {0, 1, 2}
SPECIFICATION Spec
INVARIANTS ProbeDone
CHECK_DEADLOCK FALSE
