INIT Init
NEXT Next
INVARIANT Done
CHECK_DEADLOCK FALSE
