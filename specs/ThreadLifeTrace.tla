--------------------------- MODULE ThreadLifeTrace ---------------------------
(* Property-level trace specification for tiny-std threads (C05, C06).                      *)
(*                                                                                          *)
(* Input (IOEnv.TRACE): ndjson, one abstract event per line, produced by                    *)
(* lib/checks/thr_common.py from what the probe recorded of the REAL code (probe events,    *)
(* allocator wrapper events, protocol points, strace).  One run = the life of one thread    *)
(* (spawn .. quiescence), runs are separated by "reset" events; a "batch" event carries the *)
(* process-level observations of a batch.  Nothing here knows the algorithm of spawn.rs:    *)
(* the state is what the property statements talk about -                                   *)
(*   ran      how often the closure ran                                                     *)
(*   fin      "no" | "ret" | "panic"                                                        *)
(*   spawned  "no" | "ok" | "err"        (what spawn returned)                              *)
(*   hs       handle: "none" | "held" | "injoin" | "indrop" | "joined" | "dropped"          *)
(*   st[r]    resource r \in Res: "none" | "live" | "freed"; nval/nvalfreed: heap blocks    *)
(*            owned by the closure's return value                                           *)
(*   synced   the handle owner has performed an acquire load of the exit word that read 0   *)
(*   exitSeen the exit word was seen 0 (by anybody's observation) - the thread is gone      *)
(* The specification is a monitor: every event is consumed, a broken rule appends           *)
(* <<run, index, rule>> to `viol`; the run is accepted iff it contributes nothing to viol.  *)
(* Rules (C05): RunsOnce, JoinAfterFinish, JoinValue, ResultVisible, SpawnFailsCleanly,     *)
(* JoinTerminates.  Rules (C06): ReleasedExactlyOnce, NoUseAfterRelease (incl. the kernel's *)
(* clear-tid store), ReleasedOnlyAfterExit, StackUnmappedByOwnerLast, ClosureFreedUnless-   *)
(* Panic, ResultDropped, nothing leaked at quiescence, BaselineRestored.                    *)
EXTENDS Naturals, Sequences, TLC, Json, IOUtils

Rec == ndJsonDeserialize(IOEnv.TRACE)
N == Len(Rec)

Res == {"tsm", "tls", "closure", "stack"}

VARIABLES i, run, ran, fin, spawned, hs, st, relby, nval, nvalfreed, synced, exitSeen, dvd,
          dvgiven, viol, accepted, nruns, nother, notherfreed, tok, tokd
vars == <<i, run, ran, fin, spawned, hs, st, relby, nval, nvalfreed, synced, exitSeen, dvd,
          dvgiven, viol, accepted, nruns, nother, notherfreed, tok, tokd>>

Fresh ==
    /\ ran = 0 /\ fin = "no" /\ spawned = "no" /\ hs = "none"
    /\ st = [r \in Res |-> "none"] /\ relby = [r \in Res |-> "-"]
    /\ nval = 0 /\ nvalfreed = 0 /\ synced = FALSE /\ exitSeen = FALSE /\ dvd = 0 /\ dvgiven = FALSE
    /\ nother = 0 /\ notherfreed = 0 /\ tok = FALSE /\ tokd = 0

Init ==
    /\ i = 1 /\ run = 0 /\ viol = <<>> /\ accepted = 0 /\ nruns = 0
    /\ Fresh

\* rules broken by event e in the current state: a set of rule names
Broken(e) ==
    CASE e.e = "acq" ->
            IF e.r \in Res /\ st[e.r] # "none" THEN {"acquired_twice_" \o e.r} ELSE {}
      [] e.e = "run" ->
            IF ran >= 1 THEN {"closure_ran_twice"} ELSE {}
      [] e.e = "touch" ->
            \* any access to the join block by the handle owner (H), the thread (T)
            (IF st["tsm"] = "freed" THEN {"use_after_release_tsm_by_" \o e.by} ELSE {})
            \cup
            \* the handle owner reads the result slot: the thread must have exited
            \* (exit word observed 0 at that moment) - otherwise it reads a slot that may still be written
            (IF e.by = "H" /\ e.what = "read_slot" /\ e.word = 1 THEN {"slot_read_before_thread_exit"} ELSE {})
            \cup
            (IF e.by = "H" /\ e.what = "free" /\ e.word = 1 THEN {"tsm_released_before_thread_exit"} ELSE {})
      [] e.e = "rel" ->
            IF e.r \in Res
            THEN (IF st[e.r] # "live" THEN {"released_twice_" \o e.r} ELSE {})
                 \cup (IF e.by = "X" THEN {"released_by_stranger_" \o e.r} ELSE {})
            ELSE IF e.r = "val" /\ nvalfreed >= nval THEN {"released_twice_val"} ELSE {}
      [] e.e = "badfree" -> {"bad_free_" \o e.r}
      [] e.e = "spawn" ->
            \* an Err must not be followed by a running closure, checked at `run`/`end`
            {}
      [] e.e = "ret" ->
            IF e.op = "join"
            THEN (IF fin = "no" THEN {"join_returned_before_closure_finished"} ELSE {})
                 \cup (IF fin = "ret" /\ e.res = "none" THEN {"join_none_but_closure_returned"} ELSE {})
                 \cup (IF fin = "panic" /\ e.res = "some" THEN {"join_some_but_closure_panicked"} ELSE {})
                 \cup (IF e.res = "some" /\ ~e.val_ok THEN {"join_wrong_value"} ELSE {})
                 \* visibility is promised for the Some case (closure returned)
                 \cup (IF fin = "ret" /\ e.res = "some" /\ ~e.eff_ok THEN {"effects_not_visible_after_join"} ELSE {})
                 \cup (IF e.hb /\ fin = "ret" /\ e.res = "some" /\ ~synced THEN {"no_happens_before_exit_to_join"} ELSE {})
            ELSE {}
      [] e.e = "vdrop" ->
            IF dvd >= 1 THEN {"result_dropped_twice"} ELSE {}
      [] e.e = "texit" ->
            \* strace summary of the thread's own system calls (flag = information available)
            IF ~e.flag THEN {}
            ELSE (IF e.own # 1 THEN {"stack_not_unmapped_exactly_once_by_owner"} ELSE {})
                 \cup (IF e.foreign # 0 THEN {"stack_unmapped_by_stranger"} ELSE {})
                 \cup (IF e.own = 1 /\ ~e.last THEN {"stack_unmap_is_not_last_action"} ELSE {})
                 \cup (IF e.own = 1 /\ ~e.whole THEN {"stack_unmapped_partially"} ELSE {})
                 \cup (IF relby["tsm"] = "T" /\ ~e.disarmed THEN {"cleartid_armed_on_freed_tsm"} ELSE {})
                 \cup (IF relby["tsm"] # "T" /\ e.disarmed THEN {"cleartid_disarmed_but_owner_waits"} ELSE {})
      \* the closure found a value it owns (captured by value) at an address its type does not allow,
      \* or with other content than it was given: it does not run on what was passed to spawn
      [] e.e = "tokdrop" -> IF tokd >= 1 THEN {"closure_captures_dropped_twice"} ELSE {}
      [] e.e = "capbad" -> {"closure_capture_misplaced_or_corrupted"}
      [] e.e = "timeout" -> {"hang_in_" \o e.op}
      [] e.e = "crash" -> {"crash"}
      [] e.e = "end" ->
            \* quiescence: every thread is gone, every handle consumed (or deliberately kept).
            \* e.quiet = FALSE: the run was cut short (hang, or stopped on purpose after an early
            \* join before the thread could use released memory) - nothing can be said about leaks
            IF ~e.quiet THEN (IF hs \in {"injoin", "indrop"} THEN {"handle_operation_never_returned"} ELSE {}) ELSE
            (IF spawned = "ok" /\ ran = 0 THEN {"closure_never_ran"} ELSE {})
            \cup (IF spawned = "err" /\ ran > 0 THEN {"closure_ran_but_spawn_failed"} ELSE {})
            \cup (IF hs \in {"injoin", "indrop"} THEN {"handle_operation_never_returned"} ELSE {})
            \cup {"leak_" \o r : r \in {x \in {"tsm", "tls"} : st[x] = "live" /\ ~(e.kept /\ x = "tsm")}}
            \cup (IF e.sys /\ st["stack"] = "live" THEN {"leak_stack"} ELSE {})
            \cup (IF st["closure"] = "live" /\ fin # "panic" THEN {"leak_closure"} ELSE {})
            \cup (IF nvalfreed < nval /\ fin = "ret" /\ hs \in {"joined", "dropped"} THEN {"result_not_dropped"} ELSE {})
            \* r = "other": a heap block spawn allocated that has none of the announced roles (e.g. a
            \* block allocated on a path that returns before its role is announced): it belongs to the
            \* runtime like the others and must be gone at quiescence, whatever spawn returned
            \cup (IF notherfreed < nother THEN {"leak_spawn_block"} ELSE {})
            \* what the closure OWNS (a captured token whose destructor reports itself): dropped exactly
            \* once when the closure was consumed - it ran to its end, or spawn failed and gave it up;
            \* only a closure that panicked keeps it for ever
            \cup (IF tok /\ tokd = 0 /\ (spawned = "err" \/ (spawned = "ok" /\ fin = "ret")) THEN {"closure_captures_not_dropped"} ELSE {})
            \cup (IF e.dv /\ fin = "ret" /\ hs \in {"joined", "dropped"} /\ dvd = 0 THEN {"result_not_dropped"} ELSE {})
      [] e.e = "batch" ->
            (IF e.badfree > 0 THEN {"bad_free_unattributed"} ELSE {})
            \cup (IF e.left > 0 THEN {"heap_not_back_at_baseline"} ELSE {})
            \cup (IF e.threads # e.threads0 THEN {"threads_left_behind"} ELSE {})
            \cup (IF e.growth * 2 > e.n /\ e.n >= 500 THEN {"mapped_memory_grows_with_thread_count"} ELSE {})
            \cup (IF e.stacks # 0 THEN {"stack_mappings_left_behind"} ELSE {})
            \* quiet race batches: joins that returned None or a wrong value / invisible effect
            \cup (IF e.badjoin > 0 THEN {"join_wrong_value"} ELSE {})
      [] OTHER -> {}

Apply(e) ==
    /\ ran' = IF e.e = "run" THEN ran + 1 ELSE ran
    /\ fin' = IF e.e = "fin" THEN e.how ELSE fin
    /\ spawned' = IF e.e = "spawn" THEN (IF e.ok THEN "ok" ELSE "err") ELSE spawned
    /\ hs' = CASE e.e = "spawn" /\ e.ok -> "held"
               [] e.e = "call" -> IF e.op = "join" THEN "injoin" ELSE "indrop"
               [] e.e = "ret" -> IF e.op = "join" THEN "joined" ELSE "dropped"
               [] OTHER -> hs
    /\ st' = CASE e.e = "acq" /\ e.r \in Res -> [st EXCEPT ![e.r] = "live"]
               [] e.e = "rel" /\ e.r \in Res -> [st EXCEPT ![e.r] = "freed"]
               [] OTHER -> st
    /\ relby' = IF e.e = "rel" /\ e.r \in Res /\ st[e.r] = "live" THEN [relby EXCEPT ![e.r] = e.by] ELSE relby
    /\ nval' = IF e.e = "acq" /\ e.r = "val" THEN nval + 1 ELSE nval
    /\ nvalfreed' = IF e.e = "rel" /\ e.r = "val" THEN nvalfreed + 1 ELSE nvalfreed
    /\ nother' = IF e.e = "acq" /\ e.r = "other" THEN nother + 1 ELSE nother
    /\ notherfreed' = IF e.e = "rel" /\ e.r = "other" THEN notherfreed + 1 ELSE notherfreed
    /\ tok' = (tok \/ e.e = "tok")
    /\ tokd' = IF e.e = "tokdrop" THEN tokd + 1 ELSE tokd
    /\ synced' = (synced \/ (e.e = "xload" /\ e.val = 0 /\ e.acq))
    /\ exitSeen' = (exitSeen \/ (e.e = "xload" /\ e.val = 0))
    /\ dvd' = IF e.e = "vdrop" THEN dvd + 1 ELSE dvd
    /\ dvgiven' = dvgiven

Step ==
    /\ i <= N
    /\ LET e == Rec[i] IN
       IF e.e = "reset"
       THEN /\ run' = e.run
            /\ nruns' = nruns + 1
            /\ ran' = 0 /\ fin' = "no" /\ spawned' = "no" /\ hs' = "none"
            /\ st' = [r \in Res |-> "none"] /\ relby' = [r \in Res |-> "-"]
            /\ nval' = 0 /\ nvalfreed' = 0 /\ synced' = FALSE /\ exitSeen' = FALSE /\ dvd' = 0 /\ dvgiven' = FALSE
            /\ nother' = 0 /\ notherfreed' = 0 /\ tok' = FALSE /\ tokd' = 0
            /\ UNCHANGED <<viol, accepted>>
       ELSE /\ LET b == Broken(e) IN
                 viol' = IF b = {} THEN viol ELSE Append(viol, [run |-> run, at |-> i, rules |-> b])
            /\ Apply(e)
            /\ UNCHANGED <<run, nruns>>
            /\ accepted' = accepted
    /\ i' = i + 1

Done == i > N /\ UNCHANGED vars
Next == Step \/ Done
Spec == Init /\ [][Next]_vars

\* evaluated once, on the (single) complete behaviour
Report == <<"TLVERDICT", ToJson([events |-> N, runs |-> nruns, viol |-> viol])>>
Finished == (i > N) => PrintT(Report)
=============================================================================
