\* the algorithm as found in the pinned tree: TLC must find the prefix counterexample
CONSTANTS
  Version = "pinned"
  Argvs <- ArgvOne
  Entries <- EntriesQ
  MaxEnv = 2
  Keys <- KeysQ
  Auxvs <- AuxOne
  Fns = {"var", "var_unix"}
SPECIFICATION Spec
INVARIANTS PictureOk BootCorrect ArgsCorrect LookupCorrect ReadsInBounds
PROPERTY Terminates
