----------------------------- MODULE SyncStress -----------------------------
(* Property-level judge of the hook-free binding of C01/C02: the real Mutex / RwLock on the *)
(* real kernel futex (harness `sched real`), plus the FutexSys scenarios that tie            *)
(* rusl::futex::{futex_wait, futex_wake} to the futex semantics of Machine.tla.             *)
(*                                                                                          *)
(* Stress trace: one "sec" event per critical section with the two tickets (e, x) the       *)
(* section drew from a global counter while it was inside, its kind (w: write / mutex,      *)
(* r: read) and the value v of the protected counter it found (write sections increment     *)
(* it).  The events arrive sorted by e.  Judged while walking the trace:                    *)
(*   exclusion   no section is entered while an excluding section is open                   *)
(*               (open = entered, exit ticket not yet passed);                              *)
(*   visibility  v = number of write sections entered before (everything the previous       *)
(*               holders wrote is seen by the next holder);                                 *)
(*   panic       a lock operation panicked;                                                 *)
(*   hang        the stress did not finish (a thread stuck in lock/read/write with all      *)
(*               holders gone: lost wake-up on the real futex);                             *)
(*   futex       wait on a changed word = EAGAIN at once, wake(n) returns min(n, parked)    *)
(*               and exactly that many waiters return (Machine.tla WakeSets), timeout.      *)
EXTENDS Machine, TLC, Json, IOUtils

Rec == ndJsonDeserialize(IOEnv.TRACE)
EAGAIN == -11
EINTR == -4
ETIMEDOUT == -110
Min(a, b) == IF a < b THEN a ELSE b

VARIABLES l, open, wcount, lastE, nsec, bad

Init == l = 1 /\ open = {} /\ wcount = 0 /\ lastE = -1 /\ nsec = 0 /\ bad = <<>>

Note(code) == IF Len(bad) < 50 THEN Append(bad, [line |-> l, code |-> code]) ELSE bad

FutexWaitOk(e) ==
    IF e.word # e.exp THEN e.res = EAGAIN
    ELSE IF e.sc = "woken" THEN e.res \in {0, EAGAIN}
    ELSE IF e.timeout THEN e.res \in {ETIMEDOUT, 0, EINTR}
    ELSE e.res \in {0, EINTR}
\* (if the driver could not see every waiter parked in futex(2) the scenario is inconclusive:
\*  then only the upper bound is demanded)
FutexWakeOk(e) ==
    IF e.sc = "parked" /\ ~e.all_parked
    THEN e.res <= Min(e.n, e.parked)
    ELSE /\ e.res = Min(e.n, e.parked)
         /\ (e.sc = "parked" => e.returned = e.res)

Step ==
    /\ l <= Len(Rec)
    /\ LET e == Rec[l] IN
       CASE e.ev = "sec" ->
              LET stillOpen == {o \in open : o.x > e.e}
                  clash == \E o \in stillOpen : o.k = "w" \/ e.k = "w" IN
              /\ open' = stillOpen \cup {[x |-> e.x, k |-> e.k]}
              /\ wcount' = IF e.k = "w" THEN wcount + 1 ELSE wcount
              /\ lastE' = e.e
              /\ nsec' = nsec + 1
              /\ bad' = IF e.e <= lastE \/ e.x <= e.e THEN Note("tickets_not_ordered")
                        ELSE IF clash THEN Note("exclusion")
                        ELSE IF e.v # wcount THEN Note("visibility")
                        ELSE bad
         [] e.ev = "fwait" ->
              /\ bad' = IF FutexWaitOk(e) THEN bad ELSE Note("futex_wait")
              /\ UNCHANGED <<open, wcount, lastE, nsec>>
         [] e.ev = "fwake" ->
              /\ bad' = IF FutexWakeOk(e) THEN bad ELSE Note("futex_wake")
              /\ UNCHANGED <<open, wcount, lastE, nsec>>
         [] e.ev = "stress_end" ->
              /\ bad' = IF e.panics > 0 THEN Note("panic")
                        ELSE IF e.hang THEN Note("hang")
                        ELSE IF e.completed # e.threads * e.sections \/ nsec # e.completed THEN Note("sections_missing")
                        ELSE IF e.final # wcount THEN Note("visibility")
                        ELSE bad
              /\ UNCHANGED <<open, wcount, lastE, nsec>>
         [] OTHER -> UNCHANGED <<open, wcount, lastE, nsec, bad>>
    /\ l' = l + 1

Final ==
    /\ l = Len(Rec) + 1
    /\ PrintT(<<"STRESS", ToJson([events |-> Len(Rec), sections |-> nsec, writes |-> wcount, bad |-> bad])>>)
    /\ l' = l + 1
    /\ UNCHANGED <<open, wcount, lastE, nsec, bad>>

Next == Step \/ Final
=============================================================================
