------------------------------ MODULE CliGen ------------------------------
(* C20 model checking + B3 generator.                                                       *)
(* Init enumerates inputs for the shapes in ShapeSel:                                        *)
(*   Mode = "lists"  : every argument list of length <= MaxLen over the shape's alphabet     *)
(*   Mode = "render" : Render(shape, tv, order) for every token assignment tv over the value *)
(*                     domain and every order (permutation of the argument groups, alias    *)
(*                     choice), want = <<ValOf(tv)>>                                         *)
(* Next runs the TRANSCRIPTION of the generated matcher (Cli!MStep) on the input.  At every  *)
(* final state the invariant AtEnd computes the DEFINITION's admissible set and prints the   *)
(* vector {s, a, adm, tr, trok, rt}:  trok = transcription \in definition,  rt = round trip  *)
(* (render mode: the admissible set is exactly {Ok(want)}).  Model-level failures are not    *)
(* verdicts: the driver replays every vector into the real parser.                           *)
EXTENDS Cli, CliShapes, Json
CONSTANTS Mode, MaxLen, ShapeSel, Tier, GridTier, MaxPerm
VARIABLES sh, in, want, stk, rem, res, ph, asg, arms
vars == <<sh, in, want, stk, rem, res, ph, asg, arms>>

\* value domains of the round trip.  Tokens, not values: the expected value is ValOf(tv).
T0 == <<48>>                                  \* 0
TM1 == <<45,49>>                              \* -1
TMAX == <<50,49,52,55,52,56,51,54,52,55>>     \* 2147483647
T255 == <<50,53,53>>                          \* 255
T7 == <<55>>                                  \* 7
TE == <<>>                                    \* ""
TX == <<120>>                                 \* x
TOL == <<45,45,111,112,116,45,108,105,107,101>>   \* --opt-like
TYZ == <<121,32,122>>                         \* "y z"
\* per value-domain tier; the grid shapes (index >= GridFrom) use the next smaller tier
TierOf(s) == IF s >= GridFrom THEN GridTier ELSE Tier
IntToks(t) == IF t = "mini" THEN {TM1} ELSE IF t = "quick" THEN {TM1, T255} ELSE {T0, TM1, TMAX, T255}
StrToks(t) == IF t = "mini" THEN {TOL} ELSE IF t = "quick" THEN {TE, TOL} ELSE {TE, TOL, TYZ}
RepMax == 2
\* option-like values of a positional (the statement names "option-like values" among the inputs of
\* the round trip): dash-prefixed tokens that are not a declared literal of the positional's own
\* struct level and not a help literal, incl. a literal declared at ANOTHER (enclosing) level
TDX == <<45,45,120>>                                          \* --x
TDD == <<45,45>>                                              \* --
TD == <<45>>                                                  \* -
TOLE == <<45,45,111,112,116,45,108,105,107,101,61,49>>        \* --opt-like=1
PosExtra(t) == IF t = "mini" THEN {TDX} ELSE IF t = "quick" THEN {TDX, TD, TOL} ELSE {TDX, TDD, TD, TM1, TOL, TOLE}
LevelLits(S) == UNION {Lits(S.fields[i]) : i \in {j \in 1..NF(S) : IsOpt(S.fields[j])}}
\* the value tokens field f of struct S may take in an assignment: those its type converts; a
\* positional takes every such token except the literals of its own level and the help literals
\* (those ARE something else at that place); anc = literals declared by the enclosing levels
Dom(S, f, t, anc) ==
    LET base == IF f.ty = "int" THEN IntToks(t) ELSE StrToks(t)
        other == IF anc = {} THEN {} ELSE IF t = "thorough" THEN anc ELSE {CHOOSE x \in anc : TRUE}
        all  == IF f.kind # "positional" THEN base
                ELSE {x \in base \cup (IF f.ty = "int" THEN {T255, TM1} ELSE {TX} \cup PosExtra(t) \cup other) :
                        x \notin LevelLits(S) /\ x \notin HelpToks}
    IN IF f.ty = "int" THEN {x \in all : ParseInt(x, f.lo, f.hi).ok} ELSE all
FieldAsg(S, f, t, anc) ==
    IF f.kind = "flag" THEN {FALSE, TRUE}
    ELSE IF f.pkg = "required" THEN {<<x>> : x \in Dom(S, f, t, anc)}
    ELSE IF f.pkg = "optional" THEN {<<>>} \cup {<<x>> : x \in Dom(S, f, t, anc)}
    ELSE UNION {[1..k -> Dom(S, f, t, anc)] : k \in 0..RepMax}
RECURSIVE Prod(_)
Prod(ss) == IF ss = <<>> THEN {<<>>} ELSE {<<h>> \o t : h \in Head(ss), t \in Prod(Tail(ss))}
RECURSIVE TokAsg(_, _, _)
TokAsg(S, t, anc) ==
    LET fs == Prod([i \in 1..NF(S) |-> FieldAsg(S, S.fields[i], t, anc)])
        scs == IF ~HasSub(S) THEN {<<>>}
               ELSE (IF SubOf(S).opt THEN {<<>>} ELSE {}) \cup
                    UNION {{<<[tag |-> k, v |-> iv]>> :
                              iv \in IF SubOf(S).tags[k].inner = <<>> THEN {NoVal}
                                     ELSE TokAsg(SubOf(S).tags[k].inner[1], t, anc \cup LevelLits(S))} :
                           k \in 1..Len(SubOf(S).tags)}
    IN {[f |-> f, sc |-> sc] : f \in fs, sc \in scs}

\* orders of one level: all permutations when there are at most MaxPerm groups, else the
\* identity, the reversal and the rotations; aliases: all long, all short, alternating
PermsOf(m) ==
    IF m = 0 THEN {<<>>}
    ELSE IF m <= MaxPerm THEN {p \in [1..m -> 1..m] : \A a, b \in 1..m : a # b => p[a] # p[b]}
    ELSE {[a \in 1..m |-> ((a + k - 1) % m) + 1] : k \in 0..(m - 1)} \cup {[a \in 1..m |-> m + 1 - a]}
PermTab == [m \in 0..12 |-> PermsOf(m)]      \* evaluated once
Perms(m) == PermTab[m]
Aliases(m, both) ==
    IF m = 0 THEN {<<>>}
    ELSE IF ~both THEN {[a \in 1..m |-> "l"]}
    ELSE {[a \in 1..m |-> "l"], [a \in 1..m |-> "s"],
          [a \in 1..m |-> IF a % 2 = 0 THEN "l" ELSE "s"], [a \in 1..m |-> IF a % 2 = 0 THEN "s" ELSE "l"]}
LevelOrders(S, tv) ==
    LET sl == Slots(S, tv)
        m == Len(sl)
        both == \E a \in 1..m : S.fields[sl[a]].long # <<>> /\ S.fields[sl[a]].short # <<>>
    IN {o \in [perm : Perms(m), alias : Aliases(m, both)] : OrderValid(S, tv, o)}
RECURSIVE Orders(_, _)
Orders(S, tv) ==
    LET inner == IF tv.sc = <<>> \/ SubOf(S).tags[tv.sc[1].tag].inner = <<>> THEN {<<>>}
                 ELSE {<<o>> : o \in Orders(SubOf(S).tags[tv.sc[1].tag].inner[1], tv.sc[1].v)}
    IN [here : LevelOrders(S, tv), inner : inner]

Lists(s) == UNION {[1..k -> {Alpha[s][j] : j \in 1..Len(Alpha[s])}] : k \in 0..MaxLen}

\* lists mode builds the argument list token by token (phase "build"), render mode starts from
\* a token assignment and picks an order (phase "pick"): TLC's workers share the enumeration;
\* every list is then handed to the matcher (phase "run")
Init ==
    \E s \in ShapeSel :
        /\ sh = s /\ in = <<>> /\ want = <<>> /\ rem = <<>> /\ res = Running
        /\ stk = <<Frame0(Shapes[s], <<>>)>> /\ arms = {}
        /\ IF Mode = "lists" THEN ph = "build" /\ asg = <<>>
           ELSE ph = "pick" /\ \E tv \in TokAsg(Shapes[s], TierOf(s), {}) : asg = <<tv>>

Pick ==
    /\ ph = "pick" /\ ph' = "run" /\ asg' = <<>>
    /\ \E o \in Orders(Shapes[sh], asg[1]) :
          /\ in' = Render(Shapes[sh], asg[1], o)
          /\ rem' = in'
    /\ want' = <<ValOf(Shapes[sh], asg[1])>>
    /\ UNCHANGED <<sh, stk, res, arms>>
Extend ==
    /\ ph = "build" /\ Len(in) < MaxLen
    /\ \E j \in 1..Len(Alpha[sh]) : in' = Append(in, Alpha[sh][j])
    /\ UNCHANGED <<sh, want, stk, rem, res, ph, asg, arms>>
Go ==
    /\ ph = "build" /\ ph' = "run" /\ rem' = in
    /\ UNCHANGED <<sh, in, want, stk, res, asg, arms>>
\* the matcher: one step = one arm of the generated code (Cli!MStep names the arm it takes;
\* `arms` remembers the arms of this run - printed with the vector, so that the check can count
\* how many model runs and real runs went through every arm)
Step ==
    /\ ph = "run" /\ res = Running
    /\ LET n == MStep(Shapes[sh], stk, rem)
       IN stk' = n.stk /\ rem' = n.rem /\ res' = n.res /\ arms' = arms \cup {n.arm}
    /\ UNCHANGED <<sh, in, want, ph, asg>>
Done == res # Running /\ UNCHANGED vars
Next == Extend \/ Go \/ Pick \/ Step \/ Done

\* the machine never runs past its input: every step consumes arguments or returns a frame
Progress == (ph = "run" /\ res = Running) => Len(rem) + Len(stk) >= 1
AtEnd ==
    res = Running \/
    \* For a RENDERING the round-trip clause of the statement decides alone: the admissible set is
    \* {Ok(the assignment)} - also where the line touches a policy point (an option-like positional
    \* value), because the statement quantifies the round trip over option-like values.  rt: the
    \* definition agrees (it admits that outcome, and nothing else when no policy point is touched).
    LET def == Admissible(Shapes[sh], in)
        adm == IF want = <<>> THEN def ELSE {OkOut(want[1])}
        trok == res \in adm
        rt == want = <<>> \/ (/\ OkOut(want[1]) \in def
                             /\ (GrayDims(Shapes[sh], in) = {} => def = {OkOut(want[1])}))
    IN PrintT(<<"V", ToJson([s |-> sh, a |-> in, adm |-> SetToSeq(adm), tr |-> res,
                             trok |-> trok, rt |-> rt, w |-> want # <<>>, arms |-> SetToSeq(arms)])>>)
\* "accepts EXACTLY the command lines of its declared grammar", inside the specification: a line
\* the definition accepts (touching no undocumented point) is a rendering of the token assignment
\* read off it - for SOME order out of all permutations and all alias choices.  Together with the
\* round trip (every rendering is accepted with its value) the recognising and the generating
\* definition describe the same language on the bounded domain.
AllLevelOrders(S, tv) ==
    LET m == Len(Slots(S, tv))
    IN {o \in [perm : {q \in [1..m -> 1..m] : \A a, b \in 1..m : a # b => q[a] # q[b]},
                alias : [1..m -> {"l", "s"}]] : OrderValid(S, tv, o)}
RECURSIVE AllOrders(_, _)
AllOrders(S, tv) ==
    LET inner == IF tv.sc = <<>> \/ SubOf(S).tags[tv.sc[1].tag].inner = <<>> THEN {<<>>}
                 ELSE {<<o>> : o \in AllOrders(SubOf(S).tags[tv.sc[1].tag].inner[1], tv.sc[1].v)}
    IN [here : AllLevelOrders(S, tv), inner : inner]
InGrammar ==
    res = Running \/
    LET S == Shapes[sh]
        d == DetX(S, P0, <<>>, in, TRUE)
    IN (GrayDims(S, in) = {} /\ \E x \in d : x.ok) =>
           LET tv == (CHOOSE x \in d : x.ok).v
           IN \E o \in AllOrders(S, tv) : Render(S, tv, o) = in

\* the fast computation of the admissible set is the definition (checked in the small
\* self-check configuration)
FastIsFull == res = Running \/ Admissible(Shapes[sh], in) = AdmissibleFull(Shapes[sh], in)
=============================================================================
