------------------------------- MODULE FdOps -------------------------------
(* C12, algorithm level: the multi-call descriptor-creating operations of tiny-std / rusl as *)
(* straight-line programs of system calls with their error handling as written (explicit     *)
(* close calls on the error branch, descriptors held in OwnedFd values that are dropped on   *)
(* every return).  TLC explores every failure position of every program and checks that      *)
(* nothing the operation opened stays open and nothing is closed twice - for the programs as *)
(* they are now ("fixed") - and must find the leaks in the programs as they were in the      *)
(* pinned tree ("pinned"); each terminal state prints a vector that lib/checks/c12.py        *)
(* compares with what the real code did under the same fault (calls issued, descriptors      *)
(* closed after the failure, leak or not).                                                   *)
(*                                                                                          *)
(* A step is a record                                                                       *)
(*   n    system call name ("" = a fallible computation that is not a system call, e.g. the  *)
(*        socket address conversion, which fails for certain inputs only)                   *)
(*   mk   descriptors (variable names) the step creates when it succeeds                    *)
(*   raii TRUE if they are held in an OwnedFd from then on                                   *)
(*   ad   variables adopted into an OwnedFd by this step                                     *)
(*   cl   variables closed by this step when it succeeds (explicit close or drop)            *)
(*   of   variables closed explicitly by the error branch taken when the step fails         *)
(*   fal  can the step fail?                                                                *)
EXTENDS Integers, Sequences, FiniteSets, TLC, Json
CONSTANTS Progs      \* function: program name -> [steps: Seq(step), ret: set of variables handed over]
VARIABLES prog, pc, live, raii, failed, closedAfter, double, done

vars == <<prog, pc, live, raii, failed, closedAfter, double, done>>
Names == DOMAIN Progs
Steps(p) == Progs[p].steps

Init == /\ prog \in Names
        /\ pc = 1 /\ live = {} /\ raii = {} /\ failed = 0 /\ closedAfter = 0 /\ double = FALSE /\ done = FALSE

\* closing a set of variables: a variable that is not live any more is a double close
CloseAll(S, l) == l \ S
Twice(S, l) == S \ l # {}

Succeed ==
    /\ ~done /\ pc <= Len(Steps(prog))
    /\ LET s == Steps(prog)[pc]
       IN  /\ double' = (double \/ Twice(s.cl, live))
           /\ live' = (live \ s.cl) \cup {s.mk[k] : k \in 1..Len(s.mk)}
           /\ raii' = ((raii \cup (IF s.raii THEN {s.mk[k] : k \in 1..Len(s.mk)} ELSE {})) \cup s.ad) \ s.cl
    /\ pc' = pc + 1
    /\ UNCHANGED <<prog, failed, closedAfter, done>>

Fail ==
    /\ ~done /\ pc <= Len(Steps(prog))
    /\ Steps(prog)[pc].fal
    /\ LET s == Steps(prog)[pc]
           afterBranch == live \ s.of
       IN  /\ double' = (double \/ Twice(s.of, live))
           \* the error return drops every OwnedFd still alive
           /\ live' = afterBranch \ raii
           /\ closedAfter' = Cardinality(live \cap (s.of \cup raii))
    /\ failed' = pc /\ done' = TRUE
    /\ UNCHANGED <<prog, pc, raii>>

Finish ==
    /\ ~done /\ pc = Len(Steps(prog)) + 1
    \* the success return drops every OwnedFd that is not handed over
    /\ live' = live \ (raii \ Progs[prog].ret)
    /\ done' = TRUE
    /\ UNCHANGED <<prog, pc, raii, failed, closedAfter, double>>

Next == Succeed \/ Fail \/ Finish
Spec == Init /\ [][Next]_vars

Leaked == IF failed = 0 THEN live \ Progs[prog].ret ELSE live
SysIndex == Cardinality({k \in 1..failed : Steps(prog)[k].n # ""})
NoLeak == done => Leaked = {}
NoDouble == ~double
Emit == done => PrintT(<<"F", ToJson([prog |-> prog, failstep |-> failed,
                                     k |-> IF failed = 0 \/ Steps(prog)[failed].n = "" THEN 0 ELSE SysIndex,
                                     input |-> failed # 0 /\ Steps(prog)[failed].n = "",
                                     leaked |-> Cardinality(Leaked), closed_after |-> closedAfter, double |-> double,
                                     calls |-> [k \in 1..Len(Steps(prog)) |-> Steps(prog)[k].n]])>>)
=============================================================================
