\* the walk as found in the pinned tree on any symbol value / alignment: TLC must find an inadmissible resolution
\* (the value is rounded UP to the section alignment)
CONSTANTS
  MaxSyms = 2
  Values = {0, 8, 16, 24}
  Shndxs = {1}
  TextAligns = {1, 8, 16}
  RequireAligned = FALSE
INIT Init
NEXT Next
INVARIANTS PinnedAdmissible
CHECK_DEADLOCK FALSE
