CONSTANTS
  NS = 4
  NC = 4
  H = 8
  Side = "cq"
  SqStarts <- OneStart
  CqStarts <- AllStarts
  Wrapping = TRUE
  DebugChecks = TRUE
  CqEmptyLE = FALSE
  AtomicReapRead = FALSE
INIT Init
NEXT Next
INVARIANTS TypeOK PropertyHoldsButStaleRead CountersConsistent
CHECK_DEADLOCK FALSE
