---------------------------- MODULE ThreadLifeAlg ----------------------------
(* B2 at algorithm level: is a free-running execution of the real code a behaviour of        *)
(* ThreadLife (kernel steps separate, one spurious wake-up allowed)?                          *)
(*                                                                                            *)
(* Input (IOEnv.TRACE, ndjson): one record per recorded thread life of ONE scenario class     *)
(* (the class = the constants Prog/Fin/FailMmap/FailClone of this run):                       *)
(*   ha  the handle owner's arrivals at protocol points (model pcs, in its program order)     *)
(*   ta  the thread's arrivals                                                                *)
(*   hn  hn[i] = number of thread arrivals logged before the owner's i-th arrival             *)
(*   tn  tn[j] = number of owner arrivals logged before the thread's j-th arrival             *)
(* An arrival is logged after everything the party did before the point and before everything *)
(* it does after it, so the step a party takes from its i-th arrival happens after every step *)
(* of the other party that ended in an arrival logged earlier - that is the only ordering     *)
(* the log guarantees, and the only one imposed here.  Kernel steps and the parked state are  *)
(* not observed and are left to TLC.  A trace is accepted iff TLC reaches a state in which    *)
(* every arrival has been consumed.                                                           *)
EXTENDS ThreadLife, Json, IOUtils

Traces == ndJsonDeserialize(IOEnv.TRACE)

VARIABLES tr, ih, it
avars == <<vars, tr, ih, it>>

AInit == /\ Init
         /\ tr \in 1..Len(Traces)
         /\ ih = 1          \* the owner stands at its first arrival ("60", before spawn)
         /\ it = 0

Tr == Traces[tr]
Unobserved == {"k1", "k2", "gone", "none"}

Track ==
    /\ IF hpc' = hpc \/ hpc' = "parked"
       THEN ih' = ih
       ELSE ih < Len(Tr.ha) /\ Tr.ha[ih + 1] = hpc' /\ ih' = ih + 1
    /\ IF tpc'[1] = tpc[1] \/ tpc'[1] \in Unobserved
       THEN it' = it
       ELSE it < Len(Tr.ta) /\ Tr.ta[it + 1] = tpc'[1] /\ it' = it + 1

ANext ==
    /\ \/ (HNext /\ it >= Tr.hn[ih])
       \/ (TNext(1) /\ it >= 1 /\ ih >= Tr.tn[it])
       \/ KNext(1)
       \/ SpuriousWake
    /\ Track
    /\ tr' = tr

ASpec == AInit /\ [][ANext]_avars

Accepted == ih = Len(Tr.ha) /\ it = Len(Tr.ta)
Report == Accepted => PrintT(<<"ALGACC", tr>>)
=============================================================================
