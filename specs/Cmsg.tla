-------------------------------- MODULE Cmsg --------------------------------
(* C16 - descriptors sent as ancillary data are delivered exactly, for any count and any     *)
(* control-buffer size, without reading outside the supplied buffer.                          *)
(*                                                                                           *)
(* A control buffer is an exactly-sized array of 4-byte words (word w lives at byte offset   *)
(* 4*(w-1)); a control message is a 16-byte header (cmsg_len: 8 bytes, level: 4, type: 4)    *)
(* followed by its data, the next header starts at the next multiple of 8.                   *)
(*                                                                                           *)
(*  Kernel(fds, C, creds)  what recvmsg leaves in a C-byte control buffer when `fds` were     *)
(*                         sent with SCM_RIGHTS (net/core/scm.c: scm_detach_fds, put_cmsg):   *)
(*                         as many descriptors as fit, MSG_CTRUNC if not all, msg_controllen  *)
(*                         set to the bytes used; optionally preceded by an SCM_CREDENTIALS   *)
(*                         message (SO_PASSCRED) so that buffers with two messages occur.     *)
(*  Messages(buf, clen)    definitional: the messages CMSG_FIRSTHDR / CMSG_NXTHDR find.       *)
(*  Delivered              the descriptors in the SCM_RIGHTS messages, in order.              *)
(*                                                                                           *)
(* Theorem checked by TLC for all counts 0..MaxFds, all sizes 0..MaxC, with/without creds:   *)
(*   Delivered = the first min(n, room) of fds, MSG_CTRUNC iff something was cut, and the     *)
(*   walk never looks at a byte at or beyond clen.                                            *)
(*                                                                                           *)
(* Algorithm level: the transcription of rusl's ControlMessageIterator::next with the         *)
(* cmsg_nxthdr!/__mhdr_end! macros.  Variant "pinned": the end-of-buffer test uses the        *)
(* ADDRESS OF the msg_control field and the ADDRESS OF the local `cmsg` variable, i.e.        *)
(* `end - cmsg` is (Delta + clen) for a Delta that depends on where the two happen to live,   *)
(* not on the buffer; variant "fixed": (msg_control + clen) - cmsg.  Every header / data read  *)
(* is checked against the supplied buffer: Oob.                                               *)
EXTENDS Integers, Sequences, FiniteSets, TLC, Json
CONSTANTS MaxFds, MaxC, Variant, Deltas

HDR == 16
Align8(x) == ((x + 7) \div 8) * 8
Min(a, b) == IF a < b THEN a ELSE b
SOL_SOCKET == 1
SCM_RIGHTS == 1
SCM_CREDENTIALS == 2
Garbage == 7777                \* what unwritten words hold; never a valid length/level/type/fd

\* ------------------------------------------------------------------ the kernel side
\* writing a header + data words at byte offset off into words (only whole words inside C)
PutWords(buf, off, ws) ==
    [w \in 1..Len(buf) |-> IF w > off \div 4 /\ w <= off \div 4 + Len(ws) THEN ws[w - off \div 4] ELSE buf[w]]
HdrWords(len, level, type) == <<len, 0, level, type>>
\* put_cmsg(level, type, data) with `rem` bytes left at offset off
PutCmsg(s, level, type, data) ==
    IF s.rem < HDR THEN [s EXCEPT !.ctrunc = TRUE]
    ELSE LET full == HDR + 4 * Len(data)
             cmlen == Min(full, s.rem)
             nd == (cmlen - HDR) \div 4
             adv == Min(Align8(full), s.rem)
         IN [buf |-> PutWords(s.buf, s.off, HdrWords(cmlen, level, type) \o SubSeq(data, 1, nd)),
             off |-> s.off + adv, rem |-> s.rem - adv, ctrunc |-> s.ctrunc \/ cmlen < full, nfd |-> s.nfd]
\* scm_detach_fds
DetachFds(s, fds) ==
    LET n == Len(fds)
        fdmax == IF s.rem < HDR THEN 0 ELSE (s.rem - HDR) \div 4
        i == Min(n, fdmax)
        s1 == IF i > 0
              THEN LET cmlen == HDR + 4 * i
                       adv == Min(Align8(cmlen), s.rem)
                   IN [s EXCEPT !.buf = PutWords(s.buf, s.off, HdrWords(cmlen, SOL_SOCKET, SCM_RIGHTS) \o SubSeq(fds, 1, i)),
                                !.off = s.off + adv, !.rem = s.rem - adv, !.nfd = i]
              ELSE s
    IN [s1 EXCEPT !.ctrunc = s.ctrunc \/ i < n \/ (n > 0 /\ fdmax <= 0)]
Kernel(fds, C, creds) ==
    LET s0 == [buf |-> [w \in 1..(C \div 4) |-> Garbage], off |-> 0, rem |-> C, ctrunc |-> FALSE, nfd |-> 0]
        s1 == IF creds THEN PutCmsg(s0, SOL_SOCKET, SCM_CREDENTIALS, <<101, 102, 103>>) ELSE s0
        s2 == IF Len(fds) > 0 THEN DetachFds(s1, fds) ELSE s1
    IN [buf |-> s2.buf, clen |-> C - s2.rem, ctrunc |-> s2.ctrunc, nfd |-> s2.nfd, size |-> C]

\* ------------------------------------------------------------------ the definition
Word(buf, off) == buf[off \div 4 + 1]
LenAt(buf, o) == Word(buf, o)
LevelAt(buf, o) == Word(buf, o + 8)
TypeAt(buf, o) == Word(buf, o + 12)
FirstHdr(clen) == IF clen >= HDR THEN 0 ELSE -1
NxtHdr(buf, clen, o) ==
    IF LenAt(buf, o) < HDR \/ Align8(LenAt(buf, o)) + HDR >= clen - o THEN -1 ELSE o + Align8(LenAt(buf, o))
RECURSIVE Walk(_, _, _)
Walk(buf, clen, o) == IF o = -1 THEN <<>> ELSE <<o>> \o Walk(buf, clen, NxtHdr(buf, clen, o))
Messages(buf, clen) == Walk(buf, clen, FirstHdr(clen))          \* byte offsets of the headers
DataOf(buf, o) == [j \in 1..((LenAt(buf, o) - HDR) \div 4) |-> Word(buf, o + HDR + 4 * (j - 1))]
RECURSIVE Concat(_)
Concat(ss) == IF ss = <<>> THEN <<>> ELSE Head(ss) \o Concat(Tail(ss))
Delivered(buf, clen) ==
    Concat([j \in 1..Len(Messages(buf, clen)) |->
              LET o == Messages(buf, clen)[j] IN
              IF LevelAt(buf, o) = SOL_SOCKET /\ TypeAt(buf, o) = SCM_RIGHTS THEN DataOf(buf, o) ELSE <<>>])
\* the definitional walk stays inside [0, clen)
WalkInside(buf, clen) ==
    \A j \in 1..Len(Messages(buf, clen)) :
        LET o == Messages(buf, clen)[j] IN o + HDR <= clen /\ o + LenAt(buf, o) <= clen

\* ------------------------------------------------------------------ the iterator as coded
VARIABLES fds, k, cur, out, oob, panicked, done, delta
vars == <<fds, k, cur, out, oob, panicked, done, delta>>
FdSeq(n) == [j \in 1..n |-> 10 + j]
\* cfg files cannot hold negative numbers: Deltas is a tag
DeltaSet == IF Deltas = "layouts" THEN {-4096, 0, 8, 64, 264, 4096} ELSE {0}
Init == /\ \E n \in 0..MaxFds, C \in {4 * x : x \in 0..(MaxC \div 4)}, creds \in BOOLEAN :
             fds = FdSeq(n) /\ k = Kernel(FdSeq(n), C, creds)
        /\ delta \in DeltaSet
        /\ cur = FirstHdr(k.clen)            \* control_messages(): cmsg_firsthdr!
        /\ out = <<>> /\ oob = FALSE /\ panicked = FALSE /\ done = FALSE
\* `end - cmsg` as the macro computes it
EndMinusCmsg(o) == IF Variant = "fixed" THEN k.clen - o ELSE delta + k.clen
IterStep ==
    /\ ~done
    /\ IF cur = -1 THEN done' = TRUE /\ UNCHANGED <<cur, out, oob, panicked>>
       ELSE IF cur + HDR > k.size                        \* r.cmsg_type / cmsg_level / cmsg_len read outside the buffer
       THEN oob' = TRUE /\ done' = TRUE /\ UNCHANGED <<cur, out, panicked>>
       ELSE LET len == LenAt(k.buf, cur)
                rights == TypeAt(k.buf, cur) = SCM_RIGHTS /\ LevelAt(k.buf, cur) = SOL_SOCKET
                emc == EndMinusCmsg(cur)
                nxt == IF len < HDR \/ Align8(len) + HDR >= emc THEN -1 ELSE cur + Align8(len)
            IN IF emc < 0 \/ (rights /\ len < HDR)           \* usize subtraction underflows: panic (debug build)
               THEN panicked' = TRUE /\ done' = TRUE /\ UNCHANGED <<cur, out, oob>>
               ELSE /\ cur' = nxt
                    /\ out' = IF rights THEN out \o [j \in 1..((len - HDR) \div 4) |->
                                  IF cur + HDR + 4 * j <= k.size THEN Word(k.buf, cur + HDR + 4 * (j - 1)) ELSE Garbage]
                              ELSE out
                    /\ oob' = (rights /\ cur + len > k.size)
                    /\ done' = oob' /\ UNCHANGED panicked
    /\ UNCHANGED <<fds, k, delta>>
Next == IterStep

\* ------------------------------------------------------------------ properties
\* property level (the definition applied to what the kernel delivers)
DeliveredExactly ==
    /\ Delivered(k.buf, k.clen) = SubSeq(fds, 1, k.nfd)
    /\ WalkInside(k.buf, k.clen)
    /\ (k.nfd < Len(fds)) => k.ctrunc                         \* truncation => prefix + MSG_CTRUNC
    /\ k.clen <= k.size
\* algorithm level
NoOutOfBuffer == ~oob
NeverPanics == ~panicked
IterDeliversExactly == (done /\ ~oob /\ ~panicked) => out = SubSeq(fds, 1, k.nfd)
\* B3 vectors: the kernel-producible buffers (exactly clen bytes) with the definition's answer
EmitVec == (cur = FirstHdr(k.clen) /\ out = <<>> /\ ~done) =>
             PrintT(<<"V", ToJson([words |-> SubSeq(k.buf, 1, k.clen \div 4), expect |-> Delivered(k.buf, k.clen), n |-> Len(fds)])>>)
=============================================================================
