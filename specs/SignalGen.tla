----------------------------- MODULE SignalGen -----------------------------
(* X03 generator: random walks (tlc -simulate) at the level of the driver's operations.     *)
(* Between two operations the process is quiescent (nothing pending, no frame), so a walk    *)
(* only moves the dispositions (Install of Signal.tla) and the helper-thread flag; which     *)
(* operations make sense is decided with Signal.tla's Effect:                                *)
(*   raise         in-process when the delivery runs a handler or is discarded, in a forked  *)
(*                 copy (fork = TRUE) when the default action would terminate the process    *)
(*   raise_nested  the handler of sig raises sig2 at itself (both must not be fatal)         *)
(*   raise_async   the helper thread kill()s the process while main reads / computes         *)
(* Every walk of length Depth is printed as one plan for harness/src/bin/sigops.rs.          *)
EXTENDS Signal, TLC, Json
CONSTANTS Depth
VARIABLES helper, hist
gvars == <<vars, helper, hist>>

Log(r) == hist' = Append(hist, r)
N == Len(hist)
GInit == Init /\ helper = FALSE /\ hist = <<>>

\* the thread an operation runs on alternates with the position once the helper exists
Thr == IF helper /\ N % 2 = 1 THEN 1 ELSE 0
Eff(s) == Effect(s, disp[s])

\* TLC's simulator first picks one of the sub-actions of Next (disjuncts, with the bounded
\* quantifiers over CONSTANT sets expanded) and then one of its successors, so the number of
\* constant-level variants of an operation is its weight: an install offers two of the six
\* dispositions (rotating with the position), a raise counts twice
DispSeq == <<Dfl, [k |-> "handler", h |-> 1], [k |-> "sigaction", h |-> 1], Ign, [k |-> "handler", h |-> 2], [k |-> "sigaction", h |-> 2]>>

GNext ==
    \/ \E s \in Sigs, j \in 0..1 :
          LET d == DispSeq[((N + j) % 6) + 1] IN
          /\ Install(Thr, s, d) /\ UNCHANGED helper
          /\ Log([op |-> "install", thr |-> Thr, sig |-> s, k |-> d.k, h |-> d.h])
    \/ \E s \in Sigs, w \in 1..2 :          \* (w: weight only)
          /\ UNCHANGED <<vars, helper>>
          /\ IF Fatal(Eff(s))
             THEN Log([op |-> "raise", thr |-> 0, sig |-> s, fork |-> TRUE, w |-> w])
             ELSE Log([op |-> "raise", thr |-> Thr, sig |-> s, fork |-> FALSE, w |-> w])
    \/ \E s \in Sigs, s2 \in Sigs :
          /\ Eff(s) = "run" /\ ~Fatal(Eff(s2))
          /\ UNCHANGED <<vars, helper>>
          /\ Log([op |-> "raise_nested", thr |-> Thr, sig |-> s, sig2 |-> s2])
    \/ \E s \in Sigs, m \in {"read", "spin"}, w \in 1..2 :
          /\ helper /\ ~Fatal(Eff(s))
          /\ UNCHANGED <<vars, helper>>
          /\ Log([op |-> "raise_async", sig |-> s, mode |-> m, expect |-> Eff(s), w |-> w])
    \/ \E w \in 1..6 :
          /\ ~helper /\ helper' = TRUE /\ UNCHANGED vars
          /\ Log([op |-> "spawn_thread", w |-> w])

Emit == Len(hist) = Depth => PrintT(<<"SEQ", ToJson(hist)>>)
Bound == Len(hist) <= Depth
=============================================================================
