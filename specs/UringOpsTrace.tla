--------------------------- MODULE UringOpsTrace ---------------------------
(* C18, B2: judges batch records written by harness/src/bin/uring_ops.rs (the wrapper on      *)
(* the real kernel vs. direct system calls on a twin world) with UringOps!Judge.              *)
EXTENDS UringOps, Json, IOUtils
Rec == ndJsonDeserialize(IOEnv.TRACE)
Verdicts == [i \in 1..Len(Rec) |-> IF Rec[i].ev = "batch" THEN Judge(Rec[i])
                                   ELSE IF Rec[i].ev = "geometry" THEN JudgeGeometry(Rec[i])
                                   ELSE IF Rec[i].ev = "lap" THEN JudgeLap(Rec[i])
                                   ELSE IF Rec[i].ev = "constant" THEN JudgeConstant(Rec[i]) ELSE ""]
Bad == {i \in 1..Len(Rec) : Verdicts[i] # ""}
ASSUME PrintT(<<"OPSJUDGE", ToJson([n |-> Len(Rec), bad |-> [i \in Bad |-> Verdicts[i]]])>>)
VARIABLE x
TInit == x = 0 /\ link = 0 /\ phase = 0 /\ out = 0 /\ cq = 0 /\ reaped = 0
TNext == UNCHANGED <<x, pvars>>
=============================================================================
