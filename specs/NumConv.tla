------------------------------ MODULE NumConv ------------------------------
(* X02 - numeric newtypes and conversions, and the Prng of tiny-std/src/unix/random.rs.     *)
(*                                                                                         *)
(* NonNegativeI32 (rusl/src/platform/numbers/non_negative_i32.rs): try_new(v) is Ok(v) iff  *)
(* v >= 0 else Err(v) ("Returns the supplied value"); value/into_u32/u64/u128/usize and     *)
(* Display are the same number; comptime_checked_new(v) = v for v >= 0 and PANICS otherwise *)
(* (documented); & and | are the bit operations (closed on non-negative numbers); MAX =     *)
(* 2^31-1, ZERO = Default = 0; ordering and equality are those of the numbers.              *)
(* ClockId::from / from_raw / into_i32 and Mode::from(u32).bits() are identities.           *)
(* TimeSpec::try_from(Duration(secs, nanos)): Ok(tv_sec = secs, tv_nsec = nanos) iff secs   *)
(* fits an i64, else an error (secs are BigNat values: base-10^4 limbs).                    *)
(* Prng: "implemented as an LCG ... same constants as glibc": X' = (A X + C) mod 2^48 with   *)
(* A = 25214903917, C = 11; next_u64 returns the new state; Iterator::next is next_u64.     *)
(* States are 4 limbs base 2^12 (least significant first), seeds up to 6 limbs.             *)
EXTENDS Integers, Sequences, FiniteSets, Bitwise, BigNat, TLC

I32MAX == 2147483647
I32MIN == -2147483647 - 1
\* ---- NonNegativeI32
TryNew(v) == IF v >= 0 THEN [ok |-> TRUE, value |-> v] ELSE [ok |-> FALSE, value |-> v]
Comptime(v) == IF v >= 0 THEN {[r |-> "ok", value |-> v]} ELSE {[r |-> "panic", value |-> 0]}
BitsDef(a, b) == [and |-> a & b, or |-> a | b,
                  cmp |-> IF a < b THEN "Less" ELSE IF a = b THEN "Equal" ELSE "Greater", eq |-> a = b]

\* ---- TimeSpec::try_from(Duration)
I64MAX == <<5807, 5477, 368, 3372, 922>>          \* 9223372036854775807
TimeSpecDef(secs, nanos) ==
    IF Leq(secs, I64MAX) THEN [ok |-> TRUE, sec |-> secs, nsec |-> nanos] ELSE [ok |-> FALSE, sec |-> <<>>, nsec |-> 0]
Two31 == Add(FromInt(I32MAX), FromInt(1))
Two32 == Add(Two31, Two31)
SecsSet == {<<>>, FromInt(1), FromInt(I32MAX), Two31, Two32, Sub(I64MAX, FromInt(1)), I64MAX,
            Add(I64MAX, FromInt(1)), Add(I64MAX, FromInt(2)), Add(Add(I64MAX, I64MAX), FromInt(1))}

\* ---- Prng, limbs base 4096
L == 4096
ALimbs == <<1645, 3790, 1502>>                    \* 25214903917
CAdd == 11
Lb(x, i) == IF i >= 1 /\ i <= Len(x) THEN x[i] ELSE 0
\* definition: the product is only needed modulo 2^48 = 4 limbs
LcgNext(x) ==
    LET raw(p) == (IF p = 1 THEN CAdd ELSE 0) +
                  Lb(x, p) * ALimbs[1] + Lb(x, p - 1) * ALimbs[2] + Lb(x, p - 2) * ALimbs[3]
        carry[p \in 0..4] == IF p = 0 THEN 0 ELSE (raw(p) + carry[p - 1]) \div L
    IN [p \in 1..4 |-> (raw(p) + carry[p - 1]) % L]
\* transcription: ((A * seed as u128 + C) % 2^48) as u64 - the whole product, then the remainder
FullMulAdd(x) ==
    LET raw(p) == (IF p = 1 THEN CAdd ELSE 0) +
                  Lb(x, p) * ALimbs[1] + Lb(x, p - 1) * ALimbs[2] + Lb(x, p - 2) * ALimbs[3]
        carry[p \in 0..10] == IF p = 0 THEN 0 ELSE (raw(p) + carry[p - 1]) \div L
    IN [p \in 1..10 |-> (raw(p) + carry[p - 1]) % L]
NextU64(x) == SubSeq(FullMulAdd(x), 1, 4)
RECURSIVE Outputs(_, _)
Outputs(x, n) == IF n = 0 THEN <<>> ELSE LET y == LcgNext(x) IN <<y>> \o Outputs(y, n - 1)
RECURSIVE OutputsCode(_, _)
OutputsCode(x, n) == IF n = 0 THEN <<>> ELSE LET y == NextU64(x) IN <<y>> \o OutputsCode(y, n - 1)
=============================================================================
