----------------------------- MODULE SpawnAbs -----------------------------
(* C13, property level: what `Command::spawn` promises, nothing about how it is done.      *)
(*                                                                                          *)
(* Everything is stated over an OBSERVATION `o` of one spawn call, which both the           *)
(* algorithm-level model (Spawn.tla, every reachable state) and the trace judge             *)
(* (SpawnTrace.tla, from the recorded system-call / marker / helper-dump events of the real *)
(* code) maintain:                                                                          *)
(*   o.returns  sequence of [proc, res, code, failed]: every time control passed the point  *)
(*              "spawn returned": in which process ("P" = caller, "C" = forked child),      *)
(*              "ok"/"err", the error's errno (NoCode for an error without one) and the set *)
(*              of steps that had failed up to then                                         *)
(*   o.failed   set of [proc, step, errno] of steps that failed so far (errno = 0: the step  *)
(*              failed without an errno, i.e. a pre-exec closure returning such an error)   *)
(*   o.child    "none" (not forked) | "caller" (forked, still the caller's image, inside     *)
(*              spawn) | "escaped" (back in the caller's code) | "prog" (exec succeeded) |  *)
(*              "exited"                                                                    *)
(*   o.execd    whether the child ever exec'ed successfully                                 *)
(*   o.image    what the exec'ed program is/sees: [prog, argv, envp, cwd, io, uid, gid, pg] *)
(*   o.reaped, o.cstatus (raw wait status of the child), o.waits (what the successive       *)
(*              wait / try_wait calls on the returned Child reported: [res, status] with    *)
(*              res = "ok" | "none" (try_wait: still running) | "err")                      *)
(* and a canonical description `c` of what the caller configured (see Want).                *)
(* Strings are opaque values here: tokens in the model, real strings in traces.             *)
EXTENDS Naturals, Integers, Sequences, FiniteSets

NoCode == -1000000     \* "the error carries no errno"
Unset  == "unset"      \* for string-valued settings (cwd)
UnsetId == -1          \* for integer-valued settings (uid, gid, pgroup)
NoWaits == << >>

\* steps whose failure means "a step up to and including exec failed"
PreExecSteps == {"openat", "pipe2", "fork", "dup3", "chdir", "setuid", "setgid", "setpgid",
                 "pre_exec", "execve"}
\* parent-side steps after the fork on which the statement is silent (reading the sync pipe,
\* reaping): their failure must still not produce Ok-without-exec or a second returning process,
\* but the error they produce need not carry an errno.
PostSteps == {"read", "wait4", "close", "write"}

Range(s) == {s[i] : i \in DOMAIN s}
Count(x, s) == Cardinality({i \in DOMAIN s : s[i] = x})
SameBag(s, t) == /\ Len(s) = Len(t)
                 /\ \A x \in Range(s) \cup Range(t) : Count(x, s) = Count(x, t)

(* What the configured command must look like once it runs.  c:                            *)
(*   bin, args (seq), envmode ("default" | "provided"), envs (provided entries), start,      *)
(*   penv (the caller's environment), cwd (Unset | dir), pcwd, uid/gid (UnsetId | id),      *)
(*   puid/pgid, pg (UnsetId | 0), io (1..3 -> "inherit"|"null"|"pipe"|"raw")                *)
(*   envAlt: further admissible environments: for env = "default" see notes/C13.md (a      *)
(*   std-linked build with `start` never initialises tiny-std's environment pointer); for   *)
(*   provided entries with a repeated key the API text does not say whether both entries    *)
(*   are passed on, the last or the first wins - all three readings are admitted            *)
WantArgv(c) == <<c.bin>> \o c.args
WantEnvs(c) == IF c.envmode = "default"
               THEN (IF c.start THEN {c.penv} ELSE {<< >>}) \cup c.envAlt
               ELSE {c.envs} \cup c.envAlt
WantCwd(c)  == IF c.cwd = Unset THEN c.pcwd ELSE c.cwd
WantUid(c)  == IF c.uid = UnsetId THEN c.puid ELSE c.uid
WantGid(c)  == IF c.gid = UnsetId THEN c.pgid ELSE c.gid
WantPg(c)   == IF c.pg = UnsetId THEN "parent" ELSE "own"

ImageMismatch(c, im) ==
    (IF im.prog = c.bin THEN {} ELSE {"prog"})
    \cup (IF im.argv = WantArgv(c) THEN {} ELSE {"argv"})
    \cup (IF \E e \in WantEnvs(c) : SameBag(im.envp, e) THEN {} ELSE {"envp"})
    \cup (IF im.cwd = WantCwd(c) THEN {} ELSE {"cwd"})
    \cup (IF \A i \in 1..3 : im.io[i] = c.io[i] THEN {} ELSE {"stdio"})
    \cup (IF im.uid = WantUid(c) /\ im.gid = WantGid(c) THEN {} ELSE {"ids"})
    \cup (IF im.pg = WantPg(c) THEN {} ELSE {"pgroup"})

PreExecFailed(F) == {f \in F : f.step \in PreExecSteps}

\* may an error with this code be what the caller gets, given the failed steps F ?
CodeAdmissible(code, F) ==
    \/ code > 0 /\ \E f \in F : f.errno = code
    \/ \E f \in F : f.errno = 0            \* the failed step had no errno to carry
    \/ \E f \in F : f.step \in PostSteps   \* statement silent on the error value

(* ---- the clauses of the property, each yields TRUE or is named in Violated ------------- *)
ReturnsOnlyInCaller(o) == \A i \in DOMAIN o.returns : o.returns[i].proc = "P"
ReturnsAtMostOnce(o)   == Len(o.returns) <= 1

\* Ok  =>  no step up to and including exec failed, and the child exec'ed
OkMeansExec(o) ==
    \A i \in DOMAIN o.returns :
        LET r == o.returns[i] IN
        r.res = "ok" => PreExecFailed(r.failed) = {} /\ o.execd
\* ... exactly what was configured
OkMeansConfigured(c, o) ==
    \A i \in DOMAIN o.returns :
        o.returns[i].res = "ok" /\ o.execd => ImageMismatch(c, o.image) = {}
\* the child never runs anything else than what was configured either
ExecIsConfigured(c, o) == o.execd => ImageMismatch(c, o.image) = {}

\* Err =>  some step FAILED and the error carries that step's (positive) errno.
\* A read of the sync pipe that was merely interrupted (EINTR) has not failed - nothing is wrong with the
\* child, the call is to be repeated - so by itself it does not justify telling the caller Err.
EINTR == 4
Justifies(f) == ~(f.step = "read" /\ f.errno = EINTR)
ErrNeedsFailedStep(o) ==
    \A i \in DOMAIN o.returns :
        LET r == o.returns[i] IN
        r.res = "err" => \E f \in r.failed : Justifies(f)
ErrCarriesErrno(o) ==
    \A i \in DOMAIN o.returns :
        LET r == o.returns[i]
            J == {f \in r.failed : Justifies(f)}
        IN  (r.res = "err" /\ J # {}) => CodeAdmissible(r.code, J)
\* a failed step up to exec  =>  no Ok   (same as OkMeansExec's first half, kept separate for
\* the violation's name)
FailureMeansErr(o) ==
    \A i \in DOMAIN o.returns :
        LET r == o.returns[i] IN
        PreExecFailed(r.failed) # {} => r.res = "err"

\* When the caller is told Err it gets no handle, so no child created by this call may still be RUNNING
\* at that moment: the child was never created, or it has exited (reaped or zombie does not matter), or -
\* having reported its failure - it is on its way out and will never exec (r.child = its state when the
\* caller returned).  A child that runs the program, or goes on to exec it, after the caller got Err is an
\* un-owned process left behind.
ErrLeavesNoRunningChild(o) ==
    \A i \in DOMAIN o.returns :
        LET r == o.returns[i] IN
        (r.proc = "P" /\ r.res = "err") => (r.child \in {"none", "exited"} \/ ~o.execd)
\* evidence-only lead, never a verdict (it demands more than the statement says): Err although the
\* child exec'ed at some time (e.g. an injected hard failure of the sync-pipe read: the parent waits for
\* the child, reaps it and reports the error - exactly what the statement asks for)
ErrMeansNoExec(o) ==
    \A i \in DOMAIN o.returns : (o.returns[i].proc = "P" /\ o.returns[i].res = "err") => ~o.execd

\* no process is left running the caller's code: the forked child never gets back into the
\* caller's code ("escaped": it passed the return point / left do_spawn alive), and at the end
\* of the observation it is not still sitting in the caller's image (neither exec'ed nor
\* exited).  A child that is on its way to exit when the caller gets its error is fine.
NoneLeftRunning(o, atEnd) == o.child # "escaped" /\ (atEnd => o.child # "caller")

\* wait reports the child's exit status (either reading of "exit status": the raw wait status
\* word, or the decoded exit code of a normal exit)
StatusReadings(raw) == {raw} \cup (IF raw % 128 = 0 THEN {raw \div 256} ELSE {})
WaitStatus(o) == \A i \in DOMAIN o.waits :
                    o.waits[i].res = "ok" => o.waits[i].status \in StatusReadings(o.cstatus)
\* ... on every call: once the status has been reported, every later wait / try_wait on the same
\* handle reports the same status again (never an error such as ECHILD, never "still running").
\* A try_wait BEFORE that may say "none" while the child runs; nothing is demanded of it.
WaitStatusStable(o) ==
    \A i, j \in DOMAIN o.waits :
        (i < j /\ o.waits[i].res = "ok") => o.waits[j].res = "ok" /\ o.waits[j].status = o.waits[i].status

\* end of the observation: the caller did get its answer (a hang / crash inside spawn is data)
ReturnsExactlyOnceInCaller(o) == Len(o.returns) = 1 /\ o.returns[1].proc = "P"

Violated(c, o, atEnd) ==
    (IF ReturnsOnlyInCaller(o) THEN {} ELSE {"ReturnsOnlyInCaller"})
    \cup (IF ReturnsAtMostOnce(o) THEN {} ELSE {"ReturnsAtMostOnce"})
    \cup (IF OkMeansExec(o) THEN {} ELSE {"OkMeansExec"})
    \cup (IF OkMeansConfigured(c, o) /\ ExecIsConfigured(c, o) THEN {} ELSE {"OkMeansConfigured"})
    \cup (IF ErrNeedsFailedStep(o) THEN {} ELSE {"ErrNeedsFailedStep"})
    \cup (IF ErrCarriesErrno(o) THEN {} ELSE {"ErrCarriesErrno"})
    \cup (IF ErrLeavesNoRunningChild(o) THEN {} ELSE {"ErrLeavesNoRunningChild"})
    \cup (IF NoneLeftRunning(o, atEnd) THEN {} ELSE {"NoneLeftRunning"})
    \cup (IF WaitStatus(o) THEN {} ELSE {"WaitStatus"})
    \cup (IF WaitStatusStable(o) THEN {} ELSE {"WaitStatusStable"})
    \cup (IF atEnd /\ ~ReturnsExactlyOnceInCaller(o) THEN {"ReturnsExactlyOnceInCaller"} ELSE {})

=============================================================================
