CONSTANTS
  Objs = {1, 2}
  Kind <- K2b
  MaxRx = 2
  Masks <- MasksT
  DataOf <- Data
SPECIFICATION Spec
INVARIANTS TypeOK Consistent Answerable LevelPersists OneshotSilent EdgeSilent UnregisteredSilent ClosedSilent
CHECK_DEADLOCK FALSE
