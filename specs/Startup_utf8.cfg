\* blocks of <= 3 entries with valid and non-UTF-8 values of duplicated names: var converts the FIRST match
CONSTANTS
  Version = "fixed"
  Argvs <- ArgvOne
  Entries <- EntriesU
  MaxEnv = 3
  Keys <- KeysU
  Auxvs <- AuxOne
  Fns = {"var", "var_unix"}
SPECIFICATION Spec
INVARIANTS PictureOk BootCorrect ArgsCorrect LookupCorrect ReadsInBounds
PROPERTY Terminates
