------------------------------ MODULE StreamGen ------------------------------
(* B1 generator for C16: TLC enumerates the space of transfer plans                          *)
(*   family x payload length class per direction x writer chunking x reader chunking x       *)
(*   who is delayed x accept kind (plain / try / timeout that expires / timeout that does    *)
(*   not) x connect kind x connect-before-listen x who closes first x read timeout           *)
(* and prints the plans selected by Stride/Phase (every Stride-th point of the product in    *)
(* TLC's enumeration order of a mixed-radix index, so that all values of every coordinate    *)
(* and most pairs occur).  Sizes are class indices; the recorder maps them to bytes.         *)
EXTENDS Integers, Sequences, TLC, Json
CONSTANTS Stride, Phase, Big      \* Big: index of the largest payload class allowed (quick-reduced)
VARIABLES p
Fams == <<"unix", "tcp">>
Lens == 1..Big                    \* classes {0, 1, 4 KiB, 1 MiB, 4 MiB}
WChunks == 1..3                   \* {whole payload, 4 KiB pieces, odd sizes 1/7/1000/65536}
RChunks == 1..3                   \* {bigger than everything, 4 KiB, small odd sizes}
Delays == <<"none", "reader", "writer">>
Accepts == <<"plain", "try", "timeout_expires", "timeout_ok">>
Connects == <<"plain", "try", "timeout">>
Tmos == <<-1, 0, 1000, 50000>>    \* read timeout in microseconds (-1: plain read)
Space == [fam : 1..2, lcs : Lens, lsc : 1..3, w : WChunks, r : RChunks, delay : 1..3, acc : 1..4,
          con : 1..3, early : BOOLEAN, closer : {"c", "s"}, tmo : 1..4]
Index(x) == ((((((((x.fam * 5 + x.lcs) * 3 + x.lsc) * 3 + x.w) * 3 + x.r) * 3 + x.delay) * 4 + x.acc) * 3 + x.con) * 2
             + (IF x.early THEN 1 ELSE 0)) * 8 + (IF x.closer = "c" THEN 0 ELSE 4) + x.tmo
Init == p \in Space
Next == UNCHANGED p
Sensible == /\ (p.con = 3 => p.fam = 2)            \* connect_with_timeout exists for TCP only
            /\ (p.tmo > 1 => p.fam = 2)            \* read_with_timeout exists for TCP only
\* the constructor matrix: every way of obtaining the two streams, on both families, crossed with a
\* timed read - always generated, whatever the stride
Matrix == /\ p.lcs = 2 /\ p.lsc = 2 /\ p.w = 1 /\ p.r = 1 /\ p.delay = 1 /\ ~p.early /\ p.closer = "c"
          /\ p.tmo = (IF p.fam = 2 THEN 3 ELSE 1)
Emit == (Sensible /\ (Index(p) % Stride = Phase \/ Matrix)) =>
          PrintT(<<"P", ToJson([fam |-> Fams[p.fam], lcs |-> p.lcs, lsc |-> p.lsc, w |-> p.w, r |-> p.r, delay |-> Delays[p.delay],
                                acc |-> Accepts[p.acc], con |-> Connects[p.con], early |-> p.early, closer |-> p.closer,
                                tmo |-> Tmos[p.tmo]])>>)
=============================================================================
