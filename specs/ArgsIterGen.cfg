CONSTANTS
  MaxLen = 5
INIT Init
NEXT Next
INVARIANTS DefaultsAgree Emit
CHECK_DEADLOCK FALSE
