------------------------------ MODULE UnixStr ------------------------------
(***************************************************************************)
(* Definitional (property-level) specification of rusl's UnixStr /        *)
(* UnixString: what every safe constructor, conversion, search and path   *)
(* operation must return, as functions on byte strings (C10, C11).        *)
(*                                                                         *)
(* Byte strings are sequences of naturals 0..255.  "content" = the bytes  *)
(* of a string WITHOUT its terminator, "raw" = the bytes of the Rust      *)
(* value as stored (as_slice()), which must end in exactly one NUL.       *)
(*                                                                         *)
(* Results are tagged sequences so that TLC can compare any two of them:  *)
(*   <<0>> = None, <<1>> \o x = Some(x)/Ok(x) (x = raw bytes or one       *)
(*   number), <<2>> = Err(_), <<3>> = the call panicked.                  *)
(* Where the property statement (and the API docs) leave an answer open,  *)
(* the operator returns the SET of admissible results, so the oracle      *)
(* never demands more than the property states.                           *)
(***************************************************************************)
EXTENDS Integers, Sequences, FiniteSets

SLASH == 47
NONE  == <<0>>
Some(x) == <<1>> \o x
ERR   == <<2>>
PANIC == <<3>>

Raw(c) == c \o <<0>>
HasNul(b) == \E i \in 1..Len(b) : b[i] = 0
NulOnlyAtEnd(b) == Len(b) >= 1 /\ b[Len(b)] = 0 /\ \A i \in 1..(Len(b) - 1) : b[i] # 0
Chop(b) == SubSeq(b, 1, Len(b) - 1)

\* C10 core: a produced value ends in NUL, and has no other NUL.
EndsInNul(r)  == Len(r) >= 1 /\ r[Len(r)] = 0
WellFormed(r) == NulOnlyAtEnd(r)

MaxOf(S) == CHOOSE x \in S : \A y \in S : y <= x
MinOf(S) == CHOOSE x \in S : \A y \in S : x <= y

---------------------------------------------------------------------------
(* C11: search operations on contents (0-based indices as in Rust) *)
Occurs(h, n, i) == i + Len(n) <= Len(h) /\ \A j \in 1..Len(n) : h[i + j] = n[j]
FindIdx(h, n) ==
    LET occ == {i \in 0..Len(h) : Occurs(h, n, i)}
    IN  IF occ = {} THEN NONE ELSE Some(<<MinOf(occ)>>)
\* find(&UnixStr): first occurrence of the needle's content in the haystack's content
Find(h, n) == {FindIdx(h, n)}
\* find_buf(&[u8]): same, the needle being a plain byte slice.  A slice may contain NUL bytes:
\* the search then runs over the stored bytes of the haystack (content + terminator); for a
\* NUL-free needle this is the same answer, because no occurrence can include the terminator.
FindBuf(h, n) == {FindIdx(Raw(h), n)}

CommonPrefix(a, b) ==
    LET ks == {k \in 0..Len(a) : k <= Len(b) /\ \A j \in 1..k : a[j] = b[j]}
    IN  MaxOf(ks)
MatchUpTo(a, b) == {Some(<<CommonPrefix(a, b)>>)}

IsSuffixOf(s, a) == Len(s) <= Len(a) /\ \A j \in 1..Len(s) : a[Len(a) - Len(s) + j] = s[j]
EndsWith(a, b) == {Some(<<IF IsSuffixOf(b, a) THEN 1 ELSE 0>>)}

---------------------------------------------------------------------------
(* C11/C10: path operations *)
StripTrail(a) == IF Len(a) >= 1 /\ a[Len(a)] = SLASH THEN Chop(a) ELSE a
StripLead(b)  == IF Len(b) >= 1 /\ b[1] = SLASH THEN Tail(b) ELSE b
\* join: exactly one separator at the boundary unless one side is empty
JoinContent(a, b) ==
    IF a = <<>> THEN b ELSE IF b = <<>> THEN a
    ELSE StripTrail(a) \o <<SLASH>> \o StripLead(b)
PathJoin(a, b) == {Some(Raw(JoinContent(a, b)))}

HasDoubleSlash(c) == \E i \in 1..(Len(c) - 1) : c[i] = SLASH /\ c[i + 1] = SLASH
Slashes(c) == {i \in 1..Len(c) : c[i] = SLASH}
\* split at the last separator (root keeps its slash)
SplitParent(c) ==
    IF Len(c) < 2 \/ Slashes(c) = {} THEN NONE
    ELSE LET i == MaxOf(Slashes(c))
         IN  IF i > 1 /\ c[i - 1] = SLASH THEN NONE
             ELSE Some(Raw(IF i = 1 THEN <<SLASH>> ELSE SubSeq(c, 1, i - 1)))
\* Admissible answers of parent_path.  The statement says: split at the last separator.  The
\* documentation adds: fewer than two bytes -> None; a double separator AT the split -> None
\* (its example is "code//"), root keeps "/".  For a trailing separator the (never executed)
\* doc example first drops it while "split at the last separator" does not: both are admitted.
\* The doc sentence "any double slash" is not taken as licence to answer None when the double
\* separator lies before the split ("a//b/c"): there the statement's split is well defined and
\* demanded (round 6: an independent change that answers None on every "//" is a violation).
ParentPath(c) ==
    {SplitParent(c)}
    \cup (IF Len(c) >= 2 /\ c[Len(c)] = SLASH THEN {SplitParent(Chop(c))} ELSE {})

\* file name = what follows the last separator; nothing follows -> None.  Without any
\* separator the API text does not say (the implementation answers None): both admitted.
PathFileName(c) ==
    IF c = <<>> THEN {NONE}
    ELSE IF Slashes(c) = {} THEN {NONE, Some(Raw(c))}
    ELSE LET i == MaxOf(Slashes(c))
         IN  IF i < Len(c) THEN {Some(Raw(SubSeq(c, i + 1, Len(c))))} ELSE {NONE}

---------------------------------------------------------------------------
(* C10: constructors and conversions from arbitrary bytes b *)
\* &UnixStr from a slice: must already be terminated, exactly once
StrTryFromBytes(b) == {IF NulOnlyAtEnd(b) THEN Some(b) ELSE ERR}
\* UnixString from bytes/vec/str/String: terminator appended when absent
StringTryFrom(b) ==
    {IF ~HasNul(b) THEN Some(Raw(b)) ELSE IF NulOnlyAtEnd(b) THEN Some(b) ELSE ERR}
\* from_format: infallible; always terminated; exact for NUL-free text
FromFormat(b) == {Some(IF Len(b) >= 1 /\ b[Len(b)] = 0 THEN b ELSE Raw(b))}
\* const validator: its documented rejection is a (compile-time) panic
FromStrChecked(b) == {IF NulOnlyAtEnd(b) THEN Some(b) ELSE PANIC}
\* path_join_fmt with arbitrary formatted text s (may contain NULs): for NUL-free text it is
\* PathJoin; otherwise only the C10 obligation (ends in NUL) is demanded.
\* A text that is terminated already (its only NUL is its last byte) is the documented
\* "more efficient" spelling of the same text: the result must be terminated exactly once
\* and, when the text proper is non-empty, be the join with that text.
PathJoinFmtOk(a, s, r) ==
    IF ~HasNul(s) THEN r \in PathJoin(a, s)
    ELSE IF NulOnlyAtEnd(s) /\ ~HasNul(a)
    THEN /\ Len(r) >= 2 /\ r[1] = 1 /\ WellFormed(Tail(r))
         /\ (Len(s) >= 2 => r \in PathJoin(a, Chop(s)))
    ELSE Len(r) >= 2 /\ r[1] = 1 /\ EndsInNul(Tail(r))

\* C10 obligation on any produced value r = Some(raw), inputs NUL-free => exactly one NUL
Produced(r, nulFreeInputs) ==
    (Len(r) >= 1 /\ r[1] = 1) =>
        LET raw == Tail(r) IN EndsInNul(raw) /\ (nulFreeInputs => WellFormed(raw))
=============================================================================
