------------------------------ MODULE ThreadLife ------------------------------
(* Algorithm-level model of tiny-std's thread life cycle (tiny-std/src/thread/spawn.rs,      *)
(* futex_wait_fast in tiny-std/src/sync.rs), transcribed from the code as written.           *)
(*                                                                                           *)
(* Parties: H  the spawner / owner of the JoinHandles, runs the program Prog (a sequence of  *)
(*             [op |-> "spawn"|"join"|"drop", p |-> thread]);                                *)
(*          T[p] the spawned threads; K the kernel (clear-tid store + futex wake at exit);   *)
(*          the environment (a spurious return of FUTEX_WAIT, budget Spurious).              *)
(*                                                                                           *)
(* Granularity: one action per segment of code between two protocol points of the real code  *)
(* (tiny_std::verif_thread::point ids, plus the two operations on the exit futex inside      *)
(* futex_wait_fast seen through the tiny_std::verif shim: 50 = load, 51 = FUTEX_WAIT, and     *)
(* the probe's own 60 = "owner about to start its next operation", 9 = "closure about to     *)
(* run").  The program counters ARE the point ids at which the party is waiting for its      *)
(* turn, so a path of this model is literally a schedule for the probe's point scheduler.    *)
(*                                                                                           *)
(* Variants of the code (constants), to exhibit in the model what the binding then confirms  *)
(* or refutes on the real code:                                                              *)
(*   RecheckWord  TRUE : join/drop loop `while word.load(Acquire) == 1 { futex_wait_fast }`  *)
(*                FALSE: pinned tree: one futex_wait_fast (Relaxed load, one FUTEX_WAIT)     *)
(*   RecheckDrop  the same for the wait in JoinHandle::drop (RecheckWord then speaks of join  *)
(*                only): FALSE with RecheckWord TRUE = "drop waits once, join loops"          *)
(*   CheckClone   TRUE : a failed clone releases everything and returns Err                  *)
(*                FALSE: pinned tree: return value of __clone ignored, Ok(handle)            *)
(*   RetryClone   FALSE: current tree: one clone attempt per spawn                            *)
(*                TRUE : deviation "retry while clone fails with EAGAIN" - with a failure that  *)
(*                       persists (p \in FailClone means EVERY attempt for p fails) spawn      *)
(*                       never returns: JoinTerminates (<> H done, fairness of H) is violated   *)
(*   PanicTakesLock FALSE: current tree: the panic handler of a spawned thread takes no lock    *)
(*                TRUE : deviation (e.g. eprintln! in the handler): a thread in PanicHoldsLock  *)
(*                       blocks for ever at the start of the handler - it never exits, join     *)
(*                       never returns (deadlock / JoinTerminates)                              *)
(*   MmapFirst    TRUE : stack mapped before anything is allocated                           *)
(*                FALSE: pinned tree: join block + boxed closure allocated first, `?` on mmap*)
(*   DropResult   TRUE : whoever frees the join block of a dropped handle drops a stored     *)
(*                       Some(v) first;  FALSE: pinned tree: dealloc only                    *)
(*   KernelAtomic TRUE : epilogue (munmap own stack, exit) + clear-tid store + futex wake in *)
(*                       one step (what a user-space scheduler can control: replay configs); *)
(*                FALSE: three steps (exhaustive configs)                                    *)
EXTENDS Naturals, Sequences, FiniteSets, TLC

CONSTANTS NT,          \* number of threads
          Prog,        \* H's program
          Fin,         \* Fin[p] \in {"ret", "panic"}: what the closure of thread p does
          Spurious,    \* budget of spurious futex returns
          FailMmap,    \* set of threads whose stack mmap fails
          FailClone,   \* set of threads whose clone fails
          RecheckWord, RecheckDrop, CheckClone, RetryClone, MmapFirst, DropResult, KernelAtomic,
          PanicHoldsLock, \* environment: threads whose closure panics while holding a user-level lock
                          \* (a print lock of tiny-std, a Mutex): with no unwinding it is never released
          PanicTakesLock  \* deviation: the panic handler of a spawned thread acquires such a lock

Threads == 1..NT
RS == {"none", "live", "freed"}

VARIABLES
    hpc,      \* H: "60" | "3" | "1" | "2" | "4" | "6" | "50a" | "50r" | "51" | "parked" | "31" | "32" | "40" | "43" | "done"
    hop,      \* index of H's current / next operation in Prog
    tpc,      \* T[p]: "none" | "9" | "10" | "11" | "13" | "14" | "15" | "16" | "20" | "21" | "23" | "24" | "25" | "k1" | "k2" | "gone"
    tsm, tls, stk, clo,   \* resources of thread p: RS
    word,     \* exit futex word: 1 until the kernel clears it
    flag,     \* the AtomicBool both sides compare-exchange
    slot,     \* "None" | "Some" | "Moved" | "Dropped"
    ctid,     \* clear-tid address still armed
    handle,   \* "none" | "held" | "joined" | "dropped"
    sres,     \* result of spawn: "none" | "ok" | "err"
    sp,       \* remaining spurious wake-ups
    \* ---- observation (ghost) variables
    ran, jres, hsync, bad
vars == <<hpc, hop, tpc, tsm, tls, stk, clo, word, flag, slot, ctid, handle, sres, sp, ran, jres, hsync, bad>>

Op == Prog[hop]
P  == Prog[hop].p          \* the thread H's current operation is about

Init ==
    /\ hpc = IF Len(Prog) = 0 THEN "done" ELSE "60"
    /\ hop = 1
    /\ tpc = [p \in Threads |-> "none"]
    /\ tsm = [p \in Threads |-> "none"] /\ tls = [p \in Threads |-> "none"]
    /\ stk = [p \in Threads |-> "none"] /\ clo = [p \in Threads |-> "none"]
    /\ word = [p \in Threads |-> 1]
    /\ flag = [p \in Threads |-> FALSE]
    /\ slot = [p \in Threads |-> "None"]
    /\ ctid = [p \in Threads |-> FALSE]
    /\ handle = [p \in Threads |-> "none"]
    /\ sres = [p \in Threads |-> "none"]
    /\ sp = Spurious
    /\ ran = [p \in Threads |-> 0]
    /\ jres = [p \in Threads |-> "-"]
    /\ hsync = [p \in Threads |-> FALSE]
    /\ bad = {}

\* H finished the current operation: on to the next one
NextOp == IF hop + 1 > Len(Prog) THEN "done" ELSE "60"

\* the thread can no longer touch the join block: it has left user space and the kernel's clear-tid
\* store (the last access made on its behalf; the futex wake that follows only uses the address) is done
ThreadDone(p) == tpc[p] \in {"k2", "gone"} \/ (tpc[p] = "k1" /\ ~ctid[p])

\* ---- ghost helpers: a touch of / a free of a resource in a given state
Touch(who, p) == IF tsm[p] # "live" THEN {<<"use_after_release_tsm", who, p>>} ELSE {}
FreeOf(r, st, p) == IF st # "live" THEN {<<"released_twice", r, p>>} ELSE {}

----------------------------------------------------------------------------
(* spawn                                                                    *)

\* release everything set up so far and return Err (fixed code, clone failure)
AllFreed(f, p) == [f EXCEPT ![p] = IF f[p] = "live" THEN "freed" ELSE f[p]]

HStartSpawn ==   \* at 60, op = spawn: first segment of spawn()
    /\ hpc = "60" /\ Op.op = "spawn"
    /\ IF MmapFirst
       THEN \/ /\ P \notin FailMmap               \* MmapStack(ok)
               /\ stk' = [stk EXCEPT ![P] = "live"]
               /\ hpc' = "3" /\ UNCHANGED <<hop, sres>>
            \/ /\ P \in FailMmap                  \* MmapStack(fail): `?` returns Err, nothing allocated yet
               /\ sres' = [sres EXCEPT ![P] = "err"]
               /\ hpc' = NextOp /\ hop' = hop + 1 /\ UNCHANGED stk
       ELSE /\ hpc' = "1" /\ UNCHANGED <<hop, sres, stk>>
    /\ tsm' = IF MmapFirst THEN tsm ELSE [tsm EXCEPT ![P] = "live"]      \* pinned order: AllocTsm first
    /\ UNCHANGED <<tpc, tls, clo, word, flag, slot, ctid, handle, sp, ran, jres, hsync, bad>>

AllocTsm ==      \* fixed order: at 3 (stack mapped) -> Tsm::init -> 1
    /\ hpc = "3" /\ MmapFirst
    /\ tsm' = [tsm EXCEPT ![P] = "live"]
    /\ hpc' = "1"
    /\ UNCHANGED <<hop, tpc, tls, stk, clo, word, flag, slot, ctid, handle, sres, sp, ran, jres, hsync, bad>>

BoxClosure ==    \* at 1 -> Box::new(df) -> 2
    /\ hpc = "1"
    /\ clo' = [clo EXCEPT ![P] = "live"]
    /\ hpc' = "2"
    /\ UNCHANGED <<hop, tpc, tsm, tls, stk, word, flag, slot, ctid, handle, sres, sp, ran, jres, hsync, bad>>

AfterClosure ==  \* at 2: fixed order -> Box::new(tls) -> 4;  pinned order -> mmap -> 3 | Err (leaks tsm + closure)
    /\ hpc = "2"
    /\ IF MmapFirst
       THEN /\ tls' = [tls EXCEPT ![P] = "live"]
            /\ hpc' = "4" /\ UNCHANGED <<hop, sres, stk>>
       ELSE \/ /\ P \notin FailMmap
               /\ stk' = [stk EXCEPT ![P] = "live"]
               /\ hpc' = "3" /\ UNCHANGED <<hop, sres, tls>>
            \/ /\ P \in FailMmap
               /\ sres' = [sres EXCEPT ![P] = "err"]
               /\ hpc' = NextOp /\ hop' = hop + 1 /\ UNCHANGED <<stk, tls>>
    /\ UNCHANGED <<tpc, tsm, clo, word, flag, slot, ctid, handle, sp, ran, jres, hsync, bad>>

AllocTlsPinned ==  \* pinned order: at 3 -> Box::new(tls) -> 4
    /\ hpc = "3" /\ ~MmapFirst
    /\ tls' = [tls EXCEPT ![P] = "live"]
    /\ hpc' = "4"
    /\ UNCHANGED <<hop, tpc, tsm, stk, clo, word, flag, slot, ctid, handle, sres, sp, ran, jres, hsync, bad>>

Clone ==         \* at 4 -> __clone(...)
    /\ hpc = "4"
    /\ \/ /\ P \notin FailClone                    \* Clone(ok): the new thread exists, first point: 9
          /\ tpc' = [tpc EXCEPT ![P] = "9"]
          /\ ctid' = [ctid EXCEPT ![P] = TRUE]
          /\ hpc' = "6"
          /\ UNCHANGED <<hop, tsm, tls, stk, clo, sres>>
       \/ /\ P \in FailClone /\ RetryClone     \* Clone(fail), go again: the environment may repeat it for ever
          /\ UNCHANGED <<hpc, hop, tpc, ctid, tsm, tls, stk, clo, sres>>
       \/ /\ P \in FailClone /\ ~RetryClone
          /\ IF CheckClone
             THEN /\ tls' = AllFreed(tls, P) /\ stk' = AllFreed(stk, P)   \* Clone(fail): clean up, Err
                  /\ clo' = AllFreed(clo, P) /\ tsm' = AllFreed(tsm, P)
                  /\ sres' = [sres EXCEPT ![P] = "err"]
                  /\ hpc' = NextOp /\ hop' = hop + 1
             ELSE /\ hpc' = "6"                                            \* result ignored (pinned)
                  /\ UNCHANGED <<hop, tsm, tls, stk, clo, sres>>
          /\ UNCHANGED <<tpc, ctid>>
    /\ UNCHANGED <<word, flag, slot, handle, sp, ran, jres, hsync, bad>>

ReturnHandle ==  \* at 6 -> Ok(JoinHandle)
    /\ hpc = "6"
    /\ handle' = [handle EXCEPT ![P] = "held"]
    /\ sres' = [sres EXCEPT ![P] = "ok"]
    /\ hpc' = NextOp /\ hop' = hop + 1
    /\ UNCHANGED <<tpc, tsm, tls, stk, clo, word, flag, slot, ctid, sp, ran, jres, hsync, bad>>

----------------------------------------------------------------------------
(* waiting for the exit word (shared by join and drop)                      *)

AfterWait == IF Op.op = "join" THEN "31" ELSE "43"
\* does the wait of the current operation re-check the word after every wake-up?
Recheck == IF Op.op = "join" THEN RecheckWord ELSE RecheckDrop

HSkipOp ==       \* join/drop of a thread whose spawn returned Err: the program has no handle, nothing happens
    /\ hpc = "60" /\ Op.op \in {"join", "drop"} /\ handle[P] # "held"
    /\ hpc' = NextOp /\ hop' = hop + 1
    /\ UNCHANGED <<tpc, tsm, tls, stk, clo, word, flag, slot, ctid, handle, sres, sp, ran, jres, hsync, bad>>

JoinStart ==     \* at 60, op = join -> enter join() -> first operation on the exit word
    /\ hpc = "60" /\ Op.op = "join" /\ handle[P] = "held"
    /\ hpc' = IF RecheckWord THEN "50a" ELSE "50r"
    /\ UNCHANGED <<hop, tpc, tsm, tls, stk, clo, word, flag, slot, ctid, handle, sres, sp, ran, jres, hsync, bad>>

LoadAcquire ==   \* 50a: `while word.load(Acquire) == UNFINISHED`
    /\ hpc = "50a"
    /\ bad' = bad \cup Touch("H", P)
    /\ IF word[P] = 0
       THEN /\ hsync' = [hsync EXCEPT ![P] = TRUE]     \* acquire load reads the kernel's store
            /\ hpc' = AfterWait
       ELSE /\ hpc' = "50r" /\ UNCHANGED hsync          \* into futex_wait_fast
    /\ UNCHANGED <<hop, tpc, tsm, tls, stk, clo, word, flag, slot, ctid, handle, sres, sp, ran, jres>>

LoadRelaxed ==   \* 50r: futex_wait_fast: `if futex.load(Relaxed) != expect { return }`
    /\ hpc = "50r"
    /\ bad' = bad \cup Touch("H", P)
    /\ hpc' = IF word[P] # 1 THEN (IF Recheck THEN "50a" ELSE AfterWait) ELSE "51"
    /\ UNCHANGED <<hop, tpc, tsm, tls, stk, clo, word, flag, slot, ctid, handle, sres, sp, ran, jres, hsync>>

FutexWait ==     \* 51: FUTEX_WAIT(word, 1): atomically compare and park, or EAGAIN (-> return)
    /\ hpc = "51"
    /\ bad' = bad \cup Touch("H", P)
    /\ hpc' = IF word[P] = 1 THEN "parked" ELSE (IF Recheck THEN "50a" ELSE AfterWait)
    /\ UNCHANGED <<hop, tpc, tsm, tls, stk, clo, word, flag, slot, ctid, handle, sres, sp, ran, jres, hsync>>

Woken == IF Recheck THEN "50a" ELSE AfterWait

SpuriousWake ==  \* environment: FUTEX_WAIT returns 0 although nobody changed the word (futex(2))
    /\ hpc = "parked" /\ sp > 0
    /\ sp' = sp - 1
    /\ hpc' = Woken
    /\ UNCHANGED <<hop, tpc, tsm, tls, stk, clo, word, flag, slot, ctid, handle, sres, ran, jres, hsync, bad>>

----------------------------------------------------------------------------
(* join                                                                     *)

JoinReadSlot ==  \* 31: `let val = self.tsm.get_value::<T>().into_inner();`
    /\ hpc = "31"
    /\ jres' = [jres EXCEPT ![P] = IF slot[P] = "Some" THEN "Some" ELSE "None"]
    /\ slot' = [slot EXCEPT ![P] = IF slot[P] = "Some" THEN "Moved" ELSE slot[P]]
    /\ bad' = bad \cup Touch("H", P)
               \cup (IF ~ThreadDone(P) THEN {<<"slot_read_before_thread_exit", P>>} ELSE {})
               \cup (IF ~hsync[P] THEN {<<"no_happens_before", P>>} ELSE {})
    /\ hpc' = "32"
    /\ UNCHANGED <<hop, tpc, tsm, tls, stk, clo, word, flag, ctid, handle, sres, sp, ran, hsync>>

JoinFreeTsm ==   \* 32: `self.tsm.dealloc(); forget(self); val`
    /\ hpc = "32"
    /\ bad' = bad \cup Touch("H", P) \cup FreeOf("tsm", tsm[P], P)
               \cup (IF ~ThreadDone(P) THEN {<<"tsm_released_before_thread_exit", P>>} ELSE {})
    /\ tsm' = [tsm EXCEPT ![P] = "freed"]
    /\ handle' = [handle EXCEPT ![P] = "joined"]
    /\ hpc' = NextOp /\ hop' = hop + 1
    /\ UNCHANGED <<tpc, tls, stk, clo, word, flag, slot, ctid, sres, sp, ran, jres, hsync>>

----------------------------------------------------------------------------
(* drop                                                                     *)

DropStart ==     \* at 60, op = drop -> enter drop()
    /\ hpc = "60" /\ Op.op = "drop" /\ handle[P] = "held"
    /\ hpc' = "40"
    /\ UNCHANGED <<hop, tpc, tsm, tls, stk, clo, word, flag, slot, ctid, handle, sres, sp, ran, jres, hsync, bad>>

DropFlagCas ==   \* 40: compare_exchange(false, true): won -> the thread frees; lost -> wait for its exit
    /\ hpc = "40"
    /\ bad' = bad \cup Touch("H", P)
    /\ IF flag[P] = FALSE
       THEN /\ flag' = [flag EXCEPT ![P] = TRUE]
            /\ handle' = [handle EXCEPT ![P] = "dropped"]
            /\ hpc' = NextOp /\ hop' = hop + 1
       ELSE /\ hpc' = IF RecheckDrop THEN "50a" ELSE "50r"
            /\ UNCHANGED <<flag, handle, hop>>
    /\ UNCHANGED <<tpc, tsm, tls, stk, clo, word, slot, ctid, sres, sp, ran, jres, hsync>>

DropFreeTsm ==   \* 43: (drop a stored value,) dealloc
    /\ hpc = "43"
    /\ bad' = bad \cup Touch("H", P) \cup FreeOf("tsm", tsm[P], P)
               \cup (IF ~ThreadDone(P) THEN {<<"tsm_released_before_thread_exit", P>>} ELSE {})
    /\ slot' = [slot EXCEPT ![P] = IF DropResult /\ slot[P] = "Some" THEN "Dropped" ELSE slot[P]]
    /\ tsm' = [tsm EXCEPT ![P] = "freed"]
    /\ handle' = [handle EXCEPT ![P] = "dropped"]
    /\ hpc' = NextOp /\ hop' = hop + 1
    /\ UNCHANGED <<tpc, tls, stk, clo, word, flag, ctid, sres, sp, ran, jres, hsync>>

----------------------------------------------------------------------------
(* the spawned thread                                                       *)

RunClosure(p) == \* 9: the closure runs (exactly here), returns or panics
    /\ tpc[p] = "9"
    /\ ran' = [ran EXCEPT ![p] = ran[p] + 1]
    /\ tpc' = [tpc EXCEPT ![p] = IF Fin[p] = "ret" THEN "10" ELSE "20"]
    /\ UNCHANGED <<hpc, hop, tsm, tls, stk, clo, word, flag, slot, ctid, handle, sres, sp, jres, hsync, bad>>

WriteSlot(p) ==  \* 10: `(*tsm.value_mut()) = Some(func_ret);`
    /\ tpc[p] = "10"
    /\ bad' = bad \cup Touch("T", p)
    /\ slot' = [slot EXCEPT ![p] = "Some"]
    /\ tpc' = [tpc EXCEPT ![p] = "11"]
    /\ UNCHANGED <<hpc, hop, tsm, tls, stk, clo, word, flag, ctid, handle, sres, sp, ran, jres, hsync>>

FlagCas(p, from, won, lost) ==
    /\ tpc[p] = from
    /\ bad' = bad \cup Touch("T", p)
    /\ IF flag[p] = FALSE
       THEN /\ flag' = [flag EXCEPT ![p] = TRUE] /\ tpc' = [tpc EXCEPT ![p] = won]
       ELSE /\ tpc' = [tpc EXCEPT ![p] = lost] /\ UNCHANGED flag
    /\ UNCHANGED <<hpc, hop, tsm, tls, stk, clo, word, slot, ctid, handle, sres, sp, ran, jres, hsync>>

ChildFlagCas(p) == FlagCas(p, "11", "15", "13")   \* 11
PanicFlagCas(p) == FlagCas(p, "21", "25", "23")   \* 21

SetTidAddressNull(p, from, to) ==                   \* 13 / 23: set_tid_address(0)
    /\ tpc[p] = from
    /\ ctid' = [ctid EXCEPT ![p] = FALSE]
    /\ tpc' = [tpc EXCEPT ![p] = to]
    /\ UNCHANGED <<hpc, hop, tsm, tls, stk, clo, word, flag, slot, handle, sres, sp, ran, jres, hsync, bad>>

ThreadFreeTsm(p, from, to) ==                       \* 14 / 24: (drop a stored value,) tsm.dealloc()
    /\ tpc[p] = from
    /\ bad' = bad \cup Touch("T", p) \cup FreeOf("tsm", tsm[p], p)
    /\ slot' = [slot EXCEPT ![p] = IF DropResult /\ slot[p] = "Some" THEN "Dropped" ELSE slot[p]]
    /\ tsm' = [tsm EXCEPT ![p] = "freed"]
    /\ tpc' = [tpc EXCEPT ![p] = to]
    /\ UNCHANGED <<hpc, hop, tls, stk, clo, word, flag, ctid, handle, sres, sp, ran, jres, hsync>>

FreeTls(p) ==    \* 15: dealloc(tls); the emptied Box<closure> is freed when df returns
    /\ tpc[p] = "15"
    /\ bad' = bad \cup FreeOf("tls", tls[p], p) \cup FreeOf("closure", clo[p], p)
    /\ tls' = [tls EXCEPT ![p] = "freed"]
    /\ clo' = [clo EXCEPT ![p] = "freed"]
    /\ tpc' = [tpc EXCEPT ![p] = "16"]
    /\ UNCHANGED <<hpc, hop, tsm, stk, word, flag, slot, ctid, handle, sres, sp, ran, jres, hsync>>

PanicFreeTls(p) ==  \* 20: panic handler: dealloc(tls) (the closure box is never freed)
    /\ tpc[p] = "20"
    \* PanicTakesPrintLock: a handler that first acquires a lock the panicking closure may hold waits for ever
    /\ ~(PanicTakesLock /\ p \in PanicHoldsLock)
    /\ bad' = bad \cup FreeOf("tls", tls[p], p)
    /\ tls' = [tls EXCEPT ![p] = "freed"]
    /\ tpc' = [tpc EXCEPT ![p] = "21"]
    /\ UNCHANGED <<hpc, hop, tsm, stk, clo, word, flag, slot, ctid, handle, sres, sp, ran, jres, hsync>>

\* kernel side of a thread exit
ClearTidBad(p) == IF ctid[p] /\ tsm[p] # "live" THEN {<<"use_after_release_tsm", "K", p>>} ELSE {}
ClearTidWord(p) == IF ctid[p] THEN [word EXCEPT ![p] = 0] ELSE word
\* FUTEX_WAKE(&word, 1): wakes H if it is parked on this very word
WakeHpc(p) == IF ctid[p] /\ hpc = "parked" /\ P = p THEN Woken ELSE hpc

Epilogue(p) ==   \* 16 / 25: munmap own stack, exit
    /\ tpc[p] \in {"16", "25"}
    /\ stk' = [stk EXCEPT ![p] = "freed"]
    /\ IF KernelAtomic
       THEN /\ word' = ClearTidWord(p)
            /\ hpc' = WakeHpc(p)
            /\ bad' = bad \cup FreeOf("stack", stk[p], p) \cup ClearTidBad(p)
            /\ tpc' = [tpc EXCEPT ![p] = "gone"]
       ELSE /\ tpc' = [tpc EXCEPT ![p] = "k1"]
            /\ bad' = bad \cup FreeOf("stack", stk[p], p)
            /\ UNCHANGED <<word, hpc>>
    /\ UNCHANGED <<hop, tsm, tls, clo, flag, slot, ctid, handle, sres, sp, ran, jres, hsync>>

ClearTidStore0(p) ==   \* kernel: put_user(0, clear_child_tid)
    /\ tpc[p] = "k1"
    /\ word' = ClearTidWord(p)
    /\ bad' = bad \cup ClearTidBad(p)
    /\ tpc' = [tpc EXCEPT ![p] = "k2"]
    /\ UNCHANGED <<hpc, hop, tsm, tls, stk, clo, flag, slot, ctid, handle, sres, sp, ran, jres, hsync>>

FutexWakeExit(p) ==    \* kernel: futex_wake(clear_child_tid, 1)
    /\ tpc[p] = "k2"
    /\ hpc' = WakeHpc(p)
    /\ tpc' = [tpc EXCEPT ![p] = "gone"]
    /\ UNCHANGED <<hop, tsm, tls, stk, clo, word, flag, slot, ctid, handle, sres, sp, ran, jres, hsync, bad>>

----------------------------------------------------------------------------
HNext == \/ HStartSpawn \/ AllocTsm \/ BoxClosure \/ AfterClosure \/ AllocTlsPinned \/ Clone \/ ReturnHandle
         \/ HSkipOp \/ JoinStart \/ LoadAcquire \/ LoadRelaxed \/ FutexWait
         \/ JoinReadSlot \/ JoinFreeTsm \/ DropStart \/ DropFlagCas \/ DropFreeTsm

TNext(p) == \/ RunClosure(p) \/ WriteSlot(p) \/ ChildFlagCas(p) \/ PanicFlagCas(p)
            \/ SetTidAddressNull(p, "13", "14") \/ SetTidAddressNull(p, "23", "24")
            \/ ThreadFreeTsm(p, "14", "15") \/ ThreadFreeTsm(p, "24", "25")
            \/ FreeTls(p) \/ PanicFreeTls(p) \/ Epilogue(p)

KNext(p) == ClearTidStore0(p) \/ FutexWakeExit(p)

Terminated == hpc = "done" /\ \A p \in Threads : tpc[p] \in {"none", "gone"}

Next == \/ HNext
        \/ \E p \in Threads : TNext(p) \/ KNext(p)
        \/ SpuriousWake
        \/ (Terminated /\ UNCHANGED vars)

Fairness == /\ WF_vars(HNext)
            /\ \A p \in Threads : WF_vars(TNext(p)) /\ WF_vars(KNext(p))
Spec == Init /\ [][Next]_vars /\ Fairness

----------------------------------------------------------------------------
(* Properties.  C05                                                         *)
RunsOnce == \A p \in Threads : /\ ran[p] <= 1
                               /\ (Terminated /\ sres[p] = "ok" => ran[p] = 1)
                               /\ (sres[p] = "err" => ran[p] = 0)
JoinAfterExit == \A x \in bad : x[1] # "slot_read_before_thread_exit"
JoinValue == \A p \in Threads : jres[p] # "-" => (jres[p] = "Some" <=> Fin[p] = "ret")
ResultVisible == \A x \in bad : x[1] # "no_happens_before"
\* a handle exists only for a thread that exists; an Err leaves nothing behind (checked at the end)
SpawnFailsCleanly == \A p \in Threads :
    /\ (handle[p] # "none" => tpc[p] # "none")
    /\ (Terminated /\ sres[p] = "err" => /\ tsm[p] \in {"none", "freed"} /\ tls[p] \in {"none", "freed"}
                                         /\ stk[p] \in {"none", "freed"} /\ clo[p] \in {"none", "freed"})
\* JoinTerminates: no deadlock outside Terminated (TLC deadlock check) and
JoinTerminates == <>(hpc = "done")

(* C06 *)
Created(p) == tpc[p] # "none"
Consumed(p) == handle[p] \in {"joined", "dropped"}
ReleasedExactlyOnce ==
    /\ \A x \in bad : x[1] # "released_twice"
    /\ Terminated => \A p \in Threads : Created(p) /\ Consumed(p) =>
                        tsm[p] = "freed" /\ tls[p] = "freed" /\ stk[p] = "freed"
NoUseAfterRelease == \A x \in bad : x[1] \notin {"use_after_release_tsm", "tsm_released_before_thread_exit"}
ClosureFreedUnlessPanic ==
    Terminated => \A p \in Threads : Created(p) => (clo[p] = "freed" <=> Fin[p] = "ret")
ResultDropped ==
    Terminated => \A p \in Threads : (Created(p) /\ Fin[p] = "ret" /\ Consumed(p)) => slot[p] \in {"Moved", "Dropped"}
BaselineRestored ==
    Terminated => \A p \in Threads : (Consumed(p) \/ sres[p] = "err") =>
        /\ tsm[p] \in {"none", "freed"} /\ tls[p] \in {"none", "freed"} /\ stk[p] \in {"none", "freed"}
        /\ (clo[p] = "live" => Created(p) /\ Fin[p] = "panic")

TypeOK == /\ hpc \in {"60", "3", "1", "2", "4", "6", "50a", "50r", "51", "parked", "31", "32", "40", "43", "done"}
          /\ \A p \in Threads : /\ tsm[p] \in RS /\ tls[p] \in RS /\ stk[p] \in RS /\ clo[p] \in RS
                                /\ word[p] \in {0, 1}
=============================================================================
