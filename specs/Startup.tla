------------------------------ MODULE Startup ------------------------------
(* C07 - start-up data of a no-libc program: argument vector, environment block, auxiliary   *)
(* vector, environment lookup.                                                               *)
(*                                                                                           *)
(* PROPERTY LEVEL (definitional, nothing about the code):                                    *)
(*   the initial stack is a sequence of words  argc, argv[1..argc], 0, envp..., 0,           *)
(*   (key, value)..., AT_NULL  plus a string heap (byte sequence, address = index, 0 = null);*)
(*   Args / EnvBlock / Aux read it the way the ABI defines it; Lookup(env, key) is the value *)
(*   of the FIRST entry whose name (bytes before its first '=') equals key exactly.          *)
(* ALGORITHM LEVEL (transcription of tiny-start/src/start.rs resolve, elf/aux.rs from_auxv,  *)
(*   tiny-std/src/env.rs var / var_unix / ArgsOs::next, rusl UnixStr::match_up_to(_str)):    *)
(*   a state machine stepping one loop iteration at a time over the same stack and heap.     *)
(* TLC checks, for every case of the bounded domain, that the walk delivers exactly what the *)
(* definitions say and never reads outside the stack / past a string terminator.             *)
(* Version = "pinned" is the algorithm as found (accepts an entry whose name is a proper     *)
(* prefix of the key - TLC exhibits it, the C07 check confirmed it on the real code);        *)
(* Version = "fixed1" after the first repair (whole key must match); TLC still rejects it: a *)
(* key containing '=' ("A=") answers from the entry "A==y" although no NAME contains '=';     *)
(* Version = "fixed" is the algorithm after the second repair (such a key matches nothing).   *)
(* Version = "noterm" = "fixed" without the terminator test of match_up_to_str (an            *)
(* independent mutant): a key with an embedded NUL then matches ACROSS two adjacent strings   *)
(* - TLC shows the read past the terminator (ReadsInBounds) and the wrong answer.             *)
EXTENDS Integers, Sequences, FiniteSets

EQ == 61   \* '='
Missing == <<"missing">>
Ok(v) == <<"ok", v>>
NotUnicode == <<"notunicode">>
\* var hands out a &str: the value of the FIRST matching entry converted; in the model a value is UTF-8 iff it is ASCII
\* (the bounded domains use 255 as the one non-UTF-8 byte)
AsciiV(v) == \A i \in 1..Len(v) : v[i] < 128
Conv(x) == IF x = Missing THEN Missing ELSE IF AsciiV(x[2]) THEN x ELSE NotUnicode

\* ------------------------------------------------------------------------------------------
\* property level
\* ------------------------------------------------------------------------------------------
HasEq(e) == \E i \in 1..Len(e) : e[i] = EQ
EqPos(e) == CHOOSE i \in 1..Len(e) : e[i] = EQ /\ \A j \in 1..(i-1) : e[j] # EQ
Name(e) == SubSeq(e, 1, EqPos(e) - 1)
Value(e) == SubSeq(e, EqPos(e) + 1, Len(e))
Hits(env, key) == {i \in 1..Len(env) : HasEq(env[i]) /\ Name(env[i]) = key}
First(S) == CHOOSE i \in S : \A j \in S : i <= j
Lookup(env, key) == IF Hits(env, key) = {} THEN Missing ELSE Ok(Value(env[First(Hits(env, key))]))
\* What a lookup may answer.  For the empty key the statement is silent about whether an entry
\* "=v" has the (empty) name: POSIX names are non-empty and getenv("") finds nothing, so
\* "missing" is admitted as well.
LookupAdmissible(env, key) == {Lookup(env, key)} \cup (IF key = <<>> THEN {Missing} ELSE {})

\* the stack / heap picture
CStrEnd(heap, p) == CHOOSE e \in p..Len(heap) : heap[e] = 0 /\ \A j \in p..(e-1) : heap[j] # 0
CStr(heap, p) == SubSeq(heap, p, CStrEnd(heap, p) - 1)
Argc(st) == st[1]
Args(st, heap) == [i \in 1..Argc(st) |-> CStr(heap, st[1 + i])]
EnvStart(st) == Argc(st) + 3
EnvCount(st) == LET s == EnvStart(st)
                IN CHOOSE n \in 0..Len(st) : st[s + n] = 0 /\ \A j \in 0..(n-1) : st[s + j] # 0
EnvBlock(st, heap) == LET s == EnvStart(st)
                          n == EnvCount(st)
                      IN [i \in 1..n |-> CStr(heap, st[s + i - 1])]
AuxStart(st) == EnvStart(st) + EnvCount(st) + 1
\* (LETs: TLC evaluates a zero-argument LET definition once)
AuxLenFrom(st, s) == CHOOSE n \in 0..Len(st) : st[s + 2*n] = 0 /\ \A j \in 0..(n-1) : st[s + 2*j] # 0
AuxLen(st) == AuxLenFrom(st, AuxStart(st))
AuxKeys(st) == LET s == AuxStart(st)
                   n == AuxLenFrom(st, s)
               IN {st[s + 2*j] : j \in 0..(n-1)}
\* value of the entry with that key (the kernel writes each key at most once), 0 if absent
Aux(st, key) == LET s == AuxStart(st)
                    n == AuxLenFrom(st, s)
                    J == {j \in 0..(n-1) : st[s + 2*j] = key}
                IN IF J = {} THEN 0 ELSE st[s + 2 * (CHOOSE j \in J : TRUE) + 1]

\* building the picture from vectors (what execve does): strings laid out back to back
RECURSIVE Lay(_, _, _)
Lay(strs, heap, ptrs) ==    \* -> <<heap, ptrs>>
    IF strs = <<>> THEN <<heap, ptrs>>
    ELSE Lay(Tail(strs), heap \o Head(strs) \o <<0>>, Append(ptrs, Len(heap) + 1))
RECURSIVE Flat(_)
Flat(pairs) == IF pairs = <<>> THEN <<>> ELSE <<Head(pairs)[1], Head(pairs)[2]>> \o Flat(Tail(pairs))
MkHeapPtrs(argv, env) == Lay(argv \o env, <<0>>, <<>>)    \* heap[1] is a pad byte: no string at address 1..  (0 stays null)
MkHeap(argv, env) == MkHeapPtrs(argv, env)[1]
MkStack(argv, env, aux) ==
    LET p == MkHeapPtrs(argv, env)[2]
    IN <<Len(argv)>> \o SubSeq(p, 1, Len(argv)) \o <<0>> \o SubSeq(p, Len(argv) + 1, Len(p)) \o <<0>>
       \o Flat(aux) \o <<0, 0>>

\* ------------------------------------------------------------------------------------------
\* algorithm level
\* ------------------------------------------------------------------------------------------
CONSTANTS Version,     \* "pinned" | "fixed"
          Argvs,       \* set of argument vectors (sequences of byte strings)
          Entries,     \* set of environment entries (byte strings)
          MaxEnv,      \* env blocks = sequences of at most MaxEnv entries
          Keys,        \* lookup keys
          Auxvs,       \* set of aux vectors (sequences of <<key, value>>, keys distinct, # 0)
          Fns          \* subset of {"args_os", "var", "var_unix", "boot"}
\* the aux keys from_auxv collects (rusl::platform::AT_*)
AT == [phdr |-> 3, phent |-> 4, phnum |-> 5, base |-> 7, uid |-> 11, gid |-> 13,
       secure |-> 23, random |-> 25, execfn |-> 31, sysinfo_ehdr |-> 33]
AuxNames == DOMAIN AT
ZeroAux == [nm \in AuxNames |-> 0]

VARIABLES argv, env, aux, key, fn,    \* the case
          st, heap,                   \* the kernel's picture of it
          pc,
          argc, argvp, envp,          \* Env { arg_c, arg_v, env_p } (stack indices)
          off,                        \* null_offset / i / ind / env walk offset
          akey, coll,                 \* from_auxv: current key, collected AuxValues
          it,                         \* match_up_to(_str): it
          out,                        \* items yielded by args_os / lookup result
          rdw, rdb, rdk               \* observation: stack index / heap address / key index read by the last step
vars == <<argv, env, aux, key, fn, st, heap, pc, argc, argvp, envp, off, akey, coll, it, out, rdw, rdb, rdk>>
kase == <<argv, env, aux, key, fn, st, heap>>

EnvBlocks == UNION {[1..k -> Entries] : k \in 0..MaxEnv}
\* keys made from the block itself: a whole entry "NAME=value"; an entry, a NUL and the name of the NEXT entry
\* (the strings lie back to back in memory); an entry's name followed by NUL
NameOrAll(e) == IF HasEq(e) THEN Name(e) ELSE e
\* for an entry whose VALUE contains '=' (A=B=c): the text in front of each later '=' ("A=B"), that text with the
\* '=' ("A=B="), and the piece between two '=' with the leading one ("=B")
EqPositions(e) == {i \in 1..Len(e) : e[i] = EQ}
ValueEqKeys(e) == UNION {{SubSeq(e, 1, p - 1), SubSeq(e, 1, p)} \cup {SubSeq(e, q, p - 1) : q \in {x \in EqPositions(e) : x < p}}
                         : p \in {x \in EqPositions(e) : \E y \in EqPositions(e) : y < x}}
DerivedKeys(b) == {b[k] : k \in 1..Len(b)}
                  \cup UNION {ValueEqKeys(b[k]) : k \in 1..Len(b)}
                  \cup {b[k] \o <<0>> \o NameOrAll(b[k + 1]) : k \in 1..(Len(b) - 1)}
                  \cup {NameOrAll(b[k]) \o <<0>> : k \in 1..Len(b)}

Init ==
    /\ fn \in Fns
    /\ argv \in Argvs
    /\ env \in EnvBlocks
    /\ aux \in Auxvs
    /\ key \in (IF fn = "var" THEN Keys \cup DerivedKeys(env)
               ELSE IF fn = "var_unix" THEN {k \in Keys \cup DerivedKeys(env) : \A x \in 1..Len(k) : k[x] # 0}   \* a &UnixStr holds no NUL
               ELSE {<<>>})
    /\ st = MkStack(argv, env, aux)
    /\ heap = MkHeap(argv, env)
    /\ pc = "resolve"
    /\ argc = 0 /\ argvp = 0 /\ envp = 0 /\ off = 0 /\ akey = 0 /\ coll = ZeroAux /\ it = 0
    /\ out = <<>> /\ rdw = {} /\ rdb = {} /\ rdk = {}

NoReads == rdw' = {} /\ rdb' = {} /\ rdk' = {}

\* resolve(): argc = *stack_ptr; argv = stack_ptr + 8; envp = stack_ptr + 8 + argc*8 + 8
Resolve ==
    /\ pc = "resolve"
    /\ argc' = st[1]
    /\ argvp' = 2
    /\ envp' = 1 + 1 + st[1] + 1
    /\ off' = 0
    /\ pc' = "scan_env"
    /\ rdw' = {1} /\ rdb' = {} /\ rdk' = {}
    /\ UNCHANGED <<kase, akey, coll, it, out>>
\* loop { if *(envp + null_offset) == 0 break; null_offset += 1 }   then aux_v_ptr = that + 1
ScanEnv ==
    /\ pc = "scan_env"
    /\ rdw' = {envp + off} /\ rdb' = {} /\ rdk' = {}
    /\ IF st[envp + off] = 0
       THEN /\ pc' = "aux_first"
            /\ off' = envp + off + 1          \* off now holds the stack index of auxv
       ELSE /\ pc' = "scan_env"
            /\ off' = off + 1
    /\ UNCHANGED <<kase, argc, argvp, envp, akey, coll, it, out>>
\* from_auxv: let mut i = 0; let mut key = *auxv;   (off = auxv, it = i)
AuxFirst ==
    /\ pc = "aux_first"
    /\ akey' = st[off]
    /\ it' = 0
    /\ pc' = "aux_loop"
    /\ rdw' = {off} /\ rdb' = {} /\ rdk' = {}
    /\ UNCHANGED <<kase, argc, argvp, envp, off, coll, out>>
\* while key != 0 { if key <= 51 { match key { AT_x => collected.x = *(auxv + i + 1) ... } } i += 2; key = *(auxv + i) }
AuxLoop ==
    /\ pc = "aux_loop"
    /\ IF akey # 0
       THEN /\ coll' = IF akey <= 51 /\ \E nm \in AuxNames : AT[nm] = akey
                       THEN [coll EXCEPT ![CHOOSE nm \in AuxNames : AT[nm] = akey] = st[off + it + 1]]
                       ELSE coll
            /\ it' = it + 2
            /\ akey' = st[off + it + 2]
            /\ rdw' = (IF akey <= 51 /\ \E nm \in AuxNames : AT[nm] = akey THEN {off + it + 1} ELSE {}) \cup {off + it + 2}
            /\ rdb' = {} /\ rdk' = {}
            /\ pc' = "aux_loop"
            /\ UNCHANGED off
       ELSE /\ pc' = "main"
            /\ off' = 0 /\ it' = 0
            /\ NoReads
            /\ UNCHANGED <<coll, akey>>
    /\ UNCHANGED <<kase, argc, argvp, envp, out>>
\* second repair: `if key contains '=' { return Missing }` - a name ends at the first '='
\* ("lasteq": an independent mutant - only the key's LAST byte is looked at)
KeyHasEq == \/ Version \in {"fixed", "noterm"} /\ \E k \in 1..Len(key) : key[k] = EQ
            \/ Version = "lasteq" /\ Len(key) > 0 /\ key[Len(key)] = EQ
\* main(): the call under study
Main ==
    /\ pc = "main"
    /\ NoReads
    /\ off' = 0 /\ it' = 0
    /\ pc' = CASE fn = "boot" -> "done"
               [] fn = "args_os" -> "args_next"
               [] fn \in {"var", "var_unix"} -> IF KeyHasEq THEN "done" ELSE "var_entry"
    /\ out' = IF fn \in {"var", "var_unix"} /\ KeyHasEq THEN Missing ELSE out
    /\ UNCHANGED <<kase, argc, argvp, envp, akey, coll>>
\* ArgsOs::next: if ind < num_args { arg = *(arg_v + ind); ind += 1; if arg.is_null() None else Some(from_ptr(arg)) } else None
\* (off = ind; from_ptr = strlen scan of the heap, modelled as one step reading up to the terminator)
ArgsNext ==
    /\ pc = "args_next"
    /\ IF off < argc
       THEN /\ rdw' = {argvp + off}
            /\ IF st[argvp + off] = 0
               THEN pc' = "done" /\ out' = out /\ rdb' = {}
               ELSE /\ out' = Append(out, CStr(heap, st[argvp + off]))
                    /\ rdb' = st[argvp + off]..CStrEnd(heap, st[argvp + off])
                    /\ pc' = "args_next"
            /\ off' = off + 1
            /\ rdk' = {}
       ELSE pc' = "done" /\ NoReads /\ UNCHANGED <<off, out>>
    /\ UNCHANGED <<kase, argc, argvp, envp, akey, coll, it>>
\* var / var_unix: let var_ptr = *env_ptr; if null -> Missing   (off = entries walked)
VarEntry ==
    /\ pc = "var_entry"
    /\ rdw' = {envp + off} /\ rdb' = {} /\ rdk' = {}
    /\ IF st[envp + off] = 0
       THEN pc' = "done" /\ out' = Missing
       ELSE pc' = "match" /\ out' = out
    /\ it' = 0
    /\ UNCHANGED <<kase, argc, argvp, envp, off, akey, coll>>
\* the key as the callee sees it: var gets a &str (pointer + length, no terminator),
\* var_unix a &UnixStr (terminated)
KeyAt(i) == IF i <= Len(key) THEN key[i] ELSE 0    \* i is 1-based; position Len+1 is var_unix's NUL
\* (a load outside the picture delivers whatever lies there - ReadsInBounds reports it)
EntryAt(i) == IF st[envp + off] + i - 1 \in 1..Len(heap) THEN heap[st[envp + off] + i - 1] ELSE 1
\* match_up_to_str(entry, key): if key.len() == 0 return 0; loop { a = entry[it]; b = key[it];
\*     if a != b || a == 0 return it; it += 1; if it == key.len() return it }
\* match_up_to(key, entry): loop { a = key[it]; b = entry[it]; if a != b || a == 0 return it; it += 1 }
Match ==
    /\ pc = "match"
    /\ IF fn = "var" /\ Len(key) = 0
       THEN /\ pc' = "matched" /\ it' = 0 /\ NoReads
       ELSE /\ rdb' = {st[envp + off] + it} /\ rdk' = {it + 1} /\ rdw' = {}
            /\ IF fn = "var"
               THEN IF EntryAt(it + 1) # KeyAt(it + 1) \/ (Version # "noterm" /\ EntryAt(it + 1) = 0)
                    THEN pc' = "matched" /\ it' = it
                    ELSE IF it + 1 = Len(key) THEN pc' = "matched" /\ it' = it + 1
                                              ELSE pc' = "match" /\ it' = it + 1
               ELSE IF KeyAt(it + 1) # EntryAt(it + 1) \/ KeyAt(it + 1) = 0
                    THEN pc' = "matched" /\ it' = it
                    ELSE pc' = "match" /\ it' = it + 1
    /\ UNCHANGED <<kase, argc, argvp, envp, off, akey, coll, out>>
\* pinned:  if match_up_to != 0 { if *(var_ptr + match_up_to) == '=' { return value } }  env_ptr += 1
\* fixed:   if match_up_to != 0 && match_up_to == key length { ... }
Accept == IF Version = "pinned" THEN it # 0 ELSE it # 0 /\ it = Len(key)
Matched ==
    /\ pc = "matched"
    /\ rdw' = {} /\ rdk' = {}
    /\ IF Accept
       THEN /\ rdb' = {st[envp + off] + it} \cup
                      (IF EntryAt(it + 1) = EQ THEN (st[envp + off] + it + 1)..CStrEnd(heap, st[envp + off]) ELSE {})
            /\ IF EntryAt(it + 1) = EQ
               THEN /\ out' = IF fn = "var" THEN Conv(Ok(CStr(heap, st[envp + off] + it + 1)))     \* from_utf8(value).map_err(NotUnicode)
                                         ELSE Ok(CStr(heap, st[envp + off] + it + 1))
                    /\ pc' = "done" /\ off' = off
               ELSE /\ out' = out /\ pc' = "var_entry" /\ off' = off + 1
       ELSE /\ rdb' = {}
            /\ out' = out /\ pc' = "var_entry" /\ off' = off + 1
    /\ UNCHANGED <<kase, argc, argvp, envp, akey, coll, it>>
Done == pc = "done" /\ UNCHANGED vars

Next == Resolve \/ ScanEnv \/ AuxFirst \/ AuxLoop \/ Main \/ ArgsNext \/ VarEntry \/ Match \/ Matched \/ Done
Spec == Init /\ [][Next]_vars /\ WF_vars(Next)

\* ------------------------------------------------------------------------------------------
\* what TLC checks
\* ------------------------------------------------------------------------------------------
\* the picture is the one the vectors describe (the definitions invert MkStack)
PictureOk == pc = "resolve" =>       \* (the case never changes: checked once per case)
             /\ Args(st, heap) = argv
             /\ EnvBlock(st, heap) = env
             /\ \A p \in 1..Len(aux) : Aux(st, aux[p][1]) = aux[p][2]
\* (argc, argvp, envp, coll are not assigned after "main": checking there covers every later state)
BootCorrect ==
    pc = "main" => /\ argc = Argc(st)
              /\ argvp = 2
              /\ envp = EnvStart(st)
              /\ \A nm \in AuxNames : coll[nm] = Aux(st, AT[nm])
ArgsCorrect == (pc = "done" /\ fn = "args_os") => out = Args(st, heap)
LookupCorrect ==
    /\ (pc = "done" /\ fn = "var_unix") => out \in LookupAdmissible(EnvBlock(st, heap), key)
    /\ (pc = "done" /\ fn = "var") => out \in {Conv(x) : x \in LookupAdmissible(EnvBlock(st, heap), key)}
\* every load is inside the stack / inside a string including its terminator / inside the key buffer
ReadsInBounds ==
    /\ \A w \in rdw : w \in 1..Len(st)
    /\ \A b \in rdb : b \in 2..Len(heap)
    /\ pc \in {"match", "matched"} /\ rdb # {} => \A b \in rdb : b <= CStrEnd(heap, st[envp + off])
    /\ \A k \in rdk : k <= (IF fn = "var" THEN Len(key) ELSE Len(key) + 1)
Terminates == <>(pc = "done")
=============================================================================
