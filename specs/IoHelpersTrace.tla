-------------------------- MODULE IoHelpersTrace --------------------------
(* Judges recorded runs of the REAL helpers (harness/src/bin/iohelp.rs), one run per       *)
(* ndjson line: the case (op, script, data, init, cap0, n, pieces) and what was observed   *)
(* (calls = <<requested/offered, kind, n>> per call of the scripted read()/write(), err,   *)
(* rn, buf, pos, panic).                                                                    *)
(*  (1) property level: Judge(r) - the observed outcome must be one the definitional        *)
(*      operators of IoHelpers.tla admit for (init, data, script); a panic is none.  Lines  *)
(*      that fail are printed under "JUDGED" - these are the VIOLATIONS.                    *)
(*  (2) algorithm level: every line is an initial state of the transcription, whose steps   *)
(*      are constrained to reproduce the logged calls one by one (capacities after a        *)
(*      reallocation are taken from the logged request lengths, subject to reserve's        *)
(*      contract cap >= len + 32).  A run whose log the transcription can follow to the     *)
(*      end, with the same outcome, prints <<"T", line, TRUE>>; the others diverged from    *)
(*      the model (model drift / zero-length requests / calls after end of file) - reported *)
(*      in the evidence, never a violation by themselves.                                   *)
EXTENDS IoHelpers, TLC, Json, IOUtils, SequencesExt
Rec == ndJsonDeserialize(IOEnv.TRACE)

Obs(r) == [err |-> r.err, n |-> r.rn, buf |-> r.buf, pos |-> r.pos]
Judge(r) ==
    IF r.op = "print" THEN PrintOK(r) ELSE
    IF r.op = "pipe" THEN PipeOK(r) ELSE
    IF r.op = "impl" THEN ImplOK(r) ELSE
    /\ r.panic = ""
    /\ CASE r.op = "read_to_end"    -> ReadToEndOK(Obs(r), r.init, r.data, r.script)
         [] r.op = "read_to_string" -> ReadToStringOK(Obs(r), r.init, r.data, r.script)
         [] r.op = "read_exact"     -> ReadExactOK(Obs(r), r.n, r.data, r.script)
         [] r.op \in WriteOps       -> /\ WriteOK(Obs(r), r.data, r.pieces, r.script, r.ff)
                                       /\ WriteLogOK(Obs(r), r.data, r.calls, r.ff)
Bad == {i \in 1..Len(Rec) : ~Judge(Rec[i])}
ASSUME PrintT(<<"JUDGED", ToJson([n |-> Len(Rec), bad |-> SetToSeq(Bad)])>>)

VARIABLE line
LC == Rec[line].calls
\* capacity after reserve(32) on a full vector, read off the next logged request
TraceGrow(len, c) ==
    IF Len(calls) < Len(LC) THEN {x \in {len + LC[Len(calls) + 1][1]} : x >= len + 32} ELSE {}
\* capacity after the probe's extend_from_slice: read off the request that follows the probe call
TraceProbeGrow(c, n) ==
    IF Len(calls) + 1 < Len(LC) THEN {x \in {c + n + LC[Len(calls) + 2][1]} : x >= c + n} ELSE {}

CaseOf(r) == [op |-> r.op, script |-> r.script, data |-> r.data, init |-> r.init, cap0 |-> r.cap0,
              n |-> r.n, pieces |-> r.pieces, ff |-> r.ff]
TInit == /\ line \in {i \in 1..Len(Rec) : Rec[i].panic = ""}
         /\ InitFor(CaseOf(Rec[line]))
TNext == /\ Next
         /\ UNCHANGED line
         /\ Len(calls') <= Len(LC)
         /\ \A i \in 1..Len(calls') : calls'[i] = LC[i]
Conforms == /\ calls = LC /\ bad = {}
            /\ ret.err = Rec[line].err /\ ret.n = Rec[line].rn
            /\ pos = Rec[line].pos
            /\ IF case.op = "read_exact"       \* the destination slice beyond what was filled is not modelled
               THEN Len(Rec[line].buf) = case.n /\ vec = SubSeq(Rec[line].buf, 1, Len(vec))
               ELSE vec = Rec[line].buf
Report == pc = "done" => /\ PrintT(<<"T", line, Conforms>>)
                         /\ (Conforms => PrintT(<<"A", ToJson(SetToSeq(acts))>>))

\* configuration for files that hold only "print" / "pipe" records (nothing to replay)
PInit == /\ line = 0
         /\ InitFor([op |-> "write_all", script |-> <<>>, data |-> <<>>, init |-> <<>>, cap0 |-> 0, n |-> 0, pieces |-> <<0>>, ff |-> 0])
PNext == UNCHANGED <<vars, line>>
=============================================================================
