------------------------------ MODULE Machine ------------------------------
(* Shared conventions of the shared-memory machine used by Mutex.tla, RwLock.tla and the   *)
(* trace judge SyncTrace.tla (properties C01, C02).                                         *)
(*                                                                                          *)
(* Atomic words are sequentially consistent in the models (stated limit); what the memory   *)
(* orderings decide is HAPPENS-BEFORE for the non-atomic data behind the guard:             *)
(*   - every data access gets an id; each thread has a knowledge set of access ids that     *)
(*     happen-before its next step; each atomic location has a published set (what the      *)
(*     release sequence headed by its current value carries);                               *)
(*   - a store with release semantics publishes the writer's knowledge, a relaxed store     *)
(*     cuts the sequence; a read-modify-write of ANY ordering continues the sequence and    *)
(*     adds the writer's knowledge iff it has release semantics (C++20 release sequences);  *)
(*   - a load / RMW / failed CAS with acquire semantics imports the published set;          *)
(*   - a data access races unless every earlier conflicting access is in the accessor's     *)
(*     knowledge set.                                                                       *)
(* Futex calls create no happens-before edge (conservative).                                *)
EXTENDS Integers, FiniteSets, Sequences

Orderings == {"Relaxed", "Acquire", "Release", "AcqRel", "SeqCst"}
IsAcq(o) == o \in {"Acquire", "AcqRel", "SeqCst"}
IsRel(o) == o \in {"Release", "AcqRel", "SeqCst"}

\* knowledge k after reading (load, RMW, failed CAS) with ordering o a location publishing p
Import(k, o, p) == IF IsAcq(o) THEN k \cup p ELSE k
\* published set after a read-modify-write with ordering o by a thread whose knowledge
\* (after the import of the same operation) is k
PubRmw(p, o, k) == IF IsRel(o) THEN p \cup k ELSE p
\* published set after a plain store
PubStore(o, k) == IF IsRel(o) THEN k ELSE {}

\* Data accesses: lastW = id of the last write (0 = none yet), reads = ids of the reads since.
WriteRaces(k, lastW, reads) == (lastW # 0 /\ lastW \notin k) \/ ~(reads \subseteq k)
ReadRaces(k, lastW) == lastW # 0 /\ lastW \notin k

\* Futex: wait(expect) parks iff the word still holds expect, else EAGAIN; wake(n) wakes
\* exactly min(n, number parked) waiters of that word, any choice of them.
WakeSets(q, n) == {S \in SUBSET q : Cardinality(S) = (IF n < Cardinality(q) THEN n ELSE Cardinality(q))}
=============================================================================
