CONSTANTS
  N = 4
  Progs <- P4
  Ord <- OrdCode
  MaxSpur = 1000
  MaxEintr = 1000
INIT TraceInit
NEXT TraceNext
CHECK_DEADLOCK FALSE
