---------------------------- MODULE PasswdGen ----------------------------
(* X02 model checking + B3 generator for getpwuid_r.  Files are built line by line from    *)
(* TemplateSel (indices into Templates) up to MaxLines lines, with and without the final    *)
(* newline; for every uid in UidSet, buffer size in BufSet and initial buffer content in    *)
(* PrefillSet the TRANSCRIPTION (Passwd!Iter) is run to its result; at the end the          *)
(* DEFINITION's admissible set is computed and the vector {F, uid, B, pre, adm, tr, trok}  *)
(* printed.  trok = FALSE is a model-level counterexample: never a verdict by itself - the  *)
(* driver replays every vector into the real getpwuid_r (bind-mounted /etc/passwd).         *)
EXTENDS Passwd, Json, IOUtils
CONSTANTS Mode, TemplateSel, MaxLines, UidSet, BufSet, PrefillSet
VARIABLES F, nl, uid, B, pre, buf, pos, res, steps, ph
vars == <<F, nl, uid, B, pre, buf, pos, res, steps, ph>>

Templates == <<
    <<97,58,120,58,49,58,49,58,58,47,58,47,115>>,                       \* 1  a:x:1:1::/:/s
    <<98,98,58,121,58,50,58,50,48,58,71,58,47,104,58,47,116>>,          \* 2  bb:y:2:20:G:/h:/t
    <<99,58,120,58,48,58,48,58,58,47,58,47,114>>,                       \* 3  c:x:0:0::/:/r
    <<100,58,120,58,58,53,58,58,47,58,47,115>>,                         \* 4  d:x::5::/:/s       empty uid
    <<101,58,120,58,49,97,58,53,58,58,47,58,47,115>>,                   \* 5  e:x:1a:5::/:/s     non-numeric uid
    <<102,58,120,58,45,49,58,53,58,58,47,58,47,115>>,                   \* 6  f:x:-1:5::/:/s     signed uid
    <<115,104,111,114,116,58,120,58,53>>,                               \* 7  short:x:5          missing fields
    <<58,120,58,53,58,53,58,58,47,58,47,115>>,                          \* 8  :x:5:5::/:/s       empty name
    <<103,58,120,58,53,58,53,58,58,47,58,47,115,58,116>>,               \* 9  g:x:5:5::/:/s:t    eight fields
    <<104,58,120,58,48,53,58,53,58,58,47,58,47,115>>,                   \* 10 h:x:05:5::/:/s     leading zero
    <<105,58,120,58,53,58,53,58,255,58,47,58,47,115>>,                  \* 11 i:x:5:5:\xff:/:/s  non-UTF-8 gecos
    <<>>,                                                               \* 12 (empty line)
    <<106,58,120,58,55,58,55,58,58,47,58,47,98,105,110,47,108,111,110,103,47,115,104,101,108,108,47,112,97,116,104>>
>>                                                                      \* 13 j:x:7:7::/:/bin/long/shell/path
Decoy == <<122,58,120,58,57,58,57,58,58,47,58,47,122,10>>               \* z:x:9:9::/:/z\n  (never in a file)
Prefill(kind, n) ==
    [i \in 1..n |-> IF kind = "zero" THEN 0 ELSE IF kind = "nl" THEN NL ELSE Decoy[((i - 1) % Len(Decoy)) + 1]]

\* Mode = "file": the inputs are read from an ndjson file ({F, uid, B, pre} per line: random,
\* realistic and long files written by the check) instead of being enumerated
Rec == IF Mode = "file" THEN ndJsonDeserialize(IOEnv.TRACE) ELSE <<>>
Init ==
    IF Mode = "file"
    THEN \E i \in 1..Len(Rec) :
            /\ F = Rec[i].F /\ nl = i /\ ph = "run" /\ uid = Rec[i].uid /\ B = Rec[i].B /\ pre = Rec[i].pre
            /\ LET rd == ReadInto(F, 0, Prefill(pre, B), 1) IN buf = rd.buf /\ pos = rd.pos
            /\ res = Running /\ steps = 0
    ELSE /\ F = <<>> /\ nl = 0 /\ ph = "build"
         /\ uid \in {ToDigits(u) : u \in UidSet} /\ B \in BufSet /\ pre \in PrefillSet
         /\ buf = <<>> /\ pos = 0 /\ res = Running /\ steps = 0
AddLine ==
    /\ ph = "build" /\ nl < MaxLines
    /\ \E t \in TemplateSel : F' = F \o Templates[t] \o <<NL>>
    /\ nl' = nl + 1
    /\ UNCHANGED <<uid, B, pre, buf, pos, res, steps, ph>>
\* start the lookup on the file as built, or on the file without its final newline
Go ==
    /\ ph = "build" /\ ph' = "run"
    /\ \E strip \in BOOLEAN :
          /\ strip => (F # <<>> /\ F[Len(F) - 1 + 1] = NL /\ Len(F) >= 2 /\ F[Len(F) - 1] # NL)
          /\ F' = IF strip THEN SubSeq(F, 1, Len(F) - 1) ELSE F
    /\ LET rd == ReadInto(F', 0, Prefill(pre, B), 1)             \* the read before the loop
       IN buf' = rd.buf /\ pos' = rd.pos
    /\ UNCHANGED <<nl, uid, B, pre, res, steps>>
\* one iteration of the refill loop; more iterations than any terminating run can need = hang
LoopIter ==
    /\ ph = "run" /\ res = Running
    /\ LET n == Iter(F, uid, buf, pos)
       IN IF steps > 2 * (Len(F) + B) + 4
          THEN buf' = buf /\ pos' = pos /\ res' = Res("hang", <<>>)
          ELSE buf' = n.buf /\ pos' = n.pos /\ res' = n.res
    /\ steps' = steps + 1
    /\ UNCHANGED <<F, nl, uid, B, pre, ph>>
Done == ph = "run" /\ res # Running /\ UNCHANGED vars
Next == AddLine \/ Go \/ LoopIter \/ Done

AtEnd ==
    res = Running \/
    LET adm == Lookup(F, uid, B)
        trok == res.r = "unmodelled" \/ Accepts(adm, res)
    IN PrintT(<<"P", ToJson([F |-> F, uid |-> uid, B |-> B, pre |-> pre, adm |-> SetToSeq(adm),
                             tr |-> res, trok |-> trok, steps |-> steps, n |-> nl])>>)
=============================================================================
