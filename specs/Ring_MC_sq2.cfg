CONSTANTS
  NS = 2
  NC = 2
  H = 8
  Side = "sq"
  SqStarts <- AllStarts
  CqStarts <- OneStart
  Wrapping = TRUE
  DebugChecks = TRUE
  CqEmptyLE = FALSE
  AtomicReapRead = FALSE
INIT Init
NEXT Next
INVARIANTS TypeOK PropertyHolds CountersConsistent
CHECK_DEADLOCK FALSE
