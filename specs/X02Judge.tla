------------------------------ MODULE X02Judge ------------------------------
(* X02 judge: recorded runs of the real code on inputs TLC did not generate (random and    *)
(* long passwd files, big uids, long / NUL-free buffers, host names), one JSON object per  *)
(* line, decided against the definitional operators of Passwd.tla and Strlen.tla.           *)
EXTENDS Passwd, Json, IOUtils
S == INSTANCE Strlen
Rec == ndJsonDeserialize(IOEnv.TRACE)
Ok(r) ==
    IF r.k = "passwd" THEN Accepts(Lookup(r.F, r.uid, r.B), r.out)
    ELSE IF r.k = "strlen" THEN /\ r.buf_strlen = S!BufStrlen(r.b)
                                /\ (S!Nuls(r.b) # {} => r.strlen = S!StrlenDef(r.b))
    ELSE IF r.k = "host" THEN LET d == S!NodeName(r.name) IN r.out.r = d.r /\ (d.r = "ok" => r.out.name = d.name)
    ELSE FALSE
Bad == {i \in 1..Len(Rec) : ~Ok(Rec[i])}
ASSUME \A i \in Bad : Rec[i].k # "passwd" \/
          PrintT(<<"BAD", ToJson([i |-> i, adm |-> SetToSeq(Lookup(Rec[i].F, Rec[i].uid, Rec[i].B))])>>)
ASSUME PrintT(<<"JUDGED", ToJson([n |-> Len(Rec), bad |-> SetToSeq(Bad)])>>)
VARIABLE x
Init == x = 0
Next == UNCHANGED x
=============================================================================
