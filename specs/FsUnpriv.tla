------------------------------ MODULE FsUnpriv ------------------------------
(* C14 with process-wide state as a scenario dimension: the same operations run by an UNPRIVILEGED uid *)
(* (a forked child of the driver after setresgid/setresuid) on trees prepared by root with entries    *)
(* owned by root and by that uid.  IOEnv.TRACE (ndjson): one record per scenario                       *)
(*   {scenario, op, std, tiny, same}: std = what the same-named std::fs operation did as that uid on  *)
(*   a twin tree (the reference the property names), tiny = what tiny_std::fs did, same = the          *)
(*   observable result agrees (listing as a set of (name, type) without the dots; what is left after   *)
(*   remove_dir_all; bytes read).                                                                      *)
(* Whatever std::fs performs successfully must succeed here too, with the same result; where std       *)
(* fails nothing is demanded.                                                                          *)
EXTENDS Sequences, FiniteSets, TLC, Json, IOUtils, SequencesExt
Rec == ndJsonDeserialize(IOEnv.TRACE)
Judge(r) == r.std = "ok" => (r.tiny = "ok" /\ r.same)
Bad == {j \in 1..Len(Rec) : ~Judge(Rec[j])}
ASSUME PrintT(<<"JUDGED", ToJson([n |-> Len(Rec), bad |-> SetToSeq(Bad)])>>)
VARIABLE x
Init == x = 0
Next == UNCHANGED x
=============================================================================
