------------------------------ MODULE Vdso_MC ------------------------------
(* Bounded images for Vdso.tla: string tables with and without tail merging, symbol tables of *)
(* up to MaxSyms entries, section-header orders, alignments.                                   *)
EXTENDS Vdso, TLC
CONSTANTS MaxSyms, Values, Shndxs, TextAligns, RequireAligned
VARIABLE img
T == <<7, 8>>          \* stands for "__vdso_clock_gettime"
\* string tables: <<bytes, offsets at which a symbol name may point>>
StrTabs == { << <<0, 7, 8, 0, 9, 0>>, {1, 4} >>,            \* T, A
             << <<0, 9, 0, 7, 8, 0>>, {1, 3, 4} >>,         \* A, T and the tail-merged suffix "8" inside T
             << <<0, 5, 7, 8, 0, 9, 0>>, {1, 2, 5} >>,      \* X = "5 7 8": T exists only as a suffix of X (offset 2)
             << <<0>>, {} >>,                               \* empty table
             << <<0, 0, 7, 8, 0>>, {2} >> }                 \* an empty string in front of T
SHSTR == <<46, 115>>
TEXT == <<46, 116>>
Sec(n, a) == [name |-> n, align |-> a]
\* section header lists: <<sections, e_shstrndx, 0-based index of .text>>
SecLists(a) == { << <<Sec(<<>>, 0), Sec(DYNSYM, 8), Sec(DYNSTR, 1), Sec(TEXT, a), Sec(SHSTR, 1)>>, 4, 3 >>,
                 << <<Sec(<<>>, 0), Sec(DYNSTR, 1), Sec(TEXT, a), Sec(DYNSYM, 8), Sec(SHSTR, 1)>>, 4, 2 >>,
                 << <<Sec(<<>>, 0), Sec(DYNSTR, 1), Sec(TEXT, a), Sec(SHSTR, 1)>>, 3, 2 >>,      \* no .dynsym
                 << <<Sec(<<>>, 0), Sec(DYNSYM, 8), Sec(DYNSTR, 1), Sec(TEXT, a), Sec(SHSTR, 1)>>, 0, 3 >> }   \* e_shstrndx = 0
NullSym == [name |-> 0, value |-> 0, shndx |-> 0]
Images ==
    UNION { UNION { UNION {
        { [sections |-> sl[1], shstrndx |-> sl[2], dynstr |-> st[1],
           dynsym |-> <<NullSym>> \o [k \in 1..n |-> [name |-> nm[k], value |-> vl[k], shndx |-> IF sx[k] = 0 THEN 0 ELSE sl[3]]]]
          : nm \in [1..n -> st[2]], vl \in [1..n -> Values], sx \in [1..n -> Shndxs] }
        : n \in 0..(IF st[2] = {} THEN 0 ELSE MaxSyms) } : sl \in UNION {SecLists(a) : a \in TextAligns} } : st \in StrTabs }
Init == img \in Images /\ (RequireAligned => SymbolsAligned(img))
Next == UNCHANGED img
ResolutionAdmissible == Resolve(img, T) \in Admissible(img, T)
PinnedAdmissible == ResolvePinned(img, T) \in Admissible(img, T)
\* it is found whenever the name starts a string of the table and both tables exist (no silent loss of the vDSO path)
FoundWhenPresent ==
    (img.shstrndx # 0 /\ FindName(img.dynstr, T, 1) # NotFound /\ (\E k \in 1..Len(img.sections) : img.sections[k].name = DYNSYM)
     /\ \E j \in 1..Len(img.dynsym) : img.dynsym[j].name = FindName(img.dynstr, T, 1))
    => Resolve(img, T) # NotFound
=============================================================================
