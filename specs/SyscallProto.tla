---------------------------- MODULE SyscallProto ----------------------------
(* C09, algorithm level: the wrapper/kernel protocol of Syscall.tla as a state machine, with  *)
(* the decoding idioms found in rusl transcribed as written.                                  *)
EXTENDS SyscallIdioms
(* ---------------------------------------------------------------------------------------- *)
(* The same protocol as a state machine (explored exhaustively by Syscall_MC.cfg: every      *)
(* behaviour of a conforming wrapper over a small raw domain satisfies the invariants, and   *)
(* the decoding idioms found in rusl - including the ones that look wrong - are compared     *)
(* with Decode in the model before they are looked for in the code).                         *)
CONSTANTS RawDom,      \* finite set of raw values the kernel may answer with
          Idiom,       \* one of SyscallIdioms!IdiomSeq
          MaxIssues    \* re-issue budget of the model
VARIABLES pc, issues, answers, result

vars == <<pc, issues, answers, result>>

IdiomStep(raw) == IdiomStepOf(Idiom, raw)
IdiomKind  == IdiomKindOf(Idiom)
IdiomRetry == IdiomRetryOf(Idiom)

Init == pc = "idle" /\ issues = 0 /\ answers = <<>> /\ result = [tag |-> "pending"]

Issue == /\ pc = "idle"
         /\ issues < MaxIssues
         /\ pc' = "issued" /\ issues' = issues + 1
         /\ UNCHANGED <<answers, result>>

Answer(raw) == /\ pc = "issued"
               /\ answers' = Append(answers, raw)
               /\ pc' = "answered"
               /\ UNCHANGED <<issues, result>>

Decide == /\ pc = "answered"
          /\ LET r == IdiomStep(answers[Len(answers)])
             IN  IF r.tag = "retry"
                 THEN pc' = "idle" /\ UNCHANGED result
                 ELSE pc' = "done" /\ result' = r
          /\ UNCHANGED <<issues, answers>>

OutOfBudget == /\ pc = "idle" /\ issues = MaxIssues
               /\ pc' = "limit"
               /\ UNCHANGED <<issues, answers, result>>

Next == Issue \/ (\E raw \in RawDom : Answer(raw)) \/ Decide \/ OutOfBudget
Spec == Init /\ [][Next]_vars

TypeOK == /\ pc \in {"idle", "issued", "answered", "done", "limit"}
          /\ issues \in 0..MaxIssues
          /\ Len(answers) <= MaxIssues

\* the property, on the model
ReturnConforms == pc = "done" => Conforms(IdiomKind, IdiomRetry, answers, issues, "returned", result)
LimitConforms  == pc = "limit" => Conforms(IdiomKind, IdiomRetry, answers, issues, "limit", result)
\* reachability probes (anti-vacuity): violated on purpose in Syscall_MC_probe.cfg
NeverDone  == pc # "done"
NeverLimit == pc # "limit"
=============================================================================
