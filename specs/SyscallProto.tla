---------------------------- MODULE SyscallProto ----------------------------
(* C09, algorithm level: the wrapper/kernel protocol of Syscall.tla as a state machine, with  *)
(* the decoding idioms found in rusl transcribed as written.                                  *)
EXTENDS Syscall
(* ---------------------------------------------------------------------------------------- *)
(* The same protocol as a state machine (explored exhaustively by Syscall_MC.cfg: every      *)
(* behaviour of a conforming wrapper over a small raw domain satisfies the invariants, and   *)
(* the decoding idioms found in rusl - including the ones that look wrong - are compared     *)
(* with Decode in the model before they are looked for in the code).                         *)
CONSTANTS RawDom,      \* finite set of raw values the kernel may answer with
          Idiom,       \* "bail" | "coerce" | "dup_plus16" | "dup_minus16" | "execve_raw" | "execve_neg"
          MaxIssues    \* re-issue budget of the model
VARIABLES pc, issues, answers, result

vars == <<pc, issues, answers, result>>

\* What the idiom computes from the raw answer: "retry" or a result.
\*   bail        bail_on_below_zero!: raw > usize::MAX - 4095 => Err(0 - raw as i32)
\*   coerce      Fd::coerce_from_register: same test, Ok(raw as i32)
\*   dup_plus16  dup3 as written in the pinned tree: retry iff (raw as i32) = +16, then bail
\*   dup_minus16 dup3 retrying iff the answer is -EBUSY
\*   execve_raw  execve as written: Err(raw as i32)      execve_neg: Err(0 - raw as i32)
As32(raw) == raw   \* sign-preserving truncation is the identity on "pos"/"neg" classes
IdiomStep(raw) ==
    CASE Idiom = "bail"   -> IF IsErr(raw) THEN [tag |-> "err", code |-> raw[2]] ELSE [tag |-> "unit"]
      [] Idiom = "coerce" -> IF IsErr(raw) THEN [tag |-> "err", code |-> raw[2]] ELSE [tag |-> "val", v |-> As32(raw)]
      [] Idiom = "dup_plus16" ->
             IF SameRaw(raw, Pos(EBUSY)) THEN [tag |-> "retry"]
             ELSE IF IsErr(raw) THEN [tag |-> "err", code |-> raw[2]] ELSE [tag |-> "unit"]
      [] Idiom = "dup_minus16" ->
             IF SameRaw(raw, Neg(EBUSY)) THEN [tag |-> "retry"]
             ELSE IF IsErr(raw) THEN [tag |-> "err", code |-> raw[2]] ELSE [tag |-> "unit"]
      [] Idiom = "execve_raw" -> [tag |-> "err", code |-> IF raw[1] = "neg" THEN 0 - raw[2] ELSE IF raw[1] = "pos" THEN raw[2] ELSE 0]
      [] Idiom = "execve_neg" -> [tag |-> "err", code |-> IF raw[1] = "neg" THEN raw[2] ELSE IF raw[1] = "pos" THEN 0 - raw[2] ELSE 0]

IdiomKind  == CASE Idiom \in {"bail", "dup_plus16", "dup_minus16"} -> "unit"
                [] Idiom = "coerce" -> "i32"
                [] OTHER -> "noreturn"
IdiomRetry == IF Idiom \in {"dup_plus16", "dup_minus16"} THEN "ebusy" ELSE "none"

Init == pc = "idle" /\ issues = 0 /\ answers = <<>> /\ result = [tag |-> "pending"]

Issue == /\ pc = "idle"
         /\ issues < MaxIssues
         /\ pc' = "issued" /\ issues' = issues + 1
         /\ UNCHANGED <<answers, result>>

Answer(raw) == /\ pc = "issued"
               /\ answers' = Append(answers, raw)
               /\ pc' = "answered"
               /\ UNCHANGED <<issues, result>>

Decide == /\ pc = "answered"
          /\ LET r == IdiomStep(answers[Len(answers)])
             IN  IF r.tag = "retry"
                 THEN pc' = "idle" /\ UNCHANGED result
                 ELSE pc' = "done" /\ result' = r
          /\ UNCHANGED <<issues, answers>>

OutOfBudget == /\ pc = "idle" /\ issues = MaxIssues
               /\ pc' = "limit"
               /\ UNCHANGED <<issues, answers, result>>

Next == Issue \/ (\E raw \in RawDom : Answer(raw)) \/ Decide \/ OutOfBudget
Spec == Init /\ [][Next]_vars

TypeOK == /\ pc \in {"idle", "issued", "answered", "done", "limit"}
          /\ issues \in 0..MaxIssues
          /\ Len(answers) <= MaxIssues

\* the property, on the model
ReturnConforms == pc = "done" => Conforms(IdiomKind, IdiomRetry, answers, issues, "returned", result)
LimitConforms  == pc = "limit" => Conforms(IdiomKind, IdiomRetry, answers, issues, "limit", result)
\* reachability probes (anti-vacuity): violated on purpose in Syscall_MC_probe.cfg
NeverDone  == pc # "done"
NeverLimit == pc # "limit"
=============================================================================
