CONSTANTS
  RawDom <- Dom
  Idiom = "dup_minus16"
  MaxIssues = 3
SPECIFICATION Spec
INVARIANTS NeverLimit
CHECK_DEADLOCK FALSE
