------------------------------ MODULE AllocTrace ------------------------------
(* Trace specification (binding B2): replays executions recorded from the REAL allocator   *)
(* (harness/src/bin/alloc.rs: tiny-std's Dlmalloc over a simulated mmap/mremap/munmap) on    *)
(* the abstract state of AllocAbs.tla and evaluates the invariants of AllocAbs after every  *)
(* single recorded step.  One TLC state per recorded event; many runs per file, separated   *)
(* by `reset` events.  Nothing is guarded: the effect of an observed step is applied as    *)
(* observed, the invariants decide.  The names of the invariants violated by a step are     *)
(* collected (at most MaxBad steps per run) and printed as one JSON document at the end.    *)
(*                                                                                          *)
(* Events (ndjson; addresses = byte offsets into the simulated arena, -1 = null/refused):   *)
(*   {"ev":"reset","run":k,"c04":bool,"base":n,"real":bool}  new run: empty heap, nothing   *)
(*        mapped; real = the run used the REAL mmap/mremap/munmap (no hook): no OS events,  *)
(*        offsets relative to a window around the first pointer, Accessible is not judged   *)
(*        (a null result has no refusal to justify it and is rejected below Huge)           *)
(*   {"ev":"call","op":"malloc|calloc|realloc|free","id":n,"size":s,"align":a}              *)
(*   {"ev":"os","call":"mmap","size":s,"off":o}    o = -1: the OS refused                   *)
(*   {"ev":"os","call":"munmap","off":o,"size":s}                                           *)
(*   {"ev":"os","call":"remap","off":o,"old":s1,"new":s2,"ret":o|-1}    in place            *)
(*   {"ev":"ret","off":o,"ok":b,"zero":b,"prefix":b}   result and the recorder's flags      *)
(*   {"ev":"rep"}                                   end of a workload repetition            *)
(*   {"ev":"rep","fp":f,"hi":h}  real-OS runs: growth of the process' address space (VmSize) *)
(*                                at the mark / its maximum since the previous mark          *)
(*   {"ev":"panic"|"crash"|"timeout", ...}          the allocator did not return            *)
(*   {"ev":"end"}                                   end of run: full invariants             *)
(*   {"ev":"heap","segs":[{"base":b,"size":s,"chunks":[[addr,size,kind],..]},..]}           *)
(*        the chunk layout the allocator reports after a call (cfg-only accessors): judged  *)
(*        against DlHeap.tla (structure, refinement to live/mapped, chunk-exact reuse);     *)
(*        failures are collected separately as MODEL DRIFT, they are never violations.      *)
EXTENDS AllocAbs, TLC, Json, IOUtils, SequencesExt

D == INSTANCE DlHeap WITH Al <- 16, Ovh <- 8, MinChunk <- 32, Foot <- 80, RecSize <- 48, Tails <- {32, 48}

Rec == ndJsonDeserialize(IOEnv.TRACE)
NRec == Len(Rec)
MaxBad == 6

VARIABLES
    i,      \* number of events consumed
    run,    \* current run
    c04,    \* the run is a C04 workload run (envelope applies)
    real,   \* the run used the real OS (nothing is known about mapped)
    exact,  \* the run repeats a periodic workload: MarksSteady applies
    bad,    \* violations: sequence of [run, line, inv]
    nbad,   \* violating steps in the current run
    seen,   \* invariants already reported in the current run
    heap,   \* last chunk layout reported by the allocator (<<>> if none in this run)
    hknown, \* a layout was reported in this run
    drift,  \* model drift: sequence of [run, line, what]
    done
tvars == <<i, run, c04, real, exact, bad, nbad, seen, heap, hknown, drift, done>>

Names == {"Aligned", "Disjoint", "Accessible", "Intact", "PrivateAnonymous", "NullJustified", "OomClean", "Returns",
          "ReleaseOnce", "NoGratuitousMap", "SteadyState", "MarksSteady", "Envelope"}

AtEnd == obs.ev = "end"
Holds(n) ==
    CASE n = "Aligned"         -> AlignedStep /\ (AtEnd => Aligned)
      [] n = "Disjoint"        -> DisjointStep /\ (AtEnd => Disjoint)
      [] n = "Accessible"      -> real \/ (AccessibleStep /\ (AtEnd => Accessible))
      [] n = "Intact"          -> Intact
      [] n = "PrivateAnonymous" -> PrivateAnonymous
      [] n = "NullJustified"   -> NullJustified
      [] n = "OomClean"        -> OomClean
      [] n = "Returns"         -> obs.ev \notin {"panic", "crash", "timeout"}
      [] n = "ReleaseOnce"     -> ReleaseOnce
      [] n = "NoGratuitousMap" -> NoGratuitousMap
      [] n = "SteadyState"     -> SteadyStateStep /\ (AtEnd => SteadyState)
      [] n = "MarksSteady"     -> exact => (MarksSteadyStep /\ (AtEnd => MarksSteady))
      [] n = "Envelope"        -> c04 => Envelope
Violated == {n \in Names : ~Holds(n)}

Mark(kind) ==
    /\ obs' = [Obs0 EXCEPT !.ev = kind]
    /\ UNCHANGED <<mapped, pieces, live, call, holes, plive, peak, reps, hw, base>>

ResetEff(e) ==
    /\ mapped' = {} /\ pieces' = {} /\ live' = {} /\ call' = NoCall
    /\ holes' = {} /\ plive' = 0 /\ peak' = 0 /\ reps' = <<>> /\ hw' = 0 /\ base' = e.base
    /\ obs' = Obs0

Apply(e) ==
    CASE e.ev = "reset" -> ResetEff(e)
      [] e.ev = "call"  -> BeginEff(e.op, e.id, e.size, e.align)
      [] e.ev = "os" /\ e.call = "mmap" ->
            IF e.off < 0 THEN RefuseEff ELSE MapEff(e.off, e.size)
      [] e.ev = "os" /\ e.call = "mapinfo" -> MapInfoEff(e.private, e.anon, e.rw)
      [] e.ev = "os" /\ e.call = "munmap" ->
            IF e.size = 0 THEN Mark("noop") ELSE UnmapEff(e.off, e.off + e.size)
      [] e.ev = "os" /\ e.call = "remap" ->
            IF e.new = e.old THEN Mark("noop")
            ELSE IF e.ret < 0 THEN (IF e.new > e.old THEN RefuseEff ELSE Mark("noop"))
            ELSE RemapEff(e.off, e.old, e.new)
      [] e.ev = "ret"   -> RetEff(e.off, e.ok, e.zero, e.prefix)
      [] e.ev = "rep"   -> IF real THEN RepEffAt(e.fp, e.hi) ELSE RepEff
      [] OTHER          -> Mark(e.ev)     \* end, panic, crash, timeout

TInit ==
    /\ Init
    /\ i = 0 /\ run = 0 /\ c04 = FALSE /\ real = FALSE /\ exact = FALSE /\ bad = <<>> /\ nbad = 0 /\ seen = {} /\ done = FALSE
    /\ heap = <<>> /\ hknown = FALSE /\ drift = <<>>

\* model drift observed at this event (evaluated on the state BEFORE the event is applied:
\* a heap event does not change live/mapped, an OS request is judged against the layout
\* reported after the previous call)
DriftAt(e) ==
    IF e.ev = "heap" THEN D!Drift(e.segs, live, mapped)
    ELSE IF e.ev = "ret" /\ ~real /\ e.dlfp >= 0 /\ e.dlfp # Footprint THEN {"FootprintAccounting"}
    ELSE IF e.ev = "os" /\ e.call = "mmap" /\ hknown /\ call.op \in AllocOps \cup {"realloc"}
                        /\ D!HasRoom(heap, call.size, call.align)
         THEN {"ExactReuse"}
    ELSE {}

Step ==
    /\ i < NRec
    /\ i' = i + 1
    /\ LET e == Rec[i + 1] IN
        /\ Apply(e)
        /\ run' = IF e.ev = "reset" THEN e.run ELSE run
        /\ c04' = IF e.ev = "reset" THEN e.c04 ELSE c04
        /\ real' = IF e.ev = "reset" THEN e.real ELSE real
        /\ exact' = IF e.ev = "reset" THEN ("exact" \in DOMAIN e /\ e.exact) ELSE exact
        /\ heap' = IF e.ev = "reset" THEN <<>> ELSE IF e.ev = "heap" THEN e.segs ELSE heap
        /\ hknown' = IF e.ev = "reset" THEN FALSE ELSE IF e.ev = "heap" THEN TRUE ELSE hknown
        /\ LET d == DriftAt(e) IN
             drift' = IF d = {} \/ Len(drift) >= 200 THEN drift
                      ELSE Append(drift, [run |-> run', line |-> i + 1, what |-> SetToSeq(d)])
        /\ LET v == Violated'
               n0 == IF e.ev = "reset" THEN 0 ELSE nbad
               s0 == IF e.ev = "reset" THEN {} ELSE seen
           IN  /\ nbad' = IF v = {} THEN n0 ELSE n0 + 1
               /\ seen' = s0 \cup v
               \* at most MaxBad violating steps per run are reported, plus every step that
               \* violates an invariant not yet reported in this run
               /\ bad' = IF v = {} \/ (n0 >= MaxBad /\ v \subseteq s0) THEN bad
                         ELSE Append(bad, [run |-> run', line |-> i + 1, inv |-> SetToSeq(v)])
    /\ UNCHANGED done

Finish ==
    /\ i = NRec /\ ~done
    /\ done' = TRUE
    /\ PrintT(<<"VERDICT", ToJson([n |-> NRec, runs |-> run, bad |-> bad, drift |-> drift])>>)
    /\ UNCHANGED <<vars, i, run, c04, real, exact, bad, nbad, seen, heap, hknown, drift>>

TNext == Step \/ Finish
=============================================================================
