------------------------------ MODULE RingIndX ------------------------------
(* TLC cross-check that the typed copy RingInd.tla cannot drift from Ring.tla: under the     *)
(* mapping below (W = 2H; a model counter m of Ring stands for the real value 2^32-H+m, i.e. *)
(* (H + m) mod 2H in a machine of width 2H; stamps likewise; slot JS / JC of the ring memory; *)
(* the FIFO lengths of the RingAbs monitor as the ghost counters) every reachable state of    *)
(* Ring satisfies RingInd's IndInv and Props, every initial state of Ring is one of RingInd,  *)
(* and EVERY transition of Ring is a transition of RingInd (action refinement).  So RingInd   *)
(* has at least the behaviours of Ring - which is bound to the real code by the replayed      *)
(* transition tours - and what Apalache proves of RingInd at width 2^32 is about that code.   *)
EXTENDS Ring
CONSTANTS JS, JC
AllStarts == 0..(2*H-1)
OneStart == {0}
Map(m) == (H + m) % (2*H)
MapS(t) == IF t = -1 THEN -1 ELSE Map(t)
Unfilled == Cardinality({i \in 1..NS : want[i] # -1})
KSetTLC == 1..(IF NS > NC THEN NS ELSE NC)
CountersTLC == 0..(2*H-1)
RetsTLC == -2..(2*H)

RI == INSTANCE RingInd WITH
        W <- 2*H, DS <- 0, DC <- 0, CqEmptyLE <- FALSE, PlainSub <- FALSE,
        sqHead <- Map(sqHead), sqTail <- Map(sqTail), kSqHead <- Map(kSqHead), kSqTail <- Map(kSqTail),
        kCqHead <- Map(kCqHead), kCqTail <- Map(kCqTail),
        sqCell <- MapS(sqSlot[JS + 1]), cqCell <- MapS(cqSlot[JC + 1]), wantJ <- MapS(want[JS + 1]),
        unfilled <- Unfilled, held <- held, nextStamp <- Map(nextStamp), cStamp <- Map(cStamp), pc <- pc,
        out <- Len(abs.sq) + Len(abs.ho), fl <- Len(abs.sq), pend <- Len(abs.cq)

InitIsInit == (sqHead = sqTail /\ kSqHead = kSqTail /\ kSqHead = sqHead /\ kCqHead = kCqTail /\ abs = A!AbsInit(NS, NC)
               /\ held = -1 /\ Unfilled = 0 /\ \A i \in 1..NS : sqSlot[i] = -1) => (cqSlot[JC + 1] # -1 \/ RI!Init)
IndInvHolds == RI!IndInv
PropsHold == RI!Props
StepIsStep == [][RI!Next]_vars
=============================================================================
