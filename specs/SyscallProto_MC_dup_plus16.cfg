CONSTANTS
  RawDom <- Dom
  Idiom = "dup_plus16"
  MaxIssues = 3
SPECIFICATION Spec
INVARIANTS TypeOK ReturnConforms LimitConforms
CHECK_DEADLOCK FALSE
