\* the guard looks at the last byte of the key only: TLC must find entry A=a=b, key A=a -> ok(b)
\* every environment block of at most 2 entries x every key x {var, var_unix}
CONSTANTS
  Version = "lasteq"
  Argvs <- ArgvOne
  Entries <- EntriesQ
  MaxEnv = 2
  Keys <- KeysQ
  Auxvs <- AuxOne
  Fns = {"var", "var_unix"}
SPECIFICATION Spec
INVARIANTS PictureOk BootCorrect ArgsCorrect LookupCorrect ReadsInBounds
PROPERTY Terminates
