CONSTANTS
  Alpha = {97, 98, 47, 46}
  MaxLen = 2
  Mode = "pair"
INIT Init
NEXT Next
INVARIANTS Emit C10FollowsFromC11 C10Ctors
CHECK_DEADLOCK FALSE
