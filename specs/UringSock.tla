------------------------------ MODULE UringSock ------------------------------
(* C18, socket operations: a small model of one listening unix stream socket and two client  *)
(* sockets, used to GENERATE scripts of connect / accept / sendmsg / recvmsg (with and        *)
(* without a passed descriptor) in which no step can block forever: accept only with a        *)
(* pending connection, recvmsg only with queued bytes.  Error paths included: connect on a    *)
(* connected socket, sendmsg on an unconnected one.  The scripts (transition tour of the      *)
(* dumped graph) are run through the io_uring wrapper and as direct system calls on twin      *)
(* sockets; the result each step has in this model is compared too (drift information), the   *)
(* verdict is UringOps!Judge on ring vs direct.                                               *)
EXTENDS Integers, Sequences, FiniteSets, TLC
CONSTANTS MaxQ
Clients == 1..2
\* listeners: 0 = bound to a path name; 1..3 = bound to ABSTRACT names (leading NUL, length-delimited): a short one,
\* one with interior NUL bytes, one of maximal length - there the address LENGTH carried by connect matters.
\* Client 1 connects to the path listener, client 2 (itself bound to an abstract name, so that accept reports a peer
\* address of non-trivial length) to one of the abstract listeners.
VARIABLES lis,     \* lis[c]: the listener client c connected to
          cs,      \* cs[c] \in {"new", "pending", "accepted"}
          order,   \* clients waiting in the listener's backlog, oldest first
          q,       \* q[c]: bytes the client sent that the server side has not received
          fdq      \* fdq[c]: the queued byte carries a passed descriptor
svars == <<lis, cs, order, q, fdq>>

SInit == /\ cs = [c \in Clients |-> "new"] /\ order = <<>> /\ lis = [c \in Clients |-> 0]
         /\ q = [c \in Clients |-> 0] /\ fdq = [c \in Clients |-> FALSE]

Connect(c, l) ==   \* result 0, or -EISCONN on a connected socket
    /\ IF c = 1 THEN l = 0 ELSE l \in 1..3
    /\ IF cs[c] = "new"
       THEN cs' = [cs EXCEPT ![c] = "pending"] /\ order' = Append(order, c) /\ lis' = [lis EXCEPT ![c] = l]
       ELSE UNCHANGED <<cs, order, lis>>
    /\ UNCHANGED <<q, fdq>>
Accept(l) ==       \* on listener l; result: a descriptor for the connection pending there
    /\ \E i \in 1..Len(order) :
         /\ lis[order[i]] = l
         /\ cs' = [cs EXCEPT ![order[i]] = "accepted"]
         /\ order' = [j \in 1..(Len(order) - 1) |-> IF j < i THEN order[j] ELSE order[j + 1]]
    /\ UNCHANGED <<q, fdq, lis>>
Send(c, n) ==      \* result n, or -ENOTCONN
    /\ n \in {1, 5} /\ ~fdq[c]
    /\ IF cs[c] = "new" THEN UNCHANGED q
       ELSE q[c] + n <= MaxQ /\ q' = [q EXCEPT ![c] = @ + n]
    /\ UNCHANGED <<cs, order, fdq, lis>>
SendFd(c) ==       \* one byte carrying one descriptor, only onto an empty queue
    /\ cs[c] # "new" /\ q[c] = 0 /\ ~fdq[c]
    /\ q' = [q EXCEPT ![c] = 1] /\ fdq' = [fdq EXCEPT ![c] = TRUE]
    /\ UNCHANGED <<cs, order, lis>>
Recv(c, n) ==      \* result min(n, queued)
    /\ n \in {3, 16} /\ cs[c] = "accepted" /\ q[c] > 0
    /\ q' = [q EXCEPT ![c] = IF @ > n THEN @ - n ELSE 0]
    /\ fdq' = [fdq EXCEPT ![c] = FALSE]
    /\ UNCHANGED <<cs, order, lis>>

Peek(c, n) ==      \* recvmsg with MSG_PEEK: result min(n, queued), nothing consumed
    /\ n \in {3, 16} /\ cs[c] = "accepted" /\ q[c] > 0 /\ ~fdq[c]
    /\ UNCHANGED svars

SNext == \/ \E c \in Clients : SendFd(c)
         \/ \E c \in Clients, l \in 0..3 : Connect(c, l)
         \/ \E l \in 0..3 : Accept(l)
         \/ \E c \in Clients, n \in {1, 5} : Send(c, n)
         \/ \E c \in Clients, n \in {3, 16} : Recv(c, n) \/ Peek(c, n)

QueueBounded == \A c \in Clients : q[c] \in 0..MaxQ /\ (fdq[c] => q[c] = 1)
=============================================================================
