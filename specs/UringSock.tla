------------------------------ MODULE UringSock ------------------------------
(* C18, socket operations: a small model of one listening unix stream socket and two client  *)
(* sockets, used to GENERATE scripts of connect / accept / sendmsg / recvmsg (with and        *)
(* without a passed descriptor) in which no step can block forever: accept only with a        *)
(* pending connection, recvmsg only with queued bytes.  Error paths included: connect on a    *)
(* connected socket, sendmsg on an unconnected one.  The scripts (transition tour of the      *)
(* dumped graph) are run through the io_uring wrapper and as direct system calls on twin      *)
(* sockets; the result each step has in this model is compared too (drift information), the   *)
(* verdict is UringOps!Judge on ring vs direct.                                               *)
EXTENDS Integers, Sequences, FiniteSets, TLC
CONSTANTS MaxQ
Clients == 1..2
VARIABLES cs,      \* cs[c] \in {"new", "pending", "accepted"}
          order,   \* clients waiting in the listener's backlog, oldest first
          q,       \* q[c]: bytes the client sent that the server side has not received
          fdq      \* fdq[c]: the queued byte carries a passed descriptor
svars == <<cs, order, q, fdq>>

SInit == /\ cs = [c \in Clients |-> "new"] /\ order = <<>>
         /\ q = [c \in Clients |-> 0] /\ fdq = [c \in Clients |-> FALSE]

Connect(c) ==      \* result 0, or -EISCONN on a connected socket
    /\ IF cs[c] = "new"
       THEN cs' = [cs EXCEPT ![c] = "pending"] /\ order' = Append(order, c)
       ELSE UNCHANGED <<cs, order>>
    /\ UNCHANGED <<q, fdq>>
Accept ==          \* result: a descriptor for the oldest pending connection
    /\ order # <<>>
    /\ cs' = [cs EXCEPT ![Head(order)] = "accepted"] /\ order' = Tail(order)
    /\ UNCHANGED <<q, fdq>>
Send(c, n) ==      \* result n, or -ENOTCONN
    /\ n \in {1, 5} /\ ~fdq[c]
    /\ IF cs[c] = "new" THEN UNCHANGED q
       ELSE q[c] + n <= MaxQ /\ q' = [q EXCEPT ![c] = @ + n]
    /\ UNCHANGED <<cs, order, fdq>>
SendFd(c) ==       \* one byte carrying one descriptor, only onto an empty queue
    /\ cs[c] # "new" /\ q[c] = 0 /\ ~fdq[c]
    /\ q' = [q EXCEPT ![c] = 1] /\ fdq' = [fdq EXCEPT ![c] = TRUE]
    /\ UNCHANGED <<cs, order>>
Recv(c, n) ==      \* result min(n, queued)
    /\ n \in {3, 16} /\ cs[c] = "accepted" /\ q[c] > 0
    /\ q' = [q EXCEPT ![c] = IF @ > n THEN @ - n ELSE 0]
    /\ fdq' = [fdq EXCEPT ![c] = FALSE]
    /\ UNCHANGED <<cs, order>>

Peek(c, n) ==      \* recvmsg with MSG_PEEK: result min(n, queued), nothing consumed
    /\ n \in {3, 16} /\ cs[c] = "accepted" /\ q[c] > 0 /\ ~fdq[c]
    /\ UNCHANGED svars

SNext == \/ \E c \in Clients : Connect(c) \/ SendFd(c)
         \/ Accept
         \/ \E c \in Clients, n \in {1, 5} : Send(c, n)
         \/ \E c \in Clients, n \in {3, 16} : Recv(c, n) \/ Peek(c, n)

QueueBounded == \A c \in Clients : q[c] \in 0..MaxQ /\ (fdq[c] => q[c] = 1)
=============================================================================
