---------------------------- MODULE GetPassTrace ----------------------------
(* X03 part 2 binding: what lib/checks/x03.py recorded for get_pass on a real pty pair        *)
(* (system calls of the function from tools/sysinj's log, the terminal flags sampled from the  *)
(* master side, the bytes echoed to the master, the function's result) is replayed through    *)
(* the actions of GetPass.tla - the REQUIRED behaviour.  An event that is not enabled is      *)
(* flagged; the replay goes on.                                                               *)
(*   {"e":"start","seq","orig":{echo,echonl},"empty"}  {"e":"begin"}                          *)
(*   {"e":"ioctl","req":"TCGETS|TCSETS|other","ok"}   {"e":"read","cls":"fits|full|err"}       *)
(*   {"e":"during","echo","echonl"}      sampled from the master while the function reads     *)
(*   {"e":"echoed","leak"}               the master received typed characters back            *)
(*   {"e":"ret","res":"ok|err|panic|hang|none","bytes_ok","valid_utf8","left","faulted"}      *)
(*   {"e":"final","same","echo","echonl"}  all attributes equal to the original ones?         *)
EXTENDS GetPass, Sequences, TLC, Json, IOUtils, SequencesExt
Rec == ndJsonDeserialize(IOEnv.TRACE)
VARIABLES i, bad, seq
tvars == <<vars, i, bad, seq>>

TInit == /\ term = [echo |-> TRUE, echonl |-> FALSE] /\ orig = term /\ saved = term /\ pc = "done" /\ empty = FALSE
         /\ outcome = "none" /\ restoreFailed = FALSE /\ drains = 0 /\ res = "none"
         /\ i = 1 /\ bad = <<>> /\ seq = -1
Flag(e, R) == bad' = IF R = {} THEN bad ELSE Append(bad, [seq |-> seq, e |-> e.e, pc |-> pc, reasons |-> SetToSeq(R)])
If(c, r) == IF c THEN {r} ELSE {}
Skip(e, R) == Flag(e, R) /\ UNCHANGED vars

RetReasons(e) ==
    If(e.res = "panic", "Panicked") \cup If(e.res = "hang", "Hang") \cup If(e.res = "none", "Crashed")
    \cup If(e.res = "ok" /\ ~CanReturn("ok"), "OkWithoutLine")
    \cup If(e.res = "ok" /\ CanReturn("ok") /\ ~e.bytes_ok, "WrongBytes")
    \cup If(e.res = "ok" /\ ~e.valid_utf8, "OkForInvalidUtf8")
    \cup If(e.res = "err" /\ outcome = "line" /\ e.valid_utf8 /\ ~restoreFailed, "ErrForGoodLine")
    \cup If(outcome = "small" /\ ~e.faulted /\ e.left > 0, "NotDrained")

Step(e) ==
    CASE e.e = "start" ->
            /\ term' = e.orig /\ orig' = e.orig /\ saved' = [echo |-> TRUE, echonl |-> FALSE] /\ pc' = "start"
            /\ empty' = e.empty /\ outcome' = "none" /\ restoreFailed' = FALSE /\ drains' = 0 /\ res' = "none"
            /\ seq' = e.seq /\ UNCHANGED bad
      [] e.e = "begin" -> Begin /\ UNCHANGED <<bad, seq>>
      [] e.e = "ioctl" /\ e.req = "TCGETS" ->
            IF pc = "get" THEN Get(e.ok) /\ UNCHANGED <<bad, seq>> ELSE Skip(e, {"UnexpectedSyscall"}) /\ UNCHANGED seq
      [] e.e = "ioctl" /\ e.req = "TCSETS" ->
            IF pc = "set" THEN Set(e.ok) /\ UNCHANGED <<bad, seq>>
            ELSE IF pc = "restore" THEN Restore(e.ok) /\ UNCHANGED <<bad, seq>>
            ELSE IF pc = "ret" /\ restoreFailed THEN RetryRestore(e.ok) /\ UNCHANGED <<bad, seq>>
            ELSE Skip(e, {"UnexpectedSyscall"}) /\ UNCHANGED seq
      [] e.e = "ioctl" /\ e.req = "other" -> Skip(e, {"UnexpectedSyscall"}) /\ UNCHANGED seq
      [] e.e = "read" ->
            IF pc = "read" THEN Read(e.cls) /\ UNCHANGED <<bad, seq>>
            ELSE IF pc = "drain" THEN Drain(IF e.cls = "fits" THEN "end" ELSE IF e.cls = "full" THEN "more" ELSE "err") /\ UNCHANGED <<bad, seq>>
            ELSE Skip(e, {"UnexpectedSyscall"}) /\ UNCHANGED seq
      [] e.e = "during" -> Skip(e, If(e.echo, "EchoOnWhileReading")) /\ UNCHANGED seq
      [] e.e = "echoed" -> Skip(e, If(e.leak, "PasswordEchoed")) /\ UNCHANGED seq
      [] e.e = "ret" ->
            IF pc = "ret"
            THEN /\ Flag(e, RetReasons(e))
                 /\ res' = (IF e.res = "ok" THEN "ok" ELSE "err") /\ pc' = "done"
                 /\ UNCHANGED <<term, orig, saved, empty, outcome, restoreFailed, drains, seq>>
            ELSE /\ Flag(e, (IF pc \in {"read", "drain", "restore"} THEN {"ReturnWithoutRestore"} ELSE {"ReturnedEarly"})
                            \cup If(e.res = "panic", "Panicked") \cup If(e.res = "hang", "Hang") \cup If(e.res = "none", "Crashed"))
                 /\ pc' = "done" /\ res' = "err"
                 /\ UNCHANGED <<term, orig, saved, empty, outcome, restoreFailed, drains, seq>>
      [] e.e = "final" -> Skip(e, If(~e.same /\ ~restoreFailed, "NotRestored")) /\ UNCHANGED seq

TNext == /\ i <= Len(Rec)
         /\ Step(Rec[i])
         /\ i' = i + 1
Done == i = Len(Rec) + 1 => PrintT(<<"DONE", ToJson([events |-> Len(Rec), bad |-> bad])>>)
=============================================================================
