----------------------------- MODULE RingTrace -----------------------------
(* C17, B2: judges executions recorded from the REAL IoUring methods (harness/src/bin/ring.rs,*)
(* a simulated kernel over the ring memory) against the property-level monitor RingAbs.      *)
(* The trace (ndjson, IOEnv.TRACE) holds many runs separated by "reset" events:              *)
(*   {"ev":"reset","run":k,"ns":2,"nc":2,"arr":[0,1]}   arr: submission index array after set-up *)
(*   {"ev":"get","ret":slot|-1|-2|-3}          get_next_sqe_slot (-1 None, -2 panic, -3 bad) *)
(*   {"ev":"fill","slot":i,"stamp":s}          the application wrote the entry               *)
(*   {"ev":"flush","ret":r|-2,"kavail":n}      flush_submission_queue; what the kernel sees  *)
(*   {"ev":"consume","stamps":[..]}            the kernel consumed these entries             *)
(*   {"ev":"post","stamps":[..]}               the kernel posted these completions           *)
(*   {"ev":"reap","ret":slot|-1|-2|-3}         get_next_cqe                                  *)
(*   {"ev":"read","val":s}                     content read through the returned reference   *)
(* One TLC state per event; the first inadmissible observation of each run is               *)
(* printed at once (RINGBAD), a summary at the end (RINGJUDGE).                              *)
EXTENDS Integers, Sequences, TLC, Json, IOUtils
A == INSTANCE RingAbs
Rec == ndJsonDeserialize(IOEnv.TRACE)

VARIABLES i, a, run, nbad
vars == <<i, a, run, nbad>>

Step(e) ==
    CASE e.ev = "reset"   -> A!AbsInitArr(e.ns, e.nc, e.arr)
      [] e.ev = "get"     -> A!AGetSlot(a, e.ret)
      [] e.ev = "fill"    -> A!AFill(a, e.slot, e.stamp)
      [] e.ev = "flush"   -> A!AFlush(a, e.ret, e.kavail)
      [] e.ev = "consume" -> A!AConsume(a, e.stamps)
      [] e.ev = "post"    -> A!APost(a, e.stamps)
      [] e.ev = "reap"    -> A!AReap(a, e.ret)
      [] e.ev = "read"    -> A!ARead(a, e.val)
      [] e.ev = "wakeup"  -> A!AWakeup(a, e.flags, e.ret)
      [] OTHER            -> a

Init == /\ i = 1 /\ a = A!AbsInit(1, 1) /\ run = 0 /\ nbad = 0

Next ==
    \/ /\ i <= Len(Rec)
       /\ LET e == Rec[i]
              a2 == Step(e)
              stale == e.ev = "read" /\ a2.stale /\ ~a.stale
              rejected == a2.why # "" /\ (a.why = "" \/ e.ev = "reset") IN
          /\ a' = a2
          /\ run' = IF e.ev = "reset" THEN e.run ELSE run
          /\ rejected => PrintT(<<"RINGBAD", ToJson([run |-> run, line |-> i, why |-> a2.why])>>)
          /\ stale => PrintT(<<"RINGBAD", ToJson([run |-> run, line |-> i, why |-> "content_overwritten_between_return_and_read"])>>)
          /\ nbad' = nbad + (IF rejected THEN 1 ELSE 0) + (IF stale THEN 1 ELSE 0)
       /\ i' = i + 1
    \/ /\ i = Len(Rec) + 1
       /\ PrintT(<<"RINGJUDGE", ToJson([n |-> Len(Rec), nbad |-> nbad])>>)
       /\ i' = i + 1
       /\ UNCHANGED <<a, run, nbad>>
=============================================================================
