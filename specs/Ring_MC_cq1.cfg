CONSTANTS
  NS = 1
  NC = 1
  H = 4
  Side = "cq"
  SqStarts <- OneStart
  CqStarts <- AllStarts
  Wrapping = TRUE
  DebugChecks = TRUE
  CqEmptyLE = FALSE
  AtomicReapRead = FALSE
INIT Init
NEXT Next
INVARIANTS TypeOK PropertyHoldsButStaleRead CountersConsistent
CHECK_DEADLOCK FALSE
