---------------------------- MODULE SpawnTrace ----------------------------
(* C13, binding B2: judges recorded executions of the real `Command::spawn` against the     *)
(* property-level clauses of SpawnAbs.  The trace (ndjson, IOEnv.TRACE) is a concatenation  *)
(* of runs; each run = what the ptrace tracer saw of the whole process tree (system calls   *)
(* with results and injections, forks, execve arguments, exits, the driver's markers - in    *)
(* particular WHICH task passed the "spawn returned" point), what the driver reported        *)
(* (pipe ends it got, what `wait` returned) and the dump written by the exec'ed helper       *)
(* program (argv, envp, cwd, descriptors 0..2, ids).  One action per event kind rebuilds     *)
(* the observation of SpawnAbs; at the end of each run the violated clauses are printed.     *)
(*                                                                                            *)
(* Events (Appendix A of DESIGN.md, trimmed by lib/checks/c13.py to the fields used):        *)
(*  reset  run, cfg (SpawnAbs.Want's record with real strings; pre = configured results of   *)
(*         the pre-exec closures; planned = the failures the plan causes), facts: dio = the driver's descriptors 0..2 [link, acc],   *)
(*         raw = the descriptors handed over as Stdio::RawFd, pipes = the caller's ends of   *)
(*         Stdio::MakePipe streams as found in the returned Child, pgrp                       *)
(*  fork parent child | sys task nr ret inj | exec task path argv envp ret                   *)
(*  mark task kind ("returned" res code | "pre" idx) | exit task status                       *)
(*  waited res status (one per wait / try_wait call, in order) | dump exe argv envp cwd io uid gid pgrp pid                            *)
(*  io op res n a b head (the caller's reads / writes on the Child's pipes, in order)         *)
(*  anomaly what (timeout, crash, extra task, ...) | end                                      *)
EXTENDS SpawnAbs, TLC, Json, IOUtils

Rec == ndJsonDeserialize(IOEnv.TRACE)

VARIABLES i, st
vars == <<i, st>>

NoImage == [prog |-> "-", argv |-> << >>, envp |-> << >>, cwd |-> "-", io |-> <<"-", "-", "-">>,
            uid |-> -2, gid |-> -2, pg |-> "-"]
NoFacts == [dio |-> << >>, raw |-> << >>, pipes |-> << >>, pgrp |-> 0, pfds |-> << >>, before |-> << >>, pos |-> << >>, nprog |-> 0]
NoCfg == [bin |-> "-", envAlt |-> << >>, planned |-> << >>, feed |-> "", flow |-> << >>, mayHang |-> FALSE, posWant |-> << >>]
Fresh(run, c, facts) ==
    [run |-> run, c |-> [c EXCEPT !.envAlt = Range(@), !.planned = Range(@)], facts |-> facts,
     returns |-> << >>, failed |-> {}, child |-> "none", execd |-> FALSE, image |-> NoImage,
     reaped |-> FALSE, cstatus |-> 0, waits |-> NoWaits,
     execargs |-> << >>, attempt |-> {}, anomalies |-> << >>, ios |-> << >>, cfds |-> << >>]

Init == i = 1 /\ st = Fresh(0, NoCfg, NoFacts)

Proc(task) == IF task = 1 THEN "P" ELSE "C"

\* ---- classification of the helper's descriptors 0..2 against the configuration ----------
\* s = 1..3 (stdin, stdout, stderr); d = [link, acc] as the helper sees it
IoConsistent(s, m, d, facts, pipes) ==
    CASE m = "inherit" -> d = facts.dio[s]
      [] m = "null"    -> d.link = "/dev/null" /\ d.acc \in (IF s = 1 THEN {0, 2} ELSE {1, 2})
      [] m = "pipe"    -> IF pipes[s].link # ""
                          THEN \* the other end is the one the caller got in the returned Child
                               /\ d.link = pipes[s].link
                               /\ (IF s = 1 THEN d.acc = 0 /\ pipes[s].acc = 1 ELSE d.acc = 1 /\ pipes[s].acc = 0)
                          ELSE \* the caller got no Child (spawn returned Err although the child
                               \* exec'ed, e.g. the sync-pipe read failed): only the direction
                               \* and "something new" can be checked
                               /\ d.link \notin {"", "/dev/null", facts.dio[s].link}
                               /\ d.acc = (IF s = 1 THEN 0 ELSE 1)
      [] m = "raw"     -> d = facts.raw[s]
      \* Stdio::RawFd(0 / 1 / 2): the caller's own standard descriptor, as it was before the spawn
      [] m = "fd0"     -> d = facts.dio[1]
      [] m = "fd1"     -> d = facts.dio[2]
      [] m = "fd2"     -> d = facts.dio[3]
      [] OTHER         -> FALSE
\* Inherit / RawFd: the program must work on the very OPEN FILE DESCRIPTION the caller had (not on some
\* other description of the same file): every exec'ed program leaves a footprint on the regular files
\* behind its descriptors 0/1/2 (reads 3 bytes from stdin, writes 2 to stdout / stderr); the check's own
\* copies of the descriptions the driver started with (inh) and of the RawFd sources (raw) must have moved
\* by exactly what the configured streams on them amount to - not at all when none is put on them
\* c.posWant[s] = by how much ONE program moves the description the driver started with on descriptor
\* s-1 (inh) and the RawFd source of stream s (raw), given which streams the configuration puts on them
PosOk(s, c, facts) ==
    /\ facts.pos[s].inh = c.posWant[s].inh * facts.nprog
    /\ facts.pos[s].raw = c.posWant[s].raw * facts.nprog
IoTags(c, dio, facts, pipes) ==
    [s \in 1..3 |-> IF IoConsistent(s, c.io[s], dio[s], facts, pipes) /\ PosOk(s, c, facts) THEN c.io[s] ELSE "other"]

\* a stdin pipe really is the caller's: what the caller wrote into the Child's stdin (cfg.feed) is what
\* the program read from its descriptor 0 up to end-of-file (which `wait` must produce by closing it)
FeedArrived(s, d) == (s.c.io[1] = "pipe" /\ s.facts.pipes[1].link # "") => d.stdin_read = s.c.feed

ImageOf(s, d) ==
    [prog |-> d.exe, argv |-> d.argv, envp |-> d.envp, cwd |-> d.cwd,
     io |-> LET t == IoTags(s.c, d.io, s.facts, s.facts.pipes)
            IN  IF FeedArrived(s, d) THEN t ELSE [t EXCEPT ![1] = "other"],
     uid |-> d.uid, gid |-> d.gid,
     pg |-> IF d.pgrp = d.pid THEN "own" ELSE IF d.pgrp = s.facts.pgrp THEN "parent" ELSE "other"]

Anomaly(s, what) == [s EXCEPT !.anomalies = Append(@, what)]

\* ---- one action per event kind ------------------------------------------------------------
OnFork(s, e) ==
    IF e.parent = 1 /\ e.child = 2 THEN [s EXCEPT !.child = "caller"]
    ELSE Anomaly(s, "ExtraTask")

OnSys(s, e) ==
    LET failedStep == IF e.ret < 0 /\ e.ret > -4096
                      THEN {[proc |-> Proc(e.task), step |-> e.nr, errno |-> 0 - e.ret]}
                      ELSE IF e.inj /\ e.nr = "read"          \* forced short read
                      THEN {[proc |-> Proc(e.task), step |-> e.nr, errno |-> 0]}
                      ELSE {}
        s1 == [s EXCEPT !.failed = @ \cup failedStep]
    IN  IF e.task > 2 THEN Anomaly(s, "ExtraTask")
        ELSE IF e.nr = "wait4" /\ e.ret > 0 /\ e.reaped = 2 THEN [s1 EXCEPT !.reaped = TRUE]
        ELSE IF e.nr = "chdir" /\ e.task = 2 /\ e.path # s.c.cwd   \* attempted with another directory
        THEN [s1 EXCEPT !.attempt = @ \cup {"cwd"}]
        ELSE s1

\* what the child asks the kernel to execute must be what was configured - whether or not the
\* call then succeeds
AttemptMismatch(c, e) ==
    (IF e.path = c.bin THEN {} ELSE {"prog"})
    \cup (IF e.argv = WantArgv(c) THEN {} ELSE {"argv"})
    \cup (IF \E x \in WantEnvs(c) : SameBag(e.envp, x) THEN {} ELSE {"envp"})

OnExec(s, e) ==
    IF e.task # 2 THEN Anomaly(s, "ExecByOtherTask")
    ELSE LET s0 == [s EXCEPT !.attempt = @ \cup AttemptMismatch(s.c, e)]
         IN  IF e.ret = 0
             THEN [s0 EXCEPT !.execd = TRUE, !.child = "prog",
                             !.image = [NoImage EXCEPT !.prog = e.path, !.argv = e.argv, !.envp = e.envp],
                             !.execargs = <<e.path, e.argv, e.envp>>]
             ELSE [s0 EXCEPT !.failed = @ \cup {[proc |-> "C", step |-> "execve", errno |-> 0 - e.ret]}]

OnDump(s, e) ==
    IF ~s.execd THEN Anomaly(s, "DumpWithoutExec")
    ELSE LET im == ImageOf(s, e)
         IN  \* what the program sees must be what was passed to execve
             IF <<im.prog, im.argv, im.envp>> # s.execargs THEN Anomaly([s EXCEPT !.image = im, !.cfds = e.allfds], "DumpDiffersFromExecve")
             ELSE [s EXCEPT !.image = im, !.cfds = e.allfds]

OnMark(s, e) ==
    IF e.kind = "returned"
    THEN LET r == [proc |-> Proc(e.task), res |-> e.res, code |-> e.code, failed |-> s.failed, child |-> s.child]
             s1 == [s EXCEPT !.returns = Append(@, r)]
         IN  IF e.task # 1 /\ ~e.execd THEN [s1 EXCEPT !.child = "escaped"] ELSE s1
    ELSE IF e.kind = "alloc"
    THEN \* the forked child entered the allocator before exec / exit: between fork and exec only
         \* async-signal-safe steps are allowed (another thread of the caller may hold the allocator's
         \* lock at the fork: the child would block for ever and spawn would return in no process)
         IF e.task # 1 /\ ~e.execd THEN Anomaly(s, "ChildEntersAllocatorAfterFork") ELSE s
    ELSE IF e.kind = "pre"
    THEN \* closure idx ran (in whichever task); its configured result decides whether the step failed
         LET code == s.c.pre[e.idx]
             \* a closure that runs although an earlier one has failed: the first failure must end it
             s0 == IF \E f \in s.failed : f.step = "pre_exec" THEN Anomaly(s, "ClosureRanAfterFailure") ELSE s
         IN  IF code = 0 THEN s0
             ELSE [s0 EXCEPT !.failed = @ \cup {[proc |-> Proc(e.task), step |-> "pre_exec",
                                                 errno |-> IF code > 0 THEN code ELSE 0]}]
    ELSE s

OnExit(s, e) ==
    IF e.task = 2 THEN [s EXCEPT !.child = "exited", !.cstatus = e.status]
    ELSE IF e.task = 1 /\ e.status % 128 # 0 THEN Anomaly(s, "CallerCrashed")
    ELSE s

Apply(s, e) ==
    CASE e.ev = "fork"    -> OnFork(s, e)
      [] e.ev = "sys"     -> OnSys(s, e)
      [] e.ev = "exec"    -> OnExec(s, e)
      [] e.ev = "dump"    -> OnDump(s, e)
      [] e.ev = "mark"    -> OnMark(s, e)
      [] e.ev = "exit"    -> OnExit(s, e)
      [] e.ev = "io"      -> [s EXCEPT !.ios = Append(@, [op |-> e.op, res |-> e.res, n |-> e.n, a |-> e.a, b |-> e.b, head |-> e.head])]
      [] e.ev = "waited"  -> [s EXCEPT !.waits = Append(@, [res |-> e.res, status |-> e.status])]
      [] e.ev = "anomaly" -> Anomaly(s, e.what)
      [] OTHER            -> Anomaly(s, "UnknownEvent")

ObsOf(s) == [returns |-> s.returns, failed |-> s.failed, child |-> s.child, execd |-> s.execd,
             image |-> s.image, reaped |-> s.reaped, cstatus |-> s.cstatus, waits |-> s.waits]

\* In the controlled environment of the check a step fails only when the plan makes it fail
\* (the injected failure, a configured missing directory / program, a failing closure): any
\* other failed call was caused by the implementation itself (wrong descriptor, bad pointer...)
\* (the caller's own `close` calls are not judged here: closing a descriptor twice when the same RawFd is
\* given for two streams is the descriptor-table property's subject, C12)
Unplanned(s) == {f \in s.failed : ~(f.proc = "P" /\ f.step = "close")
                                  /\ ~\E p \in s.c.planned : p.proc = f.proc /\ p.step = f.step /\ p.errno = f.errno}

\* ---- standard streams: data flow and stray pipe ends ---------------------------------------------
\* cfg.flow = what SpawnFlow.tla computes for the caller's plan when only the ends the API hands out
\* exist: per operation [op, res, n, a, b, head] (n = -1 / head = "*": not determined by the plan);
\* payload bytes are identified by their count and an order-sensitive checksum (a, b)
FlowMatches(x, w) ==
    /\ x.op = w.op /\ x.res = w.res
    /\ (w.n = -1 \/ (x.n = w.n /\ x.a = w.a /\ x.b = w.b))
    /\ (w.head = "*" \/ x.head = w.head)
DataFlowOk(s) ==
    Len(s.c.flow) > 0 =>
        /\ Len(s.ios) = Len(s.c.flow)
        /\ \A k \in DOMAIN s.ios : FlowMatches(s.ios[k], s.c.flow[k])
\* each pipe the API created for a stream has, once spawn has returned, exactly one descriptor in the
\* caller (the end in the Child) and exactly one in the exec'ed program (its descriptor 0/1/2): a stray
\* copy of a write end keeps end-of-file from the reader, a stray read end keeps EPIPE from the writer
PipeLinks(s) == {s.facts.pipes[k].link : k \in DOMAIN s.facts.pipes} \ {""}
CountLink(fds, L) == Cardinality({k \in DOMAIN fds : fds[k].link = L})
NoStrayPipeEnds(s) ==
    \A L \in PipeLinks(s) :
        /\ (Len(s.facts.pfds) > 0 => CountLink(s.facts.pfds, L) = 1)
        /\ (Len(s.cfds) > 0 => CountLink(s.cfds, L) = 1)

\* "the child runs exactly what was configured" for its whole descriptor table: besides 0, 1, 2 the
\* exec'ed program may only find descriptors that the caller itself had open WITHOUT close-on-exec before
\* the spawn (same number, same object): inheriting those is what exec does; anything spawn created on
\* the way (its pipes, /dev/null, the sync pipe) must not show up
NoForeignFds(s) ==
    \A k \in DOMAIN s.cfds :
        \/ s.cfds[k].fd <= 2
        \/ \E j \in DOMAIN s.facts.before :
              /\ s.facts.before[j].fd = s.cfds[k].fd
              /\ s.facts.before[j].link = s.cfds[k].link
              /\ s.facts.before[j].cloexec = 0

Verdict(s) ==
    LET o == ObsOf(s)
        timedOut == \E k \in DOMAIN s.anomalies : s.anomalies[k] = "TimedOut"
        \* the caller's own plan blocks for ever with any pipe API (SpawnFlow.tla says so): not a violation
        admitted == s.c.mayHang /\ timedOut
        v0 == Violated(s.c, o, TRUE)
              \cup (IF s.attempt = {} THEN {} ELSE {"AttemptIsConfigured"})
              \cup (IF Unplanned(s) = {} THEN {} ELSE {"OnlyPlannedStepsFail"})
              \cup (IF NoStrayPipeEnds(s) THEN {} ELSE {"NoStrayPipeEnds"})
              \cup (IF NoForeignFds(s) THEN {} ELSE {"NoForeignFds"})
              \cup (IF admitted \/ timedOut \/ DataFlowOk(s) THEN {} ELSE {"DataFlow"})
        v == IF admitted THEN v0 \ {"OkMeansConfigured"} ELSE v0
        an == IF admitted THEN SelectSeq(s.anomalies, LAMBDA a : a \notin {"TimedOut", "NoDump"}) ELSE s.anomalies
    IN  [run |-> s.run, viol |-> v, anomalies |-> an, hangAdmitted |-> admitted,
         mismatch |-> (IF s.execd THEN ImageMismatch(s.c, s.image) ELSE {}) \cup s.attempt,
         unplanned |-> Unplanned(s), ios |-> s.ios,
         leads |-> IF ErrMeansNoExec(o) THEN {} ELSE {"ErrMeansNoExec"},     \* evidence only
         returns |-> [k \in DOMAIN s.returns |-> [proc |-> s.returns[k].proc, res |-> s.returns[k].res, code |-> s.returns[k].code]],
         failed |-> s.failed, child |-> s.child, execd |-> s.execd, reaped |-> s.reaped,
         cstatus |-> s.cstatus, waits |-> s.waits, io |-> s.image.io]

Next ==
    /\ i <= Len(Rec)
    /\ LET e == Rec[i]
       IN  /\ i' = i + 1
           /\ CASE e.ev = "reset" -> st' = Fresh(e.run, e.cfg, e.facts)
                [] e.ev = "end"   -> (st' = st) /\ PrintT(<<"VERDICT", ToJson(Verdict(st))>>)
                [] OTHER          -> st' = Apply(st, e)
           /\ (i = Len(Rec) => PrintT(<<"JUDGED", ToJson([lines |-> Len(Rec)])>>))

Spec == Init /\ [][Next]_vars
=============================================================================
