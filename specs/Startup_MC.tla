---------------------------- MODULE Startup_MC ----------------------------
(* Startup.tla with the bounded domains of StartupData.tla.                                  *)
EXTENDS Startup, StartupData
=============================================================================
