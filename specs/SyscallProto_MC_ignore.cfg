CONSTANTS
  RawDom <- Dom
  Idiom = "ignore"
  MaxIssues = 3
SPECIFICATION Spec
INVARIANTS TypeOK ReturnConforms LimitConforms
CHECK_DEADLOCK FALSE
