CONSTANTS
  Sigs = {"TERM", "CHLD", "SEGV"}
  Hids = {1}
  Threads = {0, 1}
  MaxRaise = 3
  SelfBlock = TRUE
SPECIFICATION Spec
INVARIANTS TypeOK NoSelfNest NoSpurious Settled RunsBounded DeathByDefault
PROPERTIES DeadIsFinal
CHECK_DEADLOCK FALSE
