\* resolve / from_auxv / args_os over argument vectors of length 0..3, env blocks 0..2, four aux vectors
CONSTANTS
  Version = "fixed"
  Argvs <- ArgvsQ
  Entries <- EntriesBoot
  MaxEnv = 2
  Keys <- KeysQ
  Auxvs <- AuxvsQ
  Fns = {"boot", "args_os"}
SPECIFICATION Spec
INVARIANTS PictureOk BootCorrect ArgsCorrect LookupCorrect ReadsInBounds
PROPERTY Terminates
