------------------------------- MODULE Mutex -------------------------------
(* Algorithm-level specification of tiny_std::sync::Mutex (tiny-std/src/sync/mutex.rs,      *)
(* futex_wait_fast in tiny-std/src/sync.rs, FUTEX_WAIT/FUTEX_WAKE of rusl/src/futex.rs).    *)
(* Property C01.                                                                            *)
(*                                                                                          *)
(* One action per atomic operation / futex call exactly as the code is written, named after *)
(* it; program counters; the futex word 0 (unlocked) / 1 (locked) / 2 (locked, maybe        *)
(* waiters).  Local decisions (if/else on a value just read) are folded into the action     *)
(* that read the value.  The spin loop is abstracted to "returns the value of one read"     *)
(* (the instrument merges the up-to-101 identical loads of one spin into one event).        *)
(* Environment actions, budgeted per thread: SpuriousWake (FUTEX_WAIT returns 0 without a   *)
(* wake), Eintr (FUTEX_WAIT returns EINTR).  Which waiter a wake picks is a parameter of    *)
(* WakeOne.  The mutex uses strong compare-exchange only.                                   *)
(*                                                                                          *)
(* Memory orderings are the CONSTANT Ord (site |-> <<success, failure>>); OrdCode below is  *)
(* what the code passes today, the check re-derives the table from recorded executions and  *)
(* re-runs TLC with it.  Happens-before bookkeeping: Machine.tla.                           *)
(*                                                                                          *)
(* "D" is format!("{:?}", mutex) by a thread that holds no guard.                           *)
(* Thread programs are sequences over "L" lock, "T" try_lock, "A" access the protected      *)
(* value through the guard (read-modify-write), "U" drop the guard; a failed try_lock       *)
(* leaves out the rest of its section.                                                      *)
(*                                                                                          *)
(* Payload access rule assumed by this model (type-level obligations, checked statically   *)
(* by the check against the real crate, table in SyncTrace.tla): the payload is touched     *)
(* only through a guard, by the thread that acquired the guard, one thread at a time, and   *)
(* the guard is dropped by that same thread.  Hence Mutex<T>: Send + Sync for every         *)
(* T: Send (a Cell payload is fine) and for no other T (Mutex<Rc<_>> neither Send nor Sync);*)
(* MutexGuard is never Send; MutexGuard<T>: Sync only if T: Sync.  Same as std::sync.       *)
EXTENDS Machine, TLC

CONSTANTS N,          \* number of threads
          Progs,      \* Progs[t]: program of thread t
          Ord,        \* orderings per site
          MaxSpur,    \* spurious futex returns per thread
          MaxEintr    \* EINTR returns per thread

Threads == 1..N

OrdCode == [ LockFastCas    |-> <<"Acquire", "Relaxed">>,
             TryLockCas     |-> <<"Acquire", "Relaxed">>,
             SpinLoad       |-> <<"Relaxed", "Relaxed">>,
             ContendedCas01 |-> <<"Acquire", "Relaxed">>,
             ContendedSwap2 |-> <<"Acquire", "Relaxed">>,
             WaitFastLoad   |-> <<"Relaxed", "Relaxed">>,
             UnlockSwap0    |-> <<"Release", "Relaxed">> ]

VARIABLES futex,    \* the futex word
          pc,       \* pc[t]
          cur,      \* cur[t]: the call thread t is inside ("-", "L", "U")
          prog,     \* remaining program
          waitq,    \* threads parked in FUTEX_WAIT on the word
          guards,   \* threads holding a MutexGuard
          knows,    \* HB: knows[t] = data-access ids that happen-before t's next step
          pub,      \* HB: ids carried by the release sequence of the futex word
          lastW,    \* id of the last data access (0: none); all accesses are writes
          acc,      \* number of data accesses so far
          race,     \* a data access did not happen-after the previous one
          tryBad,   \* a try_lock failed although nobody held the lock during the call
          spur, eintr

hbVars  == <<knows, pub, lastW, acc, race>>
envVars == <<spur, eintr>>
vars == <<futex, pc, cur, prog, waitq, guards, knows, pub, lastW, acc, race, tryBad, spur, eintr>>

Init ==
    /\ futex = 0
    /\ pc = [t \in Threads |-> "idle"]
    /\ cur = [t \in Threads |-> "-"]
    /\ prog = Progs
    /\ waitq = {}
    /\ guards = {}
    /\ knows = [t \in Threads |-> {}]
    /\ pub = {}
    /\ lastW = 0
    /\ acc = 0
    /\ race = FALSE
    /\ tryBad = FALSE
    /\ spur = [t \in Threads |-> 0]
    /\ eintr = [t \in Threads |-> 0]

Op(t) == IF prog[t] = <<>> THEN "-" ELSE Head(prog[t])
Pop(t) == prog' = [prog EXCEPT ![t] = Tail(@)]
Goto(t, l) == pc' = [pc EXCEPT ![t] = l]
SetCur(t, c) == cur' = [cur EXCEPT ![t] = c]
\* what is left of a program after a failed try: everything behind the section's unlock
SkipSection(s) ==
    LET i == CHOOSE i \in 1..(Len(s) + 1) :
                 /\ (i = Len(s) + 1 \/ s[i] = "U")
                 /\ \A j \in 1..(i - 1) : s[j] # "U"
    IN  SubSeq(s, i + 1, Len(s))

\* ---- atomic operations on the futex word (SC) with happens-before bookkeeping
Rmw(t, site, new) ==
    /\ futex' = new
    /\ LET k == Import(knows[t], Ord[site][1], pub) IN
        /\ knows' = [knows EXCEPT ![t] = k]
        /\ pub' = PubRmw(pub, Ord[site][1], k)
CasFail(t, site) ==
    /\ knows' = [knows EXCEPT ![t] = Import(@, Ord[site][2], pub)]
    /\ UNCHANGED <<futex, pub>>
Load(t, site) ==
    /\ knows' = [knows EXCEPT ![t] = Import(@, Ord[site][1], pub)]
    /\ UNCHANGED <<futex, pub>>

\* ---- lock(): compare_exchange(0, 1, Acquire, Relaxed), else lock_contended()
LockFastCas(t) ==
    /\ pc[t] = "idle" /\ Op(t) = "L"
    /\ Pop(t)
    /\ IF futex = 0
       THEN /\ Rmw(t, "LockFastCas", 1)
            /\ guards' = guards \cup {t}
            /\ UNCHANGED <<pc, cur>>
       ELSE /\ CasFail(t, "LockFastCas")
            /\ Goto(t, "spin1") /\ SetCur(t, "L")
            /\ UNCHANGED guards
    /\ UNCHANGED <<waitq, lastW, acc, race, tryBad, spur, eintr>>

\* ---- try_lock(): one compare_exchange
TryLockCas(t) ==
    /\ pc[t] = "idle" /\ Op(t) = "T"
    /\ IF futex = 0
       THEN /\ Rmw(t, "TryLockCas", 1)
            /\ guards' = guards \cup {t}
            /\ Pop(t)
            /\ UNCHANGED tryBad
       ELSE /\ CasFail(t, "TryLockCas")
            /\ prog' = [prog EXCEPT ![t] = SkipSection(Tail(@))]
            /\ tryBad' = (tryBad \/ guards = {})
            /\ UNCHANGED guards
    /\ UNCHANGED <<pc, cur, waitq, lastW, acc, race, spur, eintr>>

\* ---- impl Debug for Mutex: if let Some(guard) = self.try_lock() { read the value } and the
\* guard is dropped at the end of the block (unlock incl. the wake); else it prints "<locked>".
\* (The read is checked against the last write; it is not remembered as a reader - the models of
\* the mutex know write accesses only, the trace judge treats it as a read.)
DbgTryCas(t) ==
    /\ pc[t] = "idle" /\ Op(t) = "D"
    /\ Pop(t)
    /\ IF futex = 0
       THEN /\ Rmw(t, "TryLockCas", 1)
            /\ guards' = guards \cup {t}
            /\ Goto(t, "dbg_read") /\ SetCur(t, "D")
            /\ UNCHANGED tryBad
       ELSE /\ CasFail(t, "TryLockCas")
            /\ tryBad' = (tryBad \/ guards = {})
            /\ UNCHANGED <<guards, pc, cur>>
    /\ UNCHANGED <<waitq, lastW, acc, race, spur, eintr>>
DbgRead(t) ==
    /\ pc[t] = "dbg_read" /\ t \in guards
    /\ race' = (race \/ ReadRaces(knows[t], lastW))
    /\ Goto(t, "dbg_unlock")
    /\ UNCHANGED <<futex, cur, prog, waitq, guards, knows, pub, lastW, acc, tryBad, spur, eintr>>
DbgUnlockSwap0(t) ==
    /\ pc[t] = "dbg_unlock" /\ t \in guards
    /\ Rmw(t, "UnlockSwap0", 0)
    /\ guards' = guards \ {t}
    /\ IF futex = 2
       THEN Goto(t, "wake") /\ SetCur(t, "U")
       ELSE Goto(t, "idle") /\ SetCur(t, "-")
    /\ UNCHANGED <<prog, waitq, lastW, acc, race, tryBad, spur, eintr>>

\* ---- lock_contended(): state = spin()   (first spin, before the loop)
SpinLoad1(t) ==
    /\ pc[t] = "spin1"
    /\ Load(t, "SpinLoad")
    /\ Goto(t, IF futex = 0 THEN "cas01" ELSE IF futex = 2 THEN "wfload" ELSE "swap2")
    /\ UNCHANGED <<cur, prog, waitq, guards, lastW, acc, race, tryBad, spur, eintr>>
\* state = spin() at the end of the loop body (after futex_wait_fast returned): the loop
\* never tries 0 -> 1 again, a thread that has slept always marks the word contended
SpinLoad2(t) ==
    /\ pc[t] = "spin2"
    /\ Load(t, "SpinLoad")
    /\ Goto(t, IF futex = 2 THEN "wfload" ELSE "swap2")
    /\ UNCHANGED <<cur, prog, waitq, guards, lastW, acc, race, tryBad, spur, eintr>>

\* if state == 0 { compare_exchange(0, 1, Acquire, Relaxed) }
ContendedCas01(t) ==
    /\ pc[t] = "cas01"
    /\ IF futex = 0
       THEN /\ Rmw(t, "ContendedCas01", 1)
            /\ guards' = guards \cup {t}
            /\ Goto(t, "idle") /\ SetCur(t, "-")
       ELSE /\ CasFail(t, "ContendedCas01")
            /\ Goto(t, IF futex = 2 THEN "wfload" ELSE "swap2")
            /\ UNCHANGED <<guards, cur>>
    /\ UNCHANGED <<prog, waitq, lastW, acc, race, tryBad, spur, eintr>>

\* if state != 2 && swap(2, Acquire) == 0 { return }
ContendedSwap2(t) ==
    /\ pc[t] = "swap2"
    /\ Rmw(t, "ContendedSwap2", 2)
    /\ IF futex = 0
       THEN /\ guards' = guards \cup {t}
            /\ Goto(t, "idle") /\ SetCur(t, "-")
       ELSE /\ Goto(t, "wfload")
            /\ UNCHANGED <<guards, cur>>
    /\ UNCHANGED <<prog, waitq, lastW, acc, race, tryBad, spur, eintr>>

\* futex_wait_fast(&futex, 2): if futex.load(Relaxed) != 2 { return }
WaitFastLoad(t) ==
    /\ pc[t] = "wfload"
    /\ Load(t, "WaitFastLoad")
    /\ Goto(t, IF futex # 2 THEN "spin2" ELSE "fwait")
    /\ UNCHANGED <<cur, prog, waitq, guards, lastW, acc, race, tryBad, spur, eintr>>

\* FUTEX_WAIT(2): parks iff the word is still 2, else EAGAIN (futex_wait_fast returns)
FutexWait(t) ==
    /\ pc[t] = "fwait"
    /\ IF futex = 2
       THEN /\ waitq' = waitq \cup {t} /\ Goto(t, "parked")
       ELSE /\ Goto(t, "spin2") /\ UNCHANGED waitq
    /\ UNCHANGED <<futex, cur, prog, guards, knows, pub, lastW, acc, race, tryBad, spur, eintr>>

\* ---- drop(guard): if swap(0, Release) == 2 { wake() }
UnlockSwap0(t) ==
    /\ pc[t] = "idle" /\ Op(t) = "U" /\ t \in guards
    /\ Pop(t)
    /\ Rmw(t, "UnlockSwap0", 0)
    /\ guards' = guards \ {t}
    /\ IF futex = 2
       THEN Goto(t, "wake") /\ SetCur(t, "U")
       ELSE UNCHANGED <<pc, cur>>
    /\ UNCHANGED <<waitq, lastW, acc, race, tryBad, spur, eintr>>

\* FUTEX_WAKE(1): wakes one of the parked threads (w is the environment's choice) ...
WakeOne(t, w) ==
    /\ pc[t] = "wake" /\ w \in waitq
    /\ waitq' = waitq \ {w}
    /\ pc' = [pc EXCEPT ![t] = "idle", ![w] = "spin2"]
    /\ SetCur(t, "-")
    /\ UNCHANGED <<futex, prog, guards, knows, pub, lastW, acc, race, tryBad, spur, eintr>>
\* ... or nobody if nobody is parked
WakeNone(t) ==
    /\ pc[t] = "wake" /\ waitq = {}
    /\ Goto(t, "idle") /\ SetCur(t, "-")
    /\ UNCHANGED <<futex, prog, waitq, guards, knows, pub, lastW, acc, race, tryBad, spur, eintr>>

\* ---- *guard += 1 (every access conflicts with the previous one); knowledge is pruned to
\* the only id that still matters (the new last write)
Access(t) ==
    /\ pc[t] = "idle" /\ Op(t) = "A" /\ t \in guards
    /\ Pop(t)
    /\ race' = (race \/ WriteRaces(knows[t], lastW, {}))
    /\ acc' = acc + 1
    /\ lastW' = acc + 1
    /\ knows' = [u \in Threads |-> IF u = t THEN {acc + 1} ELSE {}]
    /\ pub' = {}
    /\ UNCHANGED <<futex, pc, cur, waitq, guards, tryBad, spur, eintr>>

\* ---- environment
SpuriousWake(t) ==
    /\ pc[t] = "parked" /\ spur[t] < MaxSpur
    /\ spur' = [spur EXCEPT ![t] = @ + 1]
    /\ waitq' = waitq \ {t}
    /\ Goto(t, "spin2")
    /\ UNCHANGED <<futex, cur, prog, guards, knows, pub, lastW, acc, race, tryBad, eintr>>
\* EINTR: futex_wait_fast loops (load again)
Eintr(t) ==
    /\ pc[t] = "parked" /\ eintr[t] < MaxEintr
    /\ eintr' = [eintr EXCEPT ![t] = @ + 1]
    /\ waitq' = waitq \ {t}
    /\ Goto(t, "wfload")
    /\ UNCHANGED <<futex, cur, prog, guards, knows, pub, lastW, acc, race, tryBad, spur>>

ThreadStep(t) ==
    \/ LockFastCas(t) \/ TryLockCas(t) \/ SpinLoad1(t) \/ SpinLoad2(t) \/ ContendedCas01(t) \/ ContendedSwap2(t)
    \/ WaitFastLoad(t) \/ FutexWait(t) \/ UnlockSwap0(t) \/ WakeNone(t) \/ Access(t)
    \/ DbgTryCas(t) \/ DbgRead(t) \/ DbgUnlockSwap0(t)
    \/ \E w \in Threads : WakeOne(t, w)
Next == \E t \in Threads : ThreadStep(t) \/ SpuriousWake(t) \/ Eintr(t)

\* weak fairness of every thread's own steps only: the environment never has to help
Spec == Init /\ [][Next]_vars /\ \A t \in Threads : WF_vars(ThreadStep(t))

Done(t) == pc[t] = "idle" /\ prog[t] = <<>>
AllDone == \A t \in Threads : Done(t)

\* ---- property level (C01)
MutualExclusion == Cardinality(guards) <= 1
RaceFree == ~race
TryLockHonest == ~tryBad
\* try_lock is a single step; everything that can wait belongs to lock()
TryNeverBlocks == \A t \in Threads : pc[t] \in {"spin1", "spin2", "cas01", "swap2", "wfload", "fwait", "parked"} => cur[t] = "L"
\* no lost wake-up / deadlock: when nobody can take a step everybody has finished
NoLostWakeup == (\A t \in Threads : Done(t) \/ pc[t] = "parked") => AllDone
Termination == <>[]AllDone

\* ---- algorithm level
TypeOK ==
    /\ futex \in 0..2
    /\ pc \in [Threads -> {"idle", "spin1", "spin2", "cas01", "swap2", "wfload", "fwait", "parked", "wake", "dbg_read", "dbg_unlock"}]
    /\ waitq = {t \in Threads : pc[t] = "parked"}
    /\ guards \subseteq Threads
WordAgrees == (futex = 0) <=> (guards = {})
\* every thread that is neither finished nor parked can take a step (NoLostWakeup relies on it)
Progress == \A t \in Threads : (~Done(t) /\ pc[t] # "parked") => ENABLED ThreadStep(t)
=============================================================================
