\* every RELA table of <= 3 entries x every REL table of <= 1 entry over 4 words, 4 dynamic-section layouts,
\* 3 program-header lists, 3 start-up situations
CONSTANTS
  Variant = "coded"
  Rels <- Rel1
  Relas <- Rela3
  Words <- W
  Layouts = {1, 2, 3, 4}
  PhdrLists <- PhdrsOk
  Modes = {"static", "loader", "selfreloc"}
  BASE = 100000
  DYNVADDR = 200
SPECIFICATION Spec
INVARIANTS ImageCorrect AtMostOnce TablesFound NoFault
PROPERTY Terminates
