\* chunk-level design against AllocAbs' invariants, the layout invariants and the refinement relation
CONSTANTS
  Arena = 48
  Huge = 1000
  Gran = 8
  Slack = 12
  DirectMap = 1000
  EnvK = 2
  EnvC = 16
  HoleCap = 1
  Ids = {1, 2}
  Sizes = {1, 5, 11}
  Aligns = {2}
  MapSizes = {}
  Page = 8
  MaxOs = 4
  MaxReps = 0
  Base0 = 2
  TrackC04 = FALSE
  Disciplined = FALSE
  dAl = 2
  dOvh = 1
  dMinChunk = 4
  dRec = 4
  dTail = 2
  dTrim = 12
INIT DInit
NEXT DNext
INVARIANTS Aligned Disjoint Accessible Intact NullJustified OomClean ReleaseOnce NoGratuitousMap
           AlignedStep DisjointStep AccessibleStep LayoutOK RefinesAbs SlackSufficient
CHECK_DEADLOCK FALSE
