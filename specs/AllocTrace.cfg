\* real-run constants: 1 GiB arena, 64 KiB granularity, 256 B book-keeping slack,
\* envelope 2 x peak padded demand + 4 MiB
CONSTANTS
  Arena = 1073741824
  Huge = 268435456
  Gran = 65536
  Slack = 256
  DirectMap = 1073741824
  EnvK = 2
  EnvC = 4194304
  HoleCap = 64
  Ids = {}
  Sizes = {}
  Aligns = {}
  MapSizes = {}
  Page = 4096
  MaxOs = 0
  MaxReps = 0
  Base0 = 2
  TrackC04 = TRUE
  Disciplined = FALSE
INIT TInit
NEXT TNext
CHECK_DEADLOCK FALSE
