------------------------------- MODULE Spawn -------------------------------
(* C13, algorithm level: `Command` (builder) and `do_spawn` of tiny-std/src/process.rs as   *)
(* coded, one action per system call / return point, two processes: P (the caller) and C    *)
(* (exists after Fork).  The CLOEXEC sync pipe is a byte queue with the sets of processes   *)
(* holding its ends.  ONE planned failure (`fault`) hits the k-th call of one system call   *)
(* in one process - exactly what the tracer injects into the real code; natural failures    *)
(* (missing cwd, missing program, failing pre-exec closure) come from the configuration.    *)
(*                                                                                          *)
(* Deviations of the code from the ideal are named and switchable (CONSTANT Dev), so that   *)
(* TLC exhibits their counterexamples in the model first:                                   *)
(*   "ChildReturnsErr"  child-side `?` on dup2/chdir/setuid/setgid/setpgid/pre_exec returns *)
(*                      Err IN THE CHILD (pinned tree af3d93c)                              *)
(*   "ExecveNegErrno"   rusl::process::execve wraps the raw negative result (pinned tree)   *)
(*   "EnvTestInverted"  Command::env without `start`: `!matches!(env, None)` (pinned tree)  *)
(*   "WaitHoldsPipes"   after a failed / short read of the sync pipe the parent waits for   *)
(*                      the child while still holding its ends of the child's stdio pipes:  *)
(*                      a program that reads its stdin to the end never ends (deadlock)     *)
(*   "TryWaitNoCache"   Process::try_wait does not remember the status it reaped (a blind  *)
(*                      mutant): the next wait / try_wait asks the kernel again -> ECHILD   *)
(*   "EintrNotRetried"  the parent's read of the sync pipe is not repeated after EINTR (a    *)
(*                      blind mutant): treated like a failed read - the parent waits for    *)
(*                      the child, which has exec'ed and runs the program, and says Err     *)
(*   "EintrReturnsAtOnce" the same, but Err(EINTR) is returned at once: the child is alive   *)
(*                      and goes on to exec, un-owned                                       *)
(*   "ExecveRetriesEtxtbsy" execve is repeated while it says ETXTBSY (a blind mutant): if   *)
(*                      the condition does not go away the forked copy of the caller spins  *)
(*                      for ever and spawn never returns                                    *)
(*   "ChildClosesDupSource" the child closes the source after each dup2 (a blind mutant):   *)
(*                      with RawFd(1) for stderr ("2>&1") the program loses its stdout      *)
(*   "PreExecLastWins"  every pre-exec closure runs and only the LAST result counts (a blind *)
(*                      mutant): an earlier failure is lost (Ok) or the wrong errno reported *)
(*   "ChildAllocatesOnFailure" the child builds its failure report with an allocating call  *)
(*                      (a blind mutant): not async-signal-safe between fork and exec       *)
(* Dev = {} is the code as it stands after the `fix:` commits (see notes/C13.md).           *)
EXTENDS SpawnAbs, TLC

CONSTANTS StartFeature,   \* BOOLEAN: tiny-std feature `start`
          Dev,            \* set of deviations switched on
          Cfgs,           \* set of command configurations
          Faults          \* set of fault plans [p, sys, k, err]; NoFault always added

NULL  == "NULL"
EPERM  == 1
ENOENT == 2
OtherId == 1               \* an unprivileged user / group different from the caller's (which is 0, privileged)
EINVAL == 22
HelperStatus == 7 * 256    \* the helper program exits with 7
ECHILD == 10
NoStatus == -1             \* Process.status = None
NoFault == [p |-> "-", sys |-> "-", k |-> 0, err |-> 0, persist |-> FALSE]
ETXTBSY == 26
FdNames == <<"fd0", "fd1", "fd2">>        \* Stdio::RawFd(0 / 1 / 2): a standard descriptor of the caller itself
IsStdFd(m) == m \in {"fd0", "fd1", "fd2"}
StdFdIndex(m) == CHOOSE k \in 1..3 : FdNames[k] = m
ArgTok == <<"a1", "a2">>
EnvTok == <<"e1=x", "e2=y">>
PEnv   == <<"pe=1">>
SysNames == {"openat", "pipe2", "fork", "close", "read", "wait4", "dup3", "chdir", "setuid",
             "setgid", "setpgid", "execve", "write"}

VARIABLES cfg, fault,                      \* chosen in Init, never changed
          pc,                              \* [P, C] -> label
          bi, argv, envmode, vars, envp,   \* builder state (bi: index of the running loop)
          theirs,                          \* setup_io: what the child must dup onto 0..2
          pin,                             \* the caller holds the write end of the child's stdin pipe (`ours.stdin`)
          pipe,                            \* sync pipe [data, w, r]
          cnt, fired, hist, F,             \* per-process call counts, fault fired, call history, failed steps
          im,                              \* the child's process image being prepared
          ci, cerr, perr, pres,            \* child step index, child/parent error in flight, parent result
          wi, cache,                       \* the caller's wait calls on the Child: index into cfg.wseq, Process.status
          round,                           \* 1, or 2 = the same Command value is spawned a second time
          calloc,                          \* the forked child has entered the allocator before exec / exit
          returns, child, execd, image, reaped, cstatus, waits   \* the observation
vars_all == <<cfg, fault, pc, bi, argv, envmode, vars, envp, theirs, pin, pipe, cnt, fired, hist, F,
              im, ci, cerr, perr, pres, wi, cache, round, calloc, returns, child, execd, image, reaped, cstatus, waits>>

Obs == [returns |-> returns, failed |-> F, child |-> child, execd |-> execd, image |-> image,
        reaped |-> reaped, cstatus |-> cstatus, waits |-> waits]

\* the configuration in the property's terms
AbsCfg(c) == [bin |-> IF c.prog = "ok" THEN "bin" ELSE "nobin",
              args |-> SubSeq(ArgTok, 1, c.nargs),
              envmode |-> IF c.nenv = 0 THEN "default" ELSE "provided", envs |-> SubSeq(EnvTok, 1, c.nenv),
              start |-> StartFeature, penv |-> PEnv, envAlt |-> {},
              cwd |-> CASE c.cwd = "none" -> Unset [] c.cwd = "ok" -> "dirA" [] OTHER -> "dirX",
              pcwd |-> "cwd0",
              uid |-> CASE c.uid = "unset" -> UnsetId [] c.uid = "own" -> 0 [] OTHER -> OtherId, puid |-> 0,
              gid |-> CASE c.gid = "unset" -> UnsetId [] c.gid = "own" -> 0 [] OTHER -> OtherId, pgid |-> 0,
              pg |-> IF c.pg = "unset" THEN UnsetId ELSE 0,
              \* in the model a stream is named by the caller's description it must end up on
              io |-> [k \in 1..3 |-> IF c.io[k] = "inherit" THEN FdNames[k] ELSE c.io[k]]]

NoImage == [prog |-> "-", argv |-> << >>, envp |-> << >>, cwd |-> "-", io |-> <<"-", "-", "-">>,
            uid |-> 0, gid |-> 0, pg |-> "-"]

\* the state that belongs to ONE spawn call (everything but the Command value itself)
FreshSpawn ==
    /\ theirs' = <<"-", "-", "-">>
    /\ pin' = FALSE
    /\ pipe' = [data |-> << >>, w |-> {}, r |-> {}]
    /\ cnt' = [p \in {"P", "C"} |-> [s \in SysNames |-> 0]]
    /\ hist' = [p \in {"P", "C"} |-> << >>]
    /\ F' = {}
    /\ im' = [io |-> FdNames, cwd |-> "cwd0", uid |-> 0, gid |-> 0, pg |-> "parent"]
    /\ ci' = 1
    /\ cerr' = 0
    /\ perr' = 0
    /\ pres' = "-"
    /\ wi' = 1
    /\ cache' = NoStatus
    /\ returns' = << >>
    /\ child' = "none"
    /\ execd' = FALSE
    /\ image' = NoImage
    /\ reaped' = FALSE
    /\ cstatus' = 0
    /\ waits' = NoWaits

Init ==
    /\ cfg \in Cfgs
    /\ fault \in Faults \cup {NoFault}
    /\ pc = [P |-> "b_arg", C |-> "none"]
    /\ bi = 0
    /\ argv = <<"bin", NULL>>          \* Command::new: vec![bin_ptr, null]
    /\ envmode = IF StartFeature THEN "inherit" ELSE "none"   \* Environment::default()
    /\ vars = << >>
    /\ envp = << >>
    /\ theirs = <<"-", "-", "-">>
    /\ pin = FALSE
    /\ pipe = [data |-> << >>, w |-> {}, r |-> {}]
    /\ cnt = [p \in {"P", "C"} |-> [s \in SysNames |-> 0]]
    /\ fired = FALSE
    /\ hist = [p \in {"P", "C"} |-> << >>]
    /\ F = {}
    /\ im = [io |-> FdNames, cwd |-> "cwd0", uid |-> 0, gid |-> 0, pg |-> "parent"]
    /\ ci = 1
    /\ cerr = 0
    /\ perr = 0
    /\ pres = "-"
    /\ wi = 1
    /\ cache = NoStatus
    /\ round = 1
    /\ calloc = FALSE
    /\ returns = << >>
    /\ child = "none"
    /\ execd = FALSE
    /\ image = NoImage
    /\ reaped = FALSE
    /\ cstatus = 0
    /\ waits = NoWaits

(* ---- bookkeeping of one system call ---------------------------------------------------- *)
\* one-shot: the k-th call fails; persistent: the k-th and every later one (a failure that does not go away)
Hit(p, s) == /\ fault.p = p /\ fault.sys = s
             /\ IF fault.persist THEN cnt[p][s] + 1 >= fault.k ELSE ~fired /\ fault.k = cnt[p][s] + 1
\* the errno with which the call fails (0 = it succeeds); nat = its natural outcome
Res(p, s, nat) == IF Hit(p, s) THEN fault.err ELSE nat
Did(p, s, e) ==
    /\ cnt' = [cnt EXCEPT ![p][s] = @ + 1]
    /\ fired' = (fired \/ Hit(p, s))
    /\ hist' = [hist EXCEPT ![p] = Append(@, <<s, e>>)]
    /\ F' = IF e # 0 THEN F \cup {[proc |-> p, step |-> s, errno |-> IF e > 0 THEN e ELSE 0]} ELSE F
NoCall == UNCHANGED <<cnt, fired, hist, F>>

cfgv   == <<cfg, fault, wi, cache, round, calloc>>     \* never changed except by the caller's wait calls / Respawn
buildv == <<bi, argv, envmode, vars, envp>>
obsv   == <<returns, child, execd, image, reaped, cstatus, waits>>
Goto(p, l) == pc' = [pc EXCEPT ![p] = l]

(* ---- builder: Command::arg / Command::env ---------------------------------------------- *)
BuildArg ==
    /\ pc.P = "b_arg"
    /\ IF bi < cfg.nargs
       THEN \* self.argv.0[self.args.len()] = ptr; self.argv.0.push(null); self.args.push(..)
            /\ argv' = Append([argv EXCEPT ![bi + 2] = ArgTok[bi + 1]], NULL)
            /\ bi' = bi + 1
            /\ UNCHANGED pc
       ELSE /\ Goto("P", "b_env")
            /\ bi' = 0
            /\ UNCHANGED argv
    /\ UNCHANGED <<pin, cfgv, envmode, vars, envp, theirs, pipe, im, ci, cerr, perr, pres, obsv>>
    /\ NoCall

BuildEnv ==
    /\ pc.P = "b_env"
    /\ IF bi < cfg.nenv
       THEN LET reset == IF StartFeature THEN envmode \in {"inherit", "none"}
                         ELSE IF "EnvTestInverted" \in Dev THEN envmode # "none"
                         ELSE envmode = "none"
                m1 == IF reset THEN "provided" ELSE envmode
                v1 == IF reset THEN << >> ELSE vars
                p1 == IF reset THEN <<NULL>> ELSE envp
            IN  /\ envmode' = m1
                /\ IF m1 = "provided"
                   THEN \* pe.envp.0[pe.vars.len()] = ptr; pe.envp.0.push(null); pe.vars.push(s)
                        /\ envp' = Append([p1 EXCEPT ![Len(v1) + 1] = EnvTok[bi + 1]], NULL)
                        /\ vars' = Append(v1, EnvTok[bi + 1])
                   ELSE /\ envp' = p1
                        /\ vars' = v1
                /\ bi' = bi + 1
                /\ UNCHANGED pc
       ELSE /\ Goto("P", "sio")
            /\ bi' = 1
            /\ UNCHANGED <<envmode, vars, envp>>
    /\ UNCHANGED <<pin, cfgv, argv, theirs, pipe, im, ci, cerr, perr, pres, obsv>>
    /\ NoCall

(* ---- do_spawn, parent side ------------------------------------------------------------- *)
\* setup_io: stdin, stdout, stderr in turn; `?` on each
SetupIo ==
    /\ pc.P = "sio"
    /\ IF bi > 3
       THEN /\ Goto("P", "syncpipe")
            /\ UNCHANGED <<theirs, perr, pres, bi>>
            /\ NoCall
       ELSE LET m == cfg.io[bi]
                s == IF m = "pipe" THEN "pipe2" ELSE "openat"
                e == Res("P", s, 0)
            IN  IF m \in {"inherit", "raw"} \/ IsStdFd(m)
                THEN /\ theirs' = [theirs EXCEPT ![bi] = m]
                     /\ bi' = bi + 1
                     /\ UNCHANGED <<pc, perr, pres>>
                     /\ NoCall
                ELSE /\ Did("P", s, e)
                     /\ IF e = 0
                        THEN /\ theirs' = [theirs EXCEPT ![bi] = m]
                             /\ bi' = bi + 1
                             /\ UNCHANGED <<pc, perr, pres>>
                        ELSE /\ perr' = e
                             /\ pres' = "err"
                             /\ Goto("P", "ret")
                             /\ UNCHANGED <<theirs, bi>>
    /\ pin' = (pin \/ (bi = 1 /\ cfg.io[1] = "pipe" /\ theirs'[1] = "pipe"))
    /\ UNCHANGED <<cfgv, argv, envmode, vars, envp, pipe, im, ci, cerr, obsv>>

SyncPipe ==
    /\ pc.P = "syncpipe"
    /\ LET e == Res("P", "pipe2", 0)
       IN  /\ Did("P", "pipe2", e)
           /\ IF e = 0
              THEN /\ pipe' = [data |-> << >>, w |-> {"P"}, r |-> {"P"}]
                   /\ Goto("P", "fork")
                   /\ UNCHANGED <<perr, pres>>
              ELSE /\ perr' = e
                   /\ pres' = "err"
                   /\ Goto("P", "ret")
                   /\ UNCHANGED pipe
    /\ UNCHANGED <<pin, cfgv, buildv, theirs, im, ci, cerr, obsv>>

Fork ==
    /\ pc.P = "fork"
    /\ LET e == Res("P", "fork", 0)
       IN  /\ Did("P", "fork", e)
           /\ IF e = 0
              THEN /\ pc' = [P |-> "p_closew", C |-> "c_closer"]
                   /\ pipe' = [pipe EXCEPT !.w = @ \cup {"C"}, !.r = @ \cup {"C"}]
                   /\ child' = "caller"
                   /\ UNCHANGED <<perr, pres>>
              ELSE /\ perr' = e
                   /\ pres' = "err"
                   /\ Goto("P", "ret")
                   /\ UNCHANGED <<pipe, child>>
    /\ UNCHANGED <<pin, cfgv, buildv, theirs, im, ci, cerr, returns, execd, image, reaped, cstatus, waits>>

\* let _ = close(write_pipe): the result is ignored, the descriptor is released either way
ParentCloseWrite ==
    /\ pc.P = "p_closew"
    /\ Did("P", "close", Res("P", "close", 0))
    /\ pipe' = [pipe EXCEPT !.w = @ \ {"P"}]
    /\ Goto("P", "p_read")
    /\ UNCHANGED <<pin, cfgv, buildv, theirs, im, ci, cerr, perr, pres, obsv>>

\* loop { match read(read_pipe, &mut bytes) { Ok(0) | Ok(8) | Err(EINTR) | Err(_) | Ok(..) } }
ReadPipe ==
    /\ pc.P = "p_read"
    /\ IF Hit("P", "read")
       THEN /\ Did("P", "read", fault.err)
            /\ IF fault.err = EINTR /\ "EintrReturnsAtOnce" \in Dev
               THEN /\ perr' = EINTR                          \* deviation: Err(EINTR) without waiting for the child
                    /\ pres' = "err"
                    /\ Goto("P", "ret")
               ELSE IF fault.err = EINTR /\ "EintrNotRetried" \notin Dev
               THEN UNCHANGED <<pc, perr, pres>>              \* ReadPipe(EINTR): retry
               ELSE /\ perr' = NoCode                          \* ReadPipe(err) / ReadPipe(short)
                    /\ pres' = "err"
                    /\ Goto("P", "p_wait")
            /\ UNCHANGED pipe
       ELSE IF pipe.data # << >>
       THEN /\ Did("P", "read", 0)                             \* ReadPipe(8)
            /\ pipe' = [pipe EXCEPT !.data = << >>]
            /\ perr' = IF pipe.data[2] = "NOEX" THEN pipe.data[1] ELSE NoCode
            /\ pres' = "err"
            /\ Goto("P", "p_wait")
       ELSE /\ pipe.w = {}                                      \* ReadPipe(0): EOF, else blocked
            /\ Did("P", "read", 0)
            /\ pres' = "ok"
            /\ Goto("P", "ret")
            /\ UNCHANGED <<pipe, perr>>
    \* a failed / short read: the caller's ends of the child's stdio pipes are dropped before waiting
    \* (the child may be running the program) - unless the deviation WaitHoldsPipes is on
    /\ pin' = IF Hit("P", "read") /\ (fault.err # EINTR \/ "EintrNotRetried" \in Dev) /\ "WaitHoldsPipes" \notin Dev THEN FALSE ELSE pin
    /\ UNCHANGED <<cfgv, buildv, theirs, im, ci, cerr, obsv>>

\* process.wait()?  (blocks until the child is a zombie)
WaitChild(next) ==
    IF Hit("P", "wait4")
    THEN /\ Did("P", "wait4", fault.err)
         /\ perr' = fault.err
         /\ UNCHANGED <<reaped>>
         /\ Goto("P", next)
    ELSE /\ child = "exited"
         /\ Did("P", "wait4", 0)
         /\ reaped' = TRUE
         /\ UNCHANGED perr
         /\ Goto("P", next)

ParentWait ==
    /\ pc.P = "p_wait"
    /\ WaitChild("ret")
    /\ UNCHANGED <<pin, cfgv, buildv, theirs, pipe, im, ci, cerr, pres, returns, child, execd, image, cstatus, waits>>

Return ==
    /\ pc.P = "ret"
    /\ returns' = Append(returns, [proc |-> "P", res |-> pres, code |-> IF pres = "ok" THEN 0 ELSE perr,
                                   failed |-> F, child |-> child])
    /\ Goto("P", IF pres = "ok" THEN "d_op" ELSE "done")
    /\ pin' = (pin /\ pres = "ok")        \* Ok: the Child owns the pipe ends; Err: `ours` is dropped
    /\ UNCHANGED <<cfgv, buildv, theirs, pipe, im, ci, cerr, perr, pres, child, execd, image, reaped, cstatus, waits>>
    /\ NoCall

(* ---- the caller uses the returned Child: cfg.wseq, a sequence over                        *)
(*   "wait"  Child::wait            (closes the stdin pipe, then Process::wait)               *)
(*   "try"   one Child::try_wait    (Some / None)                                             *)
(*   "poll"  close the stdin pipe, then Child::try_wait until it is not None                  *)
(* Process::wait / try_wait as coded: a cached status is returned without a system call;      *)
(* otherwise wait4 (WNOHANG for try_wait), and the status is remembered.                      *)
CurOp == cfg.wseq[wi]

\* Child::wait: drop(self.stdin.take()) first; the polling caller does the same by hand
DriverDropStdin ==
    /\ pc.P = "d_op"
    /\ wi <= Len(cfg.wseq)
    /\ CurOp \in {"wait", "poll"}
    /\ pin
    /\ pin' = FALSE
    /\ UNCHANGED <<cfgv, pc, buildv, theirs, pipe, im, ci, cerr, perr, pres, obsv>>
    /\ NoCall

Report(res, st) == waits' = Append(waits, [res |-> res, status |-> st])

DriverOp ==
    /\ pc.P = "d_op"
    /\ wi <= Len(cfg.wseq)
    /\ (CurOp \in {"wait", "poll"} => ~pin)
    /\ IF cache # NoStatus
       THEN \* if let Some(status) = self.status { return Ok(status) }
            /\ Report("ok", cache)
            /\ UNCHANGED <<cache, reaped>>
            /\ NoCall
       ELSE IF Hit("P", "wait4")
       THEN /\ Did("P", "wait4", fault.err)
            /\ Report("err", fault.err)
            /\ UNCHANGED <<cache, reaped>>
       ELSE IF reaped
       THEN \* the kernel no longer knows the child
            /\ Did("P", "wait4", ECHILD)
            /\ Report("err", ECHILD)
            /\ UNCHANGED <<cache, reaped>>
       ELSE IF child = "exited"
       THEN /\ Did("P", "wait4", 0)
            /\ Report("ok", cstatus)
            /\ reaped' = TRUE
            /\ cache' = IF CurOp # "wait" /\ "TryWaitNoCache" \in Dev THEN NoStatus ELSE cstatus
       ELSE \* the child still runs: wait / poll block (disabled), a single try_wait says None
            /\ CurOp = "try"
            /\ Did("P", "wait4", 0)
            /\ Report("none", 0)
            /\ UNCHANGED <<cache, reaped>>
    /\ wi' = wi + 1
    /\ UNCHANGED <<pin, cfg, fault, round, calloc, pc, buildv, theirs, pipe, im, ci, cerr, perr, pres, returns, child, execd, image, cstatus>>

\* the caller is done with the Child (dropping it closes the pipes it still owns)
DriverDone ==
    /\ pc.P = "d_op"
    /\ wi > Len(cfg.wseq)
    /\ pin' = FALSE
    /\ Goto("P", "done")
    /\ UNCHANGED <<cfgv, buildv, theirs, pipe, im, ci, cerr, perr, pres, obsv>>
    /\ NoCall

(* ---- do_spawn, child side --------------------------------------------------------------- *)
\* what a failing child step does
ChildFail(e) ==
    IF "ChildReturnsErr" \in Dev
    THEN \* `?`: the error is returned to the caller's code - in the child
         /\ returns' = Append(returns, [proc |-> "C", res |-> "err", code |-> IF e > 0 THEN e ELSE NoCode,
                                        failed |-> F', child |-> child])
         /\ Goto("C", "caller")
         /\ child' = "escaped"
         /\ UNCHANGED cerr
    ELSE \* report through the sync pipe and exit
         /\ cerr' = IF e > 0 THEN e ELSE EINVAL
         /\ Goto("C", "c_write")
         /\ UNCHANGED <<returns, child>>

ChildCloseRead ==
    /\ pc.C = "c_closer"
    /\ Did("C", "close", Res("C", "close", 0))
    /\ pipe' = [pipe EXCEPT !.r = @ \ {"C"}]
    /\ Goto("C", "c_dup")
    /\ UNCHANGED <<pin, cfgv, buildv, theirs, im, ci, cerr, perr, pres, obsv>>

Dup2 ==
    /\ pc.C = "c_dup"
    /\ IF ci > 3
       THEN /\ Goto("C", "c_chdir")
            /\ UNCHANGED <<ci, im, cerr, returns, child>>
            /\ NoCall
       ELSE IF theirs[ci] = "inherit"
       THEN /\ ci' = ci + 1
            /\ UNCHANGED <<pc, im, cerr, returns, child>>
            /\ NoCall
       ELSE LET src == theirs[ci]
                \* dup2(fd, fd) is done with dup3, which refuses equal descriptors
                e == Res("C", "dup3", IF IsStdFd(src) /\ StdFdIndex(src) = ci THEN EINVAL ELSE 0)
                \* what the target refers to afterwards: for a standard descriptor of the caller, whatever
                \* that descriptor refers to IN THE CHILD BY NOW (an earlier dup2 may have replaced it)
                val == IF IsStdFd(src) THEN im.io[StdFdIndex(src)] ELSE src
                io1 == [im.io EXCEPT ![ci] = val]
                io2 == IF "ChildClosesDupSource" \in Dev /\ IsStdFd(src) THEN [io1 EXCEPT ![StdFdIndex(src)] = "closed"] ELSE io1
            IN  /\ Did("C", "dup3", e)
                /\ IF e = 0
                   THEN /\ im' = [im EXCEPT !.io = io2]
                        /\ ci' = ci + 1
                        /\ UNCHANGED <<pc, cerr, returns, child>>
                   ELSE /\ ChildFail(e)
                        /\ UNCHANGED <<im, ci>>
    /\ UNCHANGED <<pin, cfgv, buildv, theirs, pipe, perr, pres, execd, image, reaped, cstatus, waits>>

\* one optional call: chdir / setuid / setgid / setpgid
OptStep(label, next, wanted, s, nat, newim) ==
    /\ pc.C = label
    /\ IF ~wanted
       THEN /\ Goto("C", next)
            /\ UNCHANGED <<im, cerr, returns, child>>
            /\ NoCall
       ELSE LET e == Res("C", s, nat)
            IN  /\ Did("C", s, e)
                /\ IF e = 0
                   THEN /\ im' = newim
                        /\ Goto("C", next)
                        /\ UNCHANGED <<cerr, returns, child>>
                   ELSE /\ ChildFail(e)
                        /\ UNCHANGED im
    /\ UNCHANGED <<pin, cfgv, buildv, theirs, pipe, ci, perr, pres, execd, image, reaped, cstatus, waits>>

Chdir   == OptStep("c_chdir", "c_setuid", cfg.cwd # "none", "chdir",
                   IF cfg.cwd = "missing" THEN ENOENT ELSE 0, [im EXCEPT !.cwd = "dirA"])
Setuid  == OptStep("c_setuid", "c_setgid", cfg.uid # "unset", "setuid", 0,
                   [im EXCEPT !.uid = IF cfg.uid = "other" THEN OtherId ELSE 0])
\* as coded setgid comes AFTER setuid: once the privileges are dropped the kernel refuses a foreign group
Setgid  == OptStep("c_setgid", "c_setpgid", cfg.gid # "unset", "setgid",
                   IF im.uid = OtherId /\ cfg.gid = "other" THEN EPERM ELSE 0,
                   [im EXCEPT !.gid = IF cfg.gid = "other" THEN OtherId ELSE 0])
Setpgid == OptStep("c_setpgid", "c_pre", cfg.pg # "unset", "setpgid", 0, [im EXCEPT !.pg = "own"])

\* for closure in closures { closure.run()?; }   (ci re-used as closure index, reset here)
PreExec ==
    /\ pc.C = "c_pre"
    /\ LET done == Cardinality({i \in DOMAIN hist.C : hist.C[i][1] = "pre_exec"})
           lastWins == "PreExecLastWins" \in Dev
       IN  IF done >= Len(cfg.pre)
           THEN \* all closures are through (as coded this point is only reached when none failed)
                IF lastWins /\ Len(cfg.pre) > 0 /\ cfg.pre[Len(cfg.pre)] # 0
                THEN /\ ChildFail(cfg.pre[Len(cfg.pre)])
                     /\ UNCHANGED <<hist, F>>
                ELSE /\ Goto("C", "c_exec")
                     /\ UNCHANGED <<hist, F, cerr, returns, child>>
           ELSE LET code == cfg.pre[done + 1]
                IN  /\ hist' = [hist EXCEPT !.C = Append(@, <<"pre_exec", code>>)]
                    /\ IF code = 0
                       THEN UNCHANGED <<pc, F, cerr, returns, child>>
                       ELSE /\ F' = F \cup {[proc |-> "C", step |-> "pre_exec", errno |-> IF code > 0 THEN code ELSE 0]}
                            /\ IF lastWins
                               THEN UNCHANGED <<pc, cerr, returns, child>>     \* deviation: goes on to the next closure
                               ELSE ChildFail(code)                           \* closure.run()?  - the first failure ends it
    /\ UNCHANGED <<pin, cfgv, buildv, theirs, pipe, cnt, fired, im, ci, perr, pres, execd, image, reaped, cstatus, waits>>

EnvUsed == CASE envmode = "inherit" -> PEnv          \* crate::env::ENV.env_p
             [] envmode = "none"    -> << >>         \* NULL_ENV
             [] OTHER               -> SubSeq(envp, 1, Len(envp) - 1)

Execve ==
    /\ pc.C = "c_exec"
    /\ LET e == Res("C", "execve", CASE cfg.prog = "missing" -> ENOENT [] cfg.prog = "busy" -> ETXTBSY [] OTHER -> 0)
           \* does the failure go away when the call is repeated ?
           lasting == (cfg.prog = "busy" /\ ~Hit("C", "execve")) \/ (Hit("C", "execve") /\ fault.persist)
       IN  /\ Did("C", "execve", e)
           /\ IF e = 0
              THEN /\ execd' = TRUE
                   /\ image' = [prog |-> "bin", argv |-> SubSeq(argv, 1, Len(argv) - 1), envp |-> EnvUsed,
                                cwd |-> im.cwd, io |-> im.io, uid |-> im.uid, gid |-> im.gid, pg |-> im.pg]
                   /\ child' = "prog"
                   /\ pipe' = [pipe EXCEPT !.w = @ \ {"C"}, !.r = @ \ {"C"}]   \* O_CLOEXEC
                   /\ Goto("C", "prog")
                   /\ UNCHANGED cerr
              ELSE IF e = ETXTBSY /\ "ExecveRetriesEtxtbsy" \in Dev
              THEN \* deviation: try again - for ever ("spin": nothing is enabled any more) if the cause stays
                   /\ Goto("C", IF lasting THEN "spin" ELSE "c_exec")
                   /\ UNCHANGED <<cerr, execd, image, child, pipe>>
              ELSE /\ cerr' = IF "ExecveNegErrno" \in Dev THEN 0 - e ELSE e
                   /\ Goto("C", "c_write")
                   /\ UNCHANGED <<execd, image, child, pipe>>
    /\ UNCHANGED <<pin, cfgv, buildv, theirs, im, ci, perr, pres, returns, reaped, cstatus, waits>>

\* let _ = write(write_pipe, errno ++ "NOEX")   (one atomic pipe write)
WriteErrno ==
    /\ pc.C = "c_write"
    /\ Did("C", "write", 0)
    /\ pipe' = [pipe EXCEPT !.data = <<cerr, "NOEX">>]
    /\ Goto("C", "c_exit")
    \* as coded the 8 bytes are put together in an array on the stack; the deviation builds them with an
    \* allocating `concat`
    /\ calloc' = (calloc \/ "ChildAllocatesOnFailure" \in Dev)
    /\ UNCHANGED <<pin, cfg, fault, wi, cache, round, buildv, theirs, im, ci, cerr, perr, pres, obsv>>

Exit1 ==
    /\ pc.C = "c_exit"
    /\ child' = "exited"
    /\ cstatus' = 256
    /\ pipe' = [pipe EXCEPT !.w = @ \ {"C"}, !.r = @ \ {"C"}]
    /\ Goto("C", "gone")
    /\ UNCHANGED <<pin, cfgv, buildv, theirs, im, ci, cerr, perr, pres, returns, execd, image, reaped, waits>>
    /\ NoCall

\* environment: the exec'ed program runs and exits
ProgExits ==
    /\ pc.C = "prog"
    /\ ~(cfg.io[1] = "pipe" /\ pin)     \* the program reads its stdin to the end before it exits
    /\ child' = "exited"
    /\ cstatus' = HelperStatus
    /\ Goto("C", "gone")
    /\ UNCHANGED <<pin, cfgv, buildv, theirs, pipe, im, ci, cerr, perr, pres, returns, execd, image, reaped, waits>>
    /\ NoCall

\* environment: the second copy of the caller (deviation ChildReturnsErr) eventually exits
CallerCopyExits ==
    /\ pc.C = "caller"
    /\ child' = "exited"
    /\ cstatus' = 97 * 256
    /\ pipe' = [pipe EXCEPT !.w = @ \ {"C"}, !.r = @ \ {"C"}]
    /\ Goto("C", "gone")
    /\ UNCHANGED <<pin, cfgv, buildv, theirs, im, ci, cerr, perr, pres, returns, execd, image, reaped, waits>>
    /\ NoCall

Terminal == pc.P = "done" /\ pc.C \in {"none", "gone"}

(* ---- the same Command value is used again: Command::spawn takes &mut self and hands do_spawn   *)
(* POINTERS into argv / envp and the closures by reference - nothing of the Command is consumed,  *)
(* so a second spawn (optionally after another builder step) must behave like the first           *)
Respawn ==
    /\ Terminal
    /\ round = 1
    /\ cfg.respawn # "none"
    /\ round' = 2
    /\ argv' = IF cfg.respawn = "arg" THEN Append([argv EXCEPT ![Len(argv)] = "a3"], NULL) ELSE argv   \* Command::arg
    /\ pc' = [P |-> "sio", C |-> "none"]
    /\ bi' = 1
    /\ FreshSpawn
    /\ UNCHANGED <<cfg, fault, fired, envmode, vars, envp, calloc>>

Next == \/ BuildArg \/ BuildEnv \/ SetupIo \/ SyncPipe \/ Fork \/ ParentCloseWrite \/ ReadPipe
        \/ ParentWait \/ Return \/ DriverDropStdin \/ DriverOp \/ DriverDone
        \/ ChildCloseRead \/ Dup2 \/ Chdir \/ Setuid \/ Setgid \/ Setpgid \/ PreExec \/ Execve
        \/ WriteErrno \/ Exit1 \/ ProgExits \/ CallerCopyExits
        \/ Respawn
        \/ (Terminal /\ UNCHANGED vars_all)     \* so that a deadlock = somebody blocked forever

Spec == Init /\ [][Next]_vars_all

(* ---- invariants -------------------------------------------------------------------------- *)
\* argv / envp stay NULL-terminated (and NULL-free before the end) after every builder step
Terminated(v) == Len(v) >= 1 /\ v[Len(v)] = NULL /\ \A i \in 1..(Len(v) - 1) : v[i] # NULL
VectorsTerminated == Terminated(argv) /\ (envmode = "provided" => Terminated(envp))

\* what the caller has configured by now: a builder step between the two spawns counts for the second
AbsCfgNow == [AbsCfg(cfg) EXCEPT !.args = IF round = 2 /\ cfg.respawn = "arg" THEN Append(@, "a3") ELSE @]
AbsViolated == Violated(AbsCfgNow, Obs, Terminal)
\* KNOWN FINDING (genuine, see notes/C13.md): the child applies dup2(stdin), dup2(stdout), dup2(stderr) one
\* after the other on its own descriptor table, so a Stdio::RawFd naming a standard descriptor that an
\* EARLIER slot has already replaced picks up the replacement instead of the caller's descriptor
\* (stdin(RawFd(1)) + stdout(RawFd(0)) gives the program the caller's fd 1 on both).
SourceOverwritten(c) == \E s \in 2..3, j \in 1..2 : j < s /\ c.io[s] = FdNames[j] /\ c.io[j] \notin {"inherit", FdNames[j]}
KnownInModel == IF SourceOverwritten(cfg) THEN {"OkMeansConfigured"} ELSE {}
\* between fork and exec / _exit the child takes async-signal-safe steps only: it never enters the
\* allocator (another thread of the caller may hold the allocator's lock at the moment of the fork; the
\* child would block on it for ever, the parent on the sync pipe: spawn would return in no process)
ChildIsAsyncSignalSafe == ~calloc
AbsHolds == AbsViolated \ KnownInModel = {} /\ ChildIsAsyncSignalSafe

\* "the parent never blocks forever on the sync pipe" = absence of deadlock (CHECK_DEADLOCK
\* TRUE; Terminal states stutter)

\* anti-vacuity probes: each must be VIOLATED (reachable) in the exhaustive configuration
ProbeOk        == ~(Len(returns) = 1 /\ returns[1].res = "ok")
ProbeErrParent == ~(Len(returns) = 1 /\ returns[1].res = "err" /\ child = "none")
ProbeErrChild  == ~(Len(returns) = 1 /\ returns[1].res = "err" /\ reaped)
ProbeWaited    == ~(\E i \in DOMAIN waits : waits[i].res = "ok")
ProbeWaitedTwice == ~(\E i, j \in DOMAIN waits : i < j /\ waits[i].res = "ok" /\ waits[j].res = "ok")
ProbeTryNone   == ~(\E i \in DOMAIN waits : waits[i].res = "none")
=============================================================================
