------------------------------- MODULE Cli -------------------------------
(* C20 - argument parsers derived with tiny-cli's ArgParse / Subcommand macros.              *)
(*                                                                                         *)
(* A struct SHAPE is data (see CliShapes.tla, generated from the same table as the real    *)
(* derived types):                                                                          *)
(*   [name, fields |-> <<field..>>, sub |-> <<>> | <<[opt, tags |-> <<[tag, inner]..>>]>>]   *)
(*   field = [kind \in {"flag","option","positional"}, pkg \in {"required","optional",      *)
(*            "repeated"}, ty \in {"bool","int","str","unixstr"}, lo, hi, long, short]      *)
(*   tag.inner = <<>> (unit tag) | <<shape>> (tag carrying a struct).                        *)
(* Arguments (tokens) are byte strings: sequences over 0..255 without NUL.                   *)
(*                                                                                         *)
(* PART 1 is the DEFINITION (property level): Render, and Parse as the set `Admissible` of *)
(* outcomes a parser of the declared grammar may give.  What the derive documents (its     *)
(* tests, help text, change log) is definite; what it leaves open is a POLICY and the       *)
(* oracle admits every policy (see Policies).  PART 2 is the TRANSCRIPTION of the generated *)
(* matcher (impl_struct.rs / subcommand.rs) as a state machine (algorithm level).           *)
(* CliGen.tla checks transcription \in definition and the round trip, and prints vectors.  *)
EXTENDS Integers, Sequences, FiniteSets, SequencesExt, TLC

\* ------------------------------------------------------------------ tokens
HelpToks == { <<45,104>>, <<45,45,104,101,108,112>> }      \* -h  --help
Dashed(t) == Len(t) >= 1 /\ t[1] = 45

\* UTF-8 well-formedness (Unicode table 3-7) as a left fold over the bytes
U8Bad == [bad |-> TRUE, need |-> 0, lo |-> 0, hi |-> 0]
U8(n, l, h) == [bad |-> FALSE, need |-> n, lo |-> l, hi |-> h]
Utf8Step(st, b) ==
    IF st.bad THEN st
    ELSE IF st.need = 0 THEN
         IF b <= 127 THEN st
         ELSE IF b >= 194 /\ b <= 223 THEN U8(1, 128, 191)
         ELSE IF b = 224 THEN U8(2, 160, 191)
         ELSE IF (b >= 225 /\ b <= 236) \/ b = 238 \/ b = 239 THEN U8(2, 128, 191)
         ELSE IF b = 237 THEN U8(2, 128, 159)
         ELSE IF b = 240 THEN U8(3, 144, 191)
         ELSE IF b >= 241 /\ b <= 243 THEN U8(3, 128, 191)
         ELSE IF b = 244 THEN U8(3, 128, 143)
         ELSE U8Bad
    ELSE IF b >= st.lo /\ b <= st.hi THEN U8(st.need - 1, 128, 191) ELSE U8Bad
Utf8Ok(t) == LET f == FoldLeft(Utf8Step, U8(0, 128, 191), t) IN ~f.bad /\ f.need = 0

\* core::str::FromStr of the integer types: optional sign ('-' only for signed types), at
\* least one ASCII digit, nothing else, value inside [lo, hi].  Accumulates on the side of the
\* sign so that lo itself is reached without leaving TLC's 32-bit integers.
IntFail == [ok |-> FALSE, n |-> 0]
ParseInt(t, lo, hi) ==
    LET neg  == lo < 0 /\ Len(t) >= 1 /\ t[1] = 45
        plus == Len(t) >= 1 /\ t[1] = 43
        d    == IF neg \/ plus THEN Tail(t) ELSE t
        hi10 == hi \div 10
        lo10 == (lo + 9) \div 10
        step(acc, b) ==
            IF ~acc.ok THEN acc
            ELSE IF neg
                 THEN IF acc.n >= lo10 /\ acc.n * 10 >= lo + (b - 48)
                      THEN [ok |-> TRUE, n |-> acc.n * 10 - (b - 48)] ELSE IntFail
                 ELSE IF acc.n <= hi10 /\ acc.n * 10 <= hi - (b - 48)
                      THEN [ok |-> TRUE, n |-> acc.n * 10 + (b - 48)] ELSE IntFail
    IN IF d = <<>> \/ \E i \in DOMAIN d : d[i] < 48 \/ d[i] > 57 THEN IntFail
       ELSE FoldLeft(step, [ok |-> TRUE, n |-> 0], d)

\* ------------------------------------------------------------------ shapes
IsOpt(f) == f.kind # "positional"
Lits(f) == {f.long, f.short} \ {<<>>}
HasSub(S) == S.sub # <<>>
SubOf(S) == S.sub[1]
NF(S) == Len(S.fields)
MinOf(c) == CHOOSE i \in c : \A j \in c : i <= j
\* the field whose option literal t is (the first one, as in a match), 0 if none
FieldOfLit(S, t) ==
    LET c == {i \in 1..NF(S) : IsOpt(S.fields[i]) /\ t \in Lits(S.fields[i])}
    IN IF c = {} THEN 0 ELSE MinOf(c)
TagOf(S, t) ==
    IF ~HasSub(S) THEN 0
    ELSE LET c == {k \in 1..Len(SubOf(S).tags) : SubOf(S).tags[k].tag = t}
         IN IF c = {} THEN 0 ELSE MinOf(c)
\* indices of the positional fields in declaration order
PosIdx(S) == SelectSeq([i \in 1..NF(S) |-> i], LAMBDA i : S.fields[i].kind = "positional")
RECURSIVE StructAt(_, _)
StructAt(S, lvl) == IF lvl = <<>> THEN S ELSE StructAt(SubOf(S).tags[Head(lvl)].inner[1], Tail(lvl))
RECURSIVE AnyPos(_)
AnyPos(S) == \/ \E i \in 1..NF(S) : S.fields[i].kind = "positional"
             \/ HasSub(S) /\ \E k \in 1..Len(SubOf(S).tags) :
                    SubOf(S).tags[k].inner # <<>> /\ AnyPos(SubOf(S).tags[k].inner[1])
RECURSIVE AnyUnit(_)
AnyUnit(S) == HasSub(S) /\ \E k \in 1..Len(SubOf(S).tags) :
                    \/ SubOf(S).tags[k].inner = <<>>
                    \/ SubOf(S).tags[k].inner # <<>> /\ AnyUnit(SubOf(S).tags[k].inner[1])

\* ------------------------------------------------------------------ values and outcomes
\* value of a struct: [f |-> <<per field: BOOLEAN for a flag, else the sequence of its values
\* (required: 1, optional: 0..1, repeated: any)>>, sc |-> <<>> | <<[tag |-> k, v |-> value]>>]
NoVal == [f |-> <<>>, sc |-> <<>>]
OkOut(v) == [ok |-> TRUE, v |-> v, kind |-> "", lvl |-> <<>>]
ErrOut(k, lvl) == [ok |-> FALSE, v |-> NoVal, kind |-> k, lvl |-> lvl]
\* kinds: Help Unrecognized MissingValue MissingRequired BadUtf8 BadValue, and "Any" (an error
\* of whatever kind: admitted where a policy rejects something the documentation is silent on)

\* conversion of one value token for field f: "value conversion via FromStr / as_str".
\* A non-UTF-8 token for a str/int field is malformed; whether that is reported as BadUtf8 or
\* as BadValue is not documented: both admitted.
ConvOk(v) == [ok |-> TRUE, v |-> v, kinds |-> {}]
ConvFail(ks) == [ok |-> FALSE, v |-> <<>>, kinds |-> ks]
Conv(f, t) ==
    IF f.ty = "unixstr" THEN ConvOk(t)
    ELSE IF ~Utf8Ok(t) THEN ConvFail({"BadUtf8", "BadValue"})
    ELSE IF f.ty = "str" THEN ConvOk(t)
    ELSE LET p == ParseInt(t, f.lo, f.hi) IN IF p.ok THEN ConvOk(p.n) ELSE ConvFail({"BadValue"})

\* ================================================================== PART 1: DEFINITION
\* Policies: the points the derive's documentation (tests, help text, change log) is silent on.
\*  dup       a single-valued option / flag / command given more than once:
\*            first wins | last wins | rejected (some error)
\*  dashpos   a token starting with '-' that is no declared literal, where a positional could
\*            go: taken as the positional's value | rejected as an unknown option
\*  afterunit tokens after a unit command (`prog cmd-one <more>`): the struct's own grammar
\*            goes on | nothing but a help request may follow
Policies(S) == [dup : {"first", "last", "reject"},
                dashpos : IF AnyPos(S) THEN {"value", "reject"} ELSE {"value"},
                afterunit : IF AnyUnit(S) THEN {"continue", "reject"} ELSE {"continue"}]

Item(k, i, a, r) == [k |-> k, i |-> i, a |-> a, r |-> r]
\* Split the arguments of one struct level into items, left to right:
\*   flag(i)            a flag literal of field i
\*   val(i, a)          an option literal of field i followed by its value a - ANY next token
\*                      (the round trip must hold for option-like values)
\*   novalue(i)         an option literal at the very end
\*   help               -h / --help where an option or argument is expected
\*   sub(k, rest)       the token of tag k; a struct tag owns all remaining arguments
\*   pos(a)             anything else where the struct has positionals
\*   unknown(a)         anything else
RECURSIVE Itemize(_, _, _, _)
Itemize(S, p, args, closed) ==
    IF args = <<>> THEN <<>>
    ELSE LET t  == Head(args)
             r  == Tail(args)
             fi == FieldOfLit(S, t)
             ti == TagOf(S, t)
             unk == <<Item("unknown", 0, t, <<>>)>> \o Itemize(S, p, r, closed)
         IN IF fi = 0 /\ t \in HelpToks THEN <<Item("help", 0, <<>>, <<>>)>>
            ELSE IF closed THEN unk
            ELSE IF fi # 0 THEN
                 IF S.fields[fi].kind = "flag"
                 THEN <<Item("flag", fi, <<>>, <<>>)>> \o Itemize(S, p, r, closed)
                 ELSE IF r = <<>> THEN <<Item("novalue", fi, <<>>, <<>>)>>
                 ELSE <<Item("val", fi, Head(r), <<>>)>> \o Itemize(S, p, Tail(r), closed)
            ELSE IF HasSub(S) THEN
                 IF ti = 0 THEN unk
                 ELSE IF SubOf(S).tags[ti].inner # <<>> THEN <<Item("sub", ti, <<>>, r)>>
                 ELSE <<Item("sub", ti, <<>>, <<>>)>> \o Itemize(S, p, r, p.afterunit = "reject")
            ELSE IF PosIdx(S) # <<>> /\ ~(Dashed(t) /\ p.dashpos = "reject")
                 THEN <<Item("pos", 0, t, <<>>)>> \o Itemize(S, p, r, closed)
            ELSE unk

\* The outcome of struct S (at level lvl) on args under policy p: the errors of all offending
\* items and of a missing required field / command (any of them may be the one reported - the
\* property does not order them), else the one value.
\* (raw = TRUE returns the value TOKENS instead of the converted values: the token assignment
\* whose rendering the line is, used by CliGen!InGrammar)
RECURSIVE DetX(_, _, _, _, _)
DetX(S, p, lvl, args, raw) ==
    LET items == Itemize(S, p, args, FALSE)
        n     == Len(items)
        pidx  == PosIdx(S)
        PosOrd(j) == Cardinality({k \in 1..j : items[k].k = "pos"})
        \* the field an item assigns (the k-th positional item goes to the k-th positional
        \* field; 0 = one positional too many)
        FieldOfItem(j) ==
            IF items[j].k = "pos"
            THEN IF PosOrd(j) <= Len(pidx) THEN pidx[PosOrd(j)] ELSE 0
            ELSE items[j].i
        Assigns(j) == items[j].k \in {"flag", "val", "pos"}
        InnerOf(j) ==
            LET tg == SubOf(S).tags[items[j].i]
            IN IF tg.inner = <<>> THEN {OkOut(NoVal)}
               ELSE DetX(tg.inner[1], p, Append(lvl, items[j].i), items[j].r, raw)
        Occ(i) == SelectSeq([j \in 1..n |-> j], LAMBDA j : Assigns(j) /\ FieldOfItem(j) = i)
        SubOcc == SelectSeq([j \in 1..n |-> j], LAMBDA j : items[j].k = "sub")
        DupErr(j) ==
            IF /\ p.dup = "reject"
               /\ \/ items[j].k = "sub" /\ \E j2 \in 1..(j - 1) : items[j2].k = "sub"
                  \/ /\ Assigns(j) /\ FieldOfItem(j) # 0
                     /\ S.fields[FieldOfItem(j)].pkg # "repeated"
                     /\ \E j2 \in 1..(j - 1) : Assigns(j2) /\ FieldOfItem(j2) = FieldOfItem(j)
            THEN {<<"Any", lvl>>} ELSE {}
        ErrsOfItem(j) ==
            LET k == items[j].k IN
            IF k = "help" THEN {<<"Help", lvl>>}
            ELSE IF k = "novalue" THEN {<<"MissingValue", lvl>>}
            ELSE IF k = "unknown" THEN {<<"Unrecognized", lvl>>}
            ELSE IF k = "pos" /\ FieldOfItem(j) = 0 THEN {<<"Unrecognized", lvl>>}
            ELSE IF k = "flag" THEN DupErr(j)
            ELSE IF k = "sub" THEN {<<o.kind, o.lvl>> : o \in {x \in InnerOf(j) : ~x.ok}} \cup DupErr(j)
            ELSE LET c == Conv(S.fields[FieldOfItem(j)], items[j].a)
                 IN {<<kk, lvl>> : kk \in c.kinds} \cup DupErr(j)
        Errs == UNION {ErrsOfItem(j) : j \in 1..n}
        Missing ==
            \/ \E i \in 1..NF(S) : S.fields[i].pkg = "required" /\ S.fields[i].kind # "flag" /\ Occ(i) = <<>>
            \/ HasSub(S) /\ ~SubOf(S).opt /\ SubOcc = <<>>
        ValAt(i, j) == IF raw THEN items[j].a ELSE Conv(S.fields[i], items[j].a).v
        FieldVal(i) ==
            LET f == S.fields[i]  occ == Occ(i) IN
            IF f.kind = "flag" THEN Len(occ) > 0
            ELSE IF occ = <<>> THEN <<>>
            ELSE IF f.pkg = "repeated" THEN [k \in 1..Len(occ) |-> ValAt(i, occ[k])]
            ELSE IF p.dup = "first" THEN <<ValAt(i, occ[1])>> ELSE <<ValAt(i, occ[Len(occ)])>>
        SubVal ==
            IF SubOcc = <<>> THEN <<>>
            ELSE LET j == IF p.dup = "first" THEN SubOcc[1] ELSE SubOcc[Len(SubOcc)]
                 IN <<[tag |-> items[j].i, v |-> (CHOOSE o \in InnerOf(j) : o.ok).v]>>
        Fs == IF NF(S) = 0 THEN <<>> ELSE [i \in 1..NF(S) |-> FieldVal(i)]
    IN IF Errs # {} \/ Missing
       THEN {ErrOut(e[1], e[2]) : e \in Errs} \cup (IF Missing THEN {ErrOut("MissingRequired", lvl)} ELSE {})
       ELSE {OkOut([f |-> Fs, sc |-> SubVal])}

Det(S, p, lvl, args) == DetX(S, p, lvl, args, FALSE)

\* Parse(shape, args) as the set of admissible outcomes: the definition
AdmissibleFull(S, args) == UNION {Det(S, p, <<>>, args) : p \in Policies(S)}

\* The same set, computed without evaluating policies that cannot matter: GrayDims = the
\* undocumented points the line actually touches, seen under the base policy (the other
\* policies only turn items into `unknown`, they never create a new duplicate, dashed
\* positional or token after a unit command).  CliGen checks Admissible = AdmissibleFull.
P0 == [dup |-> "last", dashpos |-> "value", afterunit |-> "continue"]
RECURSIVE GrayDims(_, _)
GrayDims(S, args) ==
    LET items == Itemize(S, P0, args, FALSE)
        n     == Len(items)
        pidx  == PosIdx(S)
        PosOrd(j) == Cardinality({k \in 1..j : items[k].k = "pos"})
        Fld(j) == IF items[j].k = "pos" THEN (IF PosOrd(j) <= Len(pidx) THEN pidx[PosOrd(j)] ELSE 0)
                  ELSE IF items[j].k \in {"flag", "val"} THEN items[j].i ELSE 0
        dup == \/ \E j, j2 \in 1..n : j2 < j /\ items[j].k = "sub" /\ items[j2].k = "sub"
               \/ \E j, j2 \in 1..n : /\ j2 < j /\ Fld(j) # 0 /\ Fld(j2) = Fld(j)
                                       /\ S.fields[Fld(j)].pkg # "repeated"
        dash == \E j \in 1..n : items[j].k = "pos" /\ Dashed(items[j].a)
        unit == \E j \in 1..n : j < n /\ items[j].k = "sub" /\ SubOf(S).tags[items[j].i].inner = <<>>
        inner == IF n > 0 /\ items[n].k = "sub" /\ SubOf(S).tags[items[n].i].inner # <<>>
                 THEN GrayDims(SubOf(S).tags[items[n].i].inner[1], items[n].r) ELSE {}
    IN (IF dup THEN {"dup"} ELSE {}) \cup (IF dash THEN {"dashpos"} ELSE {})
       \cup (IF unit THEN {"afterunit"} ELSE {}) \cup inner
Admissible(S, args) ==
    LET g == GrayDims(S, args)
    IN UNION {Det(S, p, <<>>, args) :
                p \in [dup : IF "dup" \in g THEN {"first", "last", "reject"} ELSE {"last"},
                       dashpos : IF "dashpos" \in g THEN {"value", "reject"} ELSE {"value"},
                       afterunit : IF "afterunit" \in g THEN {"continue", "reject"} ELSE {"continue"}]}

\* does the definition accept an observed outcome?  out = [r \in {"ok","err","panic"}, v, kind, lvl]
\* observed kinds "Overflow" (the 128-byte cause buffer's fallback text) and "Other" (a cause
\* text the classifier does not know) are errors of unknown kind: the property asks for an
\* error value with the relevant help, not for a wording.
Accepts(adm, out) ==
    IF out.r = "ok" THEN \E a \in adm : a.ok /\ a.v = out.v
    ELSE IF out.r = "err"
    THEN \E a \in adm : /\ ~a.ok
                        /\ a.lvl = out.lvl
                        /\ (a.kind = out.kind \/ a.kind = "Any" \/ out.kind \in {"Overflow", "Other"})
    ELSE FALSE      \* a panic is never admissible

\* ------------------------------------------------------------------ Render
\* A token assignment tv has the shape of a value, with the value TOKENS in place of the
\* values: [f |-> <<BOOLEAN | <<token..>>..>>, sc |-> <<>> | <<[tag, v |-> token assignment]>>].
RECURSIVE ValOf(_, _)
ValOf(S, tv) ==
    [f |-> IF NF(S) = 0 THEN <<>>
           ELSE [i \in 1..NF(S) |->
                   IF S.fields[i].kind = "flag" THEN tv.f[i]
                   ELSE IF tv.f[i] = <<>> THEN <<>>
                   ELSE [k \in 1..Len(tv.f[i]) |-> Conv(S.fields[i], tv.f[i][k]).v]],
     sc |-> IF tv.sc = <<>> THEN <<>>
            ELSE LET tg == SubOf(S).tags[tv.sc[1].tag]
                 IN <<[tag |-> tv.sc[1].tag,
                       v |-> IF tg.inner = <<>> THEN NoVal ELSE ValOf(tg.inner[1], tv.sc[1].v)]>>]

\* one slot per argument group of this level, in declaration order (field index per slot)
Slots(S, tv) ==
    IF NF(S) = 0 THEN <<>>
    ELSE FlattenSeq([i \in 1..NF(S) |->
            LET c == IF S.fields[i].kind = "flag" THEN (IF tv.f[i] THEN 1 ELSE 0) ELSE Len(tv.f[i])
            IN IF c = 0 THEN <<>> ELSE [k \in 1..c |-> i]])
\* an order of one level: perm = a permutation of the slots (position -> slot), alias = which
\* literal ("l"ong / "s"hort) the group at each position uses when the field has both.
\* Positionals keep their relative order (their order IS their meaning).
OrderValid(S, tv, o) ==
    LET sl == Slots(S, tv) IN
    \A a, b \in 1..Len(sl) :
        (a < b /\ S.fields[sl[o.perm[a]]].kind = "positional" /\ S.fields[sl[o.perm[b]]].kind = "positional")
            => o.perm[a] < o.perm[b]
RenderLevel(S, tv, o) ==
    LET sl == Slots(S, tv)
        m  == Len(sl)
        fld(a) == sl[o.perm[a]]
        occno(a) == Cardinality({b \in 1..a : fld(b) = fld(a)})
        lit(a) == LET f == S.fields[fld(a)]
                  IN IF f.short = <<>> THEN f.long ELSE IF f.long = <<>> THEN f.short
                     ELSE IF o.alias[a] = "l" THEN f.long ELSE f.short
        group(a) == LET f == S.fields[fld(a)] IN
                    IF f.kind = "flag" THEN <<lit(a)>>
                    ELSE IF f.kind = "option" THEN <<lit(a), tv.f[fld(a)][occno(a)]>>
                    ELSE <<tv.f[fld(a)][occno(a)]>>
    IN IF m = 0 THEN <<>> ELSE FlattenSeq([a \in 1..m |-> group(a)])
\* ord = [here |-> order of this level, inner |-> <<>> | <<ord of the chosen tag's struct>>]
RECURSIVE Render(_, _, _)
Render(S, tv, ord) ==
    RenderLevel(S, tv, ord.here) \o
    (IF tv.sc = <<>> THEN <<>>
     ELSE LET tg == SubOf(S).tags[tv.sc[1].tag]
          IN <<tg.tag>> \o (IF tg.inner = <<>> THEN <<>> ELSE Render(tg.inner[1], tv.sc[1].v, ord.inner[1])))

\* ================================================================== PART 2: TRANSCRIPTION
\* The code `#[derive(ArgParse)]` generates (impl_struct.rs CodeWriter::finish), per struct:
\*     let mut <field>: Option<T> = None | Vec<T> = Vec::new() | bool = false;  let mut <sc> = None;
\*     while let Some(next) = args.next() { match next.as_slice() {
\*         SHORT | LONG => { <field> = true }                                    -- ArmFlag
\*         SHORT | LONG => { let Some(next_arg) = args.next() else { return Err("Expected argument
\*                           following ..") };                                   -- ArmOptionNoValue
\*                           <field> = Some(conv(next_arg)?) | <field>.push(conv(next_arg)?) }
\*                                                                               -- ArmOptionValue / ArmOptionBadValue
\*         b"-h\0" | b"--help\0" => return Err(cause "")                         -- ArmHelp
\*         no_match => with a subcommand:  subcommand_parse(next, args)? -> Some(sc) | Err(Unrecognized)
\*                                                     -- TailUnit / TailEnter / TailNoMatch
\*                     else: if <pos1>.is_none() { <pos1> = Some(conv(next)?) } else if .. else
\*                           Err(Unrecognized)                                   -- PosAssign / PosBadValue / PosNone
\*     } }
\*     Ok(Self { <field>: <field> | if let Some(v) = <field> { v } else { return Err(Required ..) }, .. })
\*                                                            -- FinishMissing / FinishOk / FinishReturn
\* `subcommand_parse` (subcommand.rs) matches the kebab-case tag; a struct tag calls the inner
\* struct's arg_parse on the SAME iterator (it runs until the arguments are exhausted), a unit
\* tag returns at once and the outer loop goes on.
\* Machine state: stk = stack of frames (one per active arg_parse call), rem = the iterator.
Running == [ok |-> FALSE, v |-> NoVal, kind |-> "Running", lvl |-> <<>>]
Frame0(S, lvl) ==
    [lvl |-> lvl,
     f |-> IF NF(S) = 0 THEN <<>>
           ELSE [i \in 1..NF(S) |-> IF S.fields[i].kind = "flag" THEN FALSE ELSE <<>>],
     sc |-> <<>>]
\* conv as generated: UnixStr as is; str via as_str (utf8 error); others as_str then FromStr
ConvImpl(f, t) ==
    IF f.ty = "unixstr" THEN ConvOk(t)
    ELSE IF ~Utf8Ok(t) THEN ConvFail({"BadUtf8"})
    ELSE IF f.ty = "str" THEN ConvOk(t)
    ELSE LET p == ParseInt(t, f.lo, f.hi) IN IF p.ok THEN ConvOk(p.n) ELSE ConvFail({"BadValue"})
Store(f, old, v) == IF f.pkg = "repeated" THEN Append(old, v) ELSE <<v>>
\* one step of the machine: [stk, rem, res] -> [stk, rem, res]; Top = shape of the whole command
MStep(Top, stk, rem) ==
    LET d  == Len(stk)
        F  == stk[d]
        S  == StructAt(Top, F.lvl)
        Fail(arm, k) == [arm |-> arm, stk |-> stk, rem |-> <<>>, res |-> ErrOut(k, F.lvl)]
        Go(arm, F2, rem2) == [arm |-> arm, stk |-> [stk EXCEPT ![d] = F2], rem |-> rem2, res |-> Running]
    IN
    IF rem # <<>> THEN
        LET t  == Head(rem)
            fi == FieldOfLit(S, t)
            ti == TagOf(S, t)
        IN IF fi # 0 THEN
               LET f == S.fields[fi] IN
               IF f.kind = "flag" THEN Go("ArmFlag", [F EXCEPT !.f[fi] = TRUE], Tail(rem))
               ELSE IF Len(rem) = 1 THEN Fail("ArmOptionNoValue", "MissingValue")
               ELSE LET c == ConvImpl(f, rem[2]) IN
                    IF c.ok THEN Go("ArmOptionValue", [F EXCEPT !.f[fi] = Store(f, F.f[fi], c.v)], Tail(Tail(rem)))
                    ELSE Fail("ArmOptionBadValue", CHOOSE k \in c.kinds : TRUE)
           ELSE IF t \in HelpToks THEN Fail("ArmHelp", "Help")
           ELSE IF HasSub(S) THEN
               IF ti = 0 THEN Fail("TailNoMatch", "Unrecognized")
               ELSE IF SubOf(S).tags[ti].inner = <<>>
                    THEN Go("TailUnit", [F EXCEPT !.sc = <<[tag |-> ti, v |-> NoVal]>>], Tail(rem))
                    ELSE [arm |-> "TailEnter",
                          stk |-> Append(stk, Frame0(SubOf(S).tags[ti].inner[1], Append(F.lvl, ti))),
                          rem |-> Tail(rem), res |-> Running]
           ELSE LET open == {i \in 1..NF(S) : S.fields[i].kind = "positional" /\ F.f[i] = <<>>} IN
                IF open = {} THEN Fail("PosNone", "Unrecognized")
                ELSE LET i == MinOf(open)  c == ConvImpl(S.fields[i], t) IN
                     IF c.ok THEN Go("PosAssign", [F EXCEPT !.f[i] = <<c.v>>], Tail(rem))
                     ELSE Fail("PosBadValue", CHOOSE k \in c.kinds : TRUE)
    ELSE
        LET missing == \/ \E i \in 1..NF(S) : /\ S.fields[i].pkg = "required"
                                              /\ S.fields[i].kind # "flag" /\ F.f[i] = <<>>
                       \/ HasSub(S) /\ ~SubOf(S).opt /\ F.sc = <<>>
            val == [f |-> F.f, sc |-> F.sc]
        IN IF missing THEN Fail("FinishMissing", "MissingRequired")
           ELSE IF d = 1 THEN [arm |-> "FinishOk", stk |-> stk, rem |-> <<>>, res |-> OkOut(val)]
           ELSE [arm |-> "FinishReturn",
                 stk |-> [SubSeq(stk, 1, d - 1) EXCEPT ![d - 1].sc = <<[tag |-> F.lvl[Len(F.lvl)], v |-> val]>>],
                 rem |-> <<>>, res |-> Running]
Arms == {"ArmFlag", "ArmOptionNoValue", "ArmOptionValue", "ArmOptionBadValue", "ArmHelp", "TailNoMatch",
         "TailUnit", "TailEnter", "PosNone", "PosAssign", "PosBadValue", "FinishMissing", "FinishOk", "FinishReturn"}

\* ================================================================== cause buffer
\* tiny-std/src/unix/cli.rs: ArgParseCauseBuffer is a 128-byte array plus len; write_str fails
\* (without writing) when the piece does not fit; ArgParseError::new_cause_str / new_cause_fmt
\* then return the error with the canned 68-byte overflow text instead.
CauseCap == 128
CauseFallbackLen == 68
SumSeq(s) == FoldLeft(LAMBDA a, b : a + b, 0, s)
\* definition: the cause is the text if it fits, else the fallback
CauseDef(pieces) == IF SumSeq(pieces) <= CauseCap THEN [via |-> "ok", len |-> SumSeq(pieces)]
                    ELSE [via |-> "overflow", len |-> CauseFallbackLen]
=============================================================================
