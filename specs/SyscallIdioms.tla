--------------------------- MODULE SyscallIdioms ---------------------------
(* C09, algorithm level: the result-decoding idioms found in rusl, transcribed as written,   *)
(* as functions from the kernel's raw answer to "retry" or a predicted result.               *)
(*   bail_unit    bail_on_below_zero!(res): res > usize::MAX - 4095 => Err(0 - res as i32); Ok(())   *)
(*   bail_val     the same test, then Ok(res) with all 64 bits (usize / u64 / i64 wrappers)  *)
(*   bail_val32   the same test, then Ok(res as i32 / Fd) - also Fd::coerce_from_register       *)
(*   bail_valu32  the same test, then Ok(res as u32) (get_uid)                                *)
(*   raw32        no test at all: returns res as i32 (get_pid)                                *)
(*   ignore       the result register is not looked at (clock_get_real_time)                 *)
(*   dup_minus16  dup3: re-issue iff the answer is -EBUSY, then bail_unit                    *)
(*   execve_neg   execve: Err(0 - res as i32) whatever the answer                            *)
(* and the two idioms of the pinned tree that TLC must reject:                               *)
(*   dup_plus16   re-issue iff (res as i32) = +16       execve_raw   Err(res as i32)          *)
(* SyscallProto.tla model-checks each idiom against the property; SyscallJudge.tla reports    *)
(* for every recorded invocation of the real wrappers which idioms explain it, so that the   *)
(* check can say which modelled idiom each wrapper follows (model conformance).               *)
EXTENDS Syscall

ConformingIdioms == <<"bail_unit", "bail_val", "bail_val32", "bail_valu32", "raw32", "ignore", "dup_minus16", "execve_neg">>
RejectedIdioms == <<"dup_plus16", "execve_raw">>
IdiomSeq == ConformingIdioms \o RejectedIdioms

ErrOf(raw) == [tag |-> "err", code |-> raw[2]]
\* a 32-bit projection is known exactly for the "pos"/"neg" classes only
Val32(raw) == [tag |-> "val", v |-> raw, exact |-> raw[1] \in {"pos", "neg"}]
Val32u(raw) == [tag |-> "val", v |-> raw, exact |-> raw[1] = "pos"]   \* res as u32
Val64(raw) == [tag |-> "val", v |-> raw, exact |-> TRUE]

IdiomStepOf(idiom, raw) ==
    CASE idiom = "bail_unit"  -> IF IsErr(raw) THEN ErrOf(raw) ELSE [tag |-> "unit"]
      [] idiom = "bail_val"   -> IF IsErr(raw) THEN ErrOf(raw) ELSE Val64(raw)
      [] idiom = "bail_val32" -> IF IsErr(raw) THEN ErrOf(raw) ELSE Val32(raw)
      [] idiom = "bail_valu32" -> IF IsErr(raw) THEN ErrOf(raw) ELSE Val32u(raw)
      [] idiom = "raw32"      -> Val32(raw)
      [] idiom = "ignore"     -> [tag |-> "none"]
      [] idiom = "dup_plus16" ->
             IF SameRaw(raw, Pos(EBUSY)) THEN [tag |-> "retry"]
             ELSE IF IsErr(raw) THEN ErrOf(raw) ELSE [tag |-> "unit"]
      [] idiom = "dup_minus16" ->
             IF SameRaw(raw, Neg(EBUSY)) THEN [tag |-> "retry"]
             ELSE IF IsErr(raw) THEN ErrOf(raw) ELSE [tag |-> "unit"]
      [] idiom = "execve_raw" -> [tag |-> "err", code |-> IF raw[1] = "neg" THEN 0 - raw[2] ELSE IF raw[1] = "pos" THEN raw[2] ELSE 0]
      [] idiom = "execve_neg" -> [tag |-> "err", code |-> IF raw[1] = "neg" THEN raw[2] ELSE IF raw[1] = "pos" THEN 0 - raw[2] ELSE 0]

IdiomKindOf(idiom) ==
    CASE idiom \in {"bail_unit", "dup_plus16", "dup_minus16"} -> "unit"
      [] idiom = "bail_val"   -> "usize"
      [] idiom = "bail_val32" -> "i32"
      [] idiom = "bail_valu32" -> "u32"
      [] idiom = "raw32"      -> "nofail"
      [] idiom = "ignore"     -> "void"
      [] OTHER -> "noreturn"
IdiomRetryOf(idiom) == IF idiom \in {"dup_plus16", "dup_minus16"} THEN "ebusy" ELSE "none"

\* does the predicted result describe the recorded one?
Matches(pred, res) ==
    /\ pred.tag = res.tag
    /\ (pred.tag = "err" => pred.code = res.code)
    /\ (pred.tag = "val" => (pred.exact => SameRaw(pred.v, res.v)))

\* does the idiom explain one recorded invocation (answers delivered, issues, how it ended, result)?
Explains(idiom, raws, issues, ended, res) ==
    IF ended = "limit"
    THEN \A j \in 1..Len(raws) : IdiomStepOf(idiom, raws[j]).tag = "retry"
    ELSE /\ ended = "returned"
         /\ issues >= 1 /\ issues <= Len(raws)
         /\ \A j \in 1..(issues - 1) : IdiomStepOf(idiom, raws[j]).tag = "retry"
         /\ LET p == IdiomStepOf(idiom, raws[issues]) IN p.tag # "retry" /\ Matches(p, res)
=============================================================================
