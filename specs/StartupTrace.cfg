CONSTANTS
  Version = "fixed"
  Argvs = {}
  Entries = {}
  MaxEnv = 0
  Keys = {}
  Auxvs = {}
  Fns = {}
INIT InitT
NEXT NextT
INVARIANT Report
CHECK_DEADLOCK FALSE
