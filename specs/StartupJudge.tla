--------------------------- MODULE StartupJudge ---------------------------
(* C07 judge: one record per real run of the no-libc start-up probe (probe/start, -static, -spie) that the  *)
(* launcher exec'd with exact argv/envp vectors.  A record carries the vectors passed, the   *)
(* kernel's view of the process (/proc/<pid>/cmdline, environ, auxv, the bytes at AT_RANDOM  *)
(* and AT_EXECFN) and everything the probe echoed from tiny-std's API.  Each record is       *)
(* decided against the property-level definitions of Startup.tla.                            *)
EXTENDS Integers, Sequences, FiniteSets, TLC, Json, IOUtils, SequencesExt
Rec == ndJsonDeserialize(IOEnv.TRACE)

S == INSTANCE Startup WITH Version <- "fixed", Argvs <- {}, Entries <- {}, MaxEnv <- 0, Keys <- {},
                           Auxvs <- {}, Fns <- {},
                           argv <- <<>>, env <- <<>>, aux <- <<>>, key <- <<>>, fn <- "", st <- <<>>, heap <- <<>>,
                           pc <- "", argc <- 0, argvp <- 0, envp <- 0, off <- 0, akey <- 0, coll <- <<>>, it <- 0,
                           out <- <<>>, rdw <- {}, rdb <- {}, rdk <- {}

\* UTF-8: all-ASCII strings are valid; strings containing a byte that never occurs in UTF-8
\* (C0, C1, F5..FF) are invalid; anything else is left open (both answers admitted)
Ascii(s) == \A i \in 1..Len(s) : s[i] < 128
NeverUtf8(s) == \E i \in 1..Len(s) : s[i] \in {192, 193} \cup (245..255)

\* ---- arguments: exactly the vector the kernel passed --------------------------------------
ArgsOk(r) ==
    /\ r.argc = <<Len(r.kargv), Len(r.kargv)>>
    /\ r.args_os = r.kargv
    /\ Len(r.args) = Len(r.kargv)
    /\ \A i \in 1..Len(r.kargv) :
          \/ ~NeverUtf8(r.kargv[i]) /\ r.args[i].k = "ok" /\ r.args[i].v = r.kargv[i]
          \/ ~Ascii(r.kargv[i]) /\ r.args[i].k = "err"

\* ---- environment lookup ------------------------------------------------------------------
AsRes(x) == IF x = S!Missing THEN [k |-> "missing"] ELSE [k |-> "ok", v |-> x[2]]
\* (a &UnixStr cannot hold a key with an embedded NUL: the probe then reports var_unix as "skipped")
HasNul(k) == \E i \in 1..Len(k) : k[i] = 0
VarUnixOk(r, l) == IF l.varu.k = "skipped" THEN HasNul(l.key)
                   ELSE l.varu \in {AsRes(x) : x \in S!LookupAdmissible(r.kenv, l.key)}
\* var additionally converts the value to &str: NotUnicode for a value that is not UTF-8
VarOk(r, l) ==
    \E x \in S!LookupAdmissible(r.kenv, l.key) :
        IF x = S!Missing THEN l.var = [k |-> "missing"]
        ELSE \/ ~NeverUtf8(x[2]) /\ l.var = [k |-> "ok", v |-> x[2]]
             \/ ~Ascii(x[2]) /\ l.var = [k |-> "notunicode"]
BadLook(r) == {i \in 1..Len(r.look) : ~(VarUnixOk(r, r.look[i]) /\ (r.look[i].var.k = "skipped" \/ VarOk(r, r.look[i])))}

\* ---- aux values: what /proc/<pid>/auxv (and the memory it points to) says -----------------
AuxOk(r) == r.has_aux =>     \* (a probe built without tiny-std's aux feature has no getters)
            /\ r.aux.uid = r.kaux.uid
            /\ r.aux.gid = r.kaux.gid
            /\ r.aux.random = r.kaux.random /\ Len(r.kaux.random) = 16
            /\ r.aux.execfn = r.kaux.execfn

\* ---- clocks: syscall reading, tiny-std reading (vDSO when found), syscall reading ----------
\* The three readings are successive reads of ONE clock in one lane (Clock.tla, ReadMonotone: what a lane
\* observes never decreases) taken through two mechanisms: if the vDSO function reads the same clock as the
\* system call, its reading lies between the two system-call readings.
Le(t, u) == t[1] < u[1] \/ (t[1] = u[1] /\ t[2] <= u[2])
TsOk(t) == t[1] >= 0 /\ t[2] >= 0 /\ t[2] < 1000000000
ClockOk3(c) == /\ Len(c) = 3 /\ \A i \in 1..3 : TsOk(c[i])
               /\ Le(c[1], c[2]) /\ Le(c[2], c[3])
ClockOk(r) == ClockOk3(r.mono) /\ ClockOk3(r.real)

\* ---- the REAL initial stack of the run (dumped by the launcher from the stopped process) read with
\* the definitional operators: argc/argv/envp/auxv words, pointers rewritten to indices of the dump
HasStack(r) == Len(r.st) > 0
StackOk(r) ==
    HasStack(r) =>
        LET envb == S!EnvBlock(r.st, r.heap)
            rnd == S!Aux(r.st, 25)
            fnp == S!Aux(r.st, 31)
        IN /\ S!Args(r.st, r.heap) = r.args_os
           /\ \A i \in 1..Len(r.look) : r.look[i].varu.k # "skipped" =>
                                              r.look[i].varu \in {AsRes(x) : x \in S!LookupAdmissible(envb, r.look[i].key)}
           /\ r.has_aux => /\ S!Aux(r.st, 11) = r.aux.uid /\ S!Aux(r.st, 13) = r.aux.gid
                           /\ rnd # 0 /\ SubSeq(r.heap, rnd, rnd + 15) = r.aux.random
                           /\ fnp # 0 /\ S!CStr(r.heap, fnp) = r.aux.execfn
\* /proc/<pid>/environ, cmdline and auxv describe the same picture (harness consistency)
StackHarnessOk(r) == HasStack(r) => /\ S!EnvBlock(r.st, r.heap) = r.kenv
                                    /\ S!Args(r.st, r.heap) = r.kargv
                                    /\ S!Aux(r.st, 11) = r.kaux.uid

\* ---- the probe's pointer tables (words that need a RELATIVE relocation in the PIE link modes):
\* "ro0".."ro7" (.data.rel.ro), "rw0".."rw7" (.data), "la0".."la3" (behind .bss: the last relocations)
ExpectedReloc == [i \in 1..20 |-> IF i <= 8 THEN <<114, 111, 47 + i>>
                                  ELSE IF i <= 16 THEN <<114, 119, 47 + i - 8>>
                                  ELSE <<108, 97, 47 + i - 16>>]
RelocOk(r) == r.reloc = ExpectedReloc

\* ---- the Iterator surface of args_os() / args(): scripts of calls on one iterator (ArgsIter.tla) --------
AI == INSTANCE ArgsIter
BadIters(r) == {j \in 1..Len(r.iters) : AI!FirstBad(r.kargv, r.iters[j].v, r.iters[j].script, r.iters[j].obs) # 0}

\* the harness did what it was asked to (not part of the verdict: a failure here is a tool error)
\* (an empty argument vector is replaced by [""] by kernels >= 5.18 and passed as it is by older ones)
HarnessOk(r) == /\ r.kargv = r.argv \/ (r.argv = <<>> /\ r.kargv = << <<>> >>)
                /\ r.kenv = r.env

Clauses(r) ==
    IF r.status # "exit0" THEN {"status"}
    ELSE (IF ArgsOk(r) THEN {} ELSE {"args"}) \cup (IF BadLook(r) = {} THEN {} ELSE {"lookup"})
         \cup (IF AuxOk(r) THEN {} ELSE {"aux"}) \cup (IF ClockOk(r) THEN {} ELSE {"clock"})
         \cup (IF StackOk(r) THEN {} ELSE {"stack"}) \cup (IF RelocOk(r) THEN {} ELSE {"reloc"})
         \cup (IF BadIters(r) = {} THEN {} ELSE {"iter"})
\* one pass: a verdict per record, then the rejected ones (SelectSeq) - linear in the trace
Verdict(i) == LET r == Rec[i]
                  ok == r.status = "exit0"
              IN [i |-> i, c |-> SetToSeq(Clauses(r)),
                  keys |-> IF ok THEN SetToSeq(BadLook(r)) ELSE <<>>,
                  iters |-> IF ok THEN [j \in 1..Cardinality(BadIters(r)) |->
                                          LET b == SetToSeq(BadIters(r))[j]
                                          IN <<b, AI!FirstBad(r.kargv, r.iters[b].v, r.iters[b].script, r.iters[b].obs)>>]
                            ELSE <<>>,
                  h |-> ~ok \/ (HarnessOk(r) /\ StackHarnessOk(r))]
All == [i \in 1..Len(Rec) |-> Verdict(i)]
ASSUME PrintT(<<"JUDGED", ToJson([n |-> Len(Rec),
                                  bad |-> SelectSeq(All, LAMBDA v : v.c # <<>>),
                                  harness |-> SelectSeq(All, LAMBDA v : ~v.h)])>>)
VARIABLE x
Init == x = 0
Next == UNCHANGED x
=============================================================================
