------------------------------ MODULE AllocGen ------------------------------
(* Generator (binding B1 for C03/C04): TLC enumerates, exhaustively up to a depth, the       *)
(* call histories / workloads that are replayed into the real allocator.  The allocator      *)
(* chooses addresses, so only the INPUT side of AllocAbs is enumerated here: which call,     *)
(* on which block, with which request class.  Request classes are symbolic (1..NAlloc for    *)
(* allocations: a triple (malloc|calloc, size, alignment); 1..NResize for realloc sizes);    *)
(* lib/checks/alloc_common.py binds them to sizes at the size-class boundaries of            *)
(* dlmalloc.rs.  Operating-system choices (placement of every mapping, refusal at every      *)
(* position) are multiplied in by the driver (harness/src/bin/alloc.rs: refuse_each).        *)
(*                                                                                           *)
(* Mode "hist": all call sequences of length Depth over                                      *)
(*    <<"a", slot, k>>  allocate class k into the lowest free slot (symmetry reduction)      *)
(*    <<"r", slot, k>>  reallocate the live block in slot to resize class k                  *)
(*    <<"f", slot>>     free the live block in slot                                          *)
(* Mode "work": all C04 workloads: a sequence (allocation order) of 1..Depth classes, to be  *)
(* freed in FIFO, LIFO or interleaved order (multiset x allocation order = all sequences).   *)
EXTENDS Integers, Sequences, TLC, Json

CONSTANTS Mode, Depth, NSlots, NAlloc, NResize

VARIABLES hist, occ
vars == <<hist, occ>>

Init == /\ hist = <<>>
        /\ occ = [s \in 1 .. NSlots |-> FALSE]

FreeSlots == {s \in 1 .. NSlots : ~occ[s]}
LowestFree == CHOOSE s \in FreeSlots : \A t \in FreeSlots : s <= t

Alloc(k) ==
    /\ FreeSlots # {}
    /\ hist' = Append(hist, <<"a", LowestFree, k>>)
    /\ occ' = [occ EXCEPT ![LowestFree] = TRUE]
Resize(s, k) ==
    /\ occ[s]
    /\ hist' = Append(hist, <<"r", s, k>>)
    /\ UNCHANGED occ
Release(s) ==
    /\ occ[s]
    /\ hist' = Append(hist, <<"f", s>>)
    /\ occ' = [occ EXCEPT ![s] = FALSE]
Pick(k) ==
    /\ hist' = Append(hist, k)
    /\ UNCHANGED occ

Next ==
    /\ Len(hist) < Depth
    /\ IF Mode = "hist"
       THEN \/ \E k \in 1 .. NAlloc : Alloc(k)
            \/ \E s \in 1 .. NSlots, k \in 1 .. NResize : Resize(s, k)
            \/ \E s \in 1 .. NSlots : Release(s)
       ELSE \E k \in 1 .. NAlloc : Pick(k)

Emit ==
    IF Mode = "hist"
    THEN Len(hist) = Depth => PrintT(<<"H", ToJson(hist)>>)
    ELSE Len(hist) >= 1 => PrintT(<<"W", ToJson(hist)>>)
=============================================================================
