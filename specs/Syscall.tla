------------------------------ MODULE Syscall ------------------------------
(* C09 - raw system-call wrappers of rusl.                                                  *)
(*                                                                                          *)
(* Property level.  A wrapper invocation is a little protocol between the wrapper and the   *)
(* kernel: the wrapper ISSUES the call, the kernel ANSWERS with a raw register value, the   *)
(* wrapper either re-issues or RETURNS a decoded result.  The property fixes                 *)
(*   - Decode: the answer is an error exactly when it lies in -4095..-1, the error carries   *)
(*     the positive errno; every other answer is a success carrying the value unchanged;     *)
(*   - the issue discipline: one issue per invocation, except dup2/dup3 which re-issue       *)
(*     exactly while the kernel answered -EBUSY.                                            *)
(*                                                                                          *)
(* Raw register values (64 bit) are represented by a class and a small integer, so that no  *)
(* 64-bit arithmetic is needed:                                                             *)
(*   <<"neg", n>>   the register holds 2^64 - n  (the signed value -n),  1 <= n < 2^31      *)
(*   <<"pos", n>>   the register holds n,                               0 <= n < 2^31      *)
(*   <<"big", s>>   any other value; s is its hexadecimal text, compared for equality only  *)
(* The recorder (lib/checks/c09.py: rep()) does this mapping from the decimal text of the    *)
(* forced / returned 64-bit values.                                                         *)
EXTENDS Integers, Sequences, FiniteSets

Neg(n) == <<"neg", n>>
Pos(n) == <<"pos", n>>
Big(s) == <<"big", s>>

EBUSY == 16
MaxErrno == 4095

IsErr(raw) == raw[1] = "neg" /\ raw[2] >= 1 /\ raw[2] <= MaxErrno

SameRaw(a, b) == a[1] = b[1] /\ a[2] = b[2]

\* The decoding every wrapper must implement.
Decode(raw) == IF IsErr(raw) THEN [tag |-> "err", code |-> raw[2]]
                             ELSE [tag |-> "ok", raw |-> raw]

(* ---------------------------------------------------------------------------------------- *)
(* Issue discipline.  retry = "none" | "ebusy".                                             *)
Retryable(retry, raw) == retry = "ebusy" /\ SameRaw(raw, Neg(EBUSY))

\* Given the kernel's successive answers, the index of the answer after which the wrapper
\* must return (0: it must still be issuing after the last listed answer).
StopAt(retry, raws) ==
    LET S == {i \in 1..Len(raws) : ~Retryable(retry, raws[i])}
    IN  IF S = {} THEN 0 ELSE CHOOSE i \in S : \A j \in S : i <= j

(* ---------------------------------------------------------------------------------------- *)
(* Result projections.  kind says what the wrapper's signature can carry on success:        *)
(*   unit     Result<()> or Result<struct filled in by the kernel> (no scalar to compare)    *)
(*   usize u64 i64   Result<64-bit scalar>: all 64 bits of the register                      *)
(*   i32      Result<i32 / Fd / PidT>: the register truncated to 32 bits, sign preserved      *)
(*   u32      Result<u32>                                                                    *)
(*   nofail   returns the scalar (i32) directly, the signature has no error channel          *)
(*   void     returns nothing that depends on the register                                   *)
(*   noreturn Result<()>, success never returns to the caller (execve): only errors judged   *)
(* Results as recorded:  [tag |-> "unit"], [tag |-> "val", v |-> raw], [tag |-> "err",       *)
(* code |-> int], [tag |-> "errnocode"] (an Err without errno), [tag |-> "none"] (void).     *)
ValueKinds == {"usize", "u64", "i64", "i32", "u32", "nofail"}
Kinds == ValueKinds \cup {"unit", "void", "noreturn"}

\* can the success type carry the value exactly?  (when not, the kernel's contract excludes
\* the value and the API leaves the outcome open: any Ok value is admitted)
Fits(kind, raw) ==
    CASE kind \in {"usize", "u64", "i64"} -> TRUE
      [] kind \in {"i32", "nofail"}       -> raw[1] \in {"pos", "neg"}
      [] kind = "u32"                     -> raw[1] = "pos"
      [] OTHER                            -> FALSE

Admits(kind, raw, res) ==
    IF IsErr(raw)
    THEN CASE kind \in {"nofail", "void"} -> TRUE    \* no error channel: left open by the API
           [] OTHER -> res.tag = "err" /\ res.code = raw[2]
    ELSE CASE kind = "noreturn" -> TRUE               \* success does not return
           [] kind = "void"     -> TRUE
           [] kind = "unit"     -> res.tag = "unit"
           [] kind \in ValueKinds ->
                  /\ res.tag = "val"
                  /\ Fits(kind, raw) => SameRaw(res.v, raw)

\* One recorded invocation: raws = the answers the kernel gave (forced), issues = how often
\* the wrapper issued the call, ended = "returned" | "limit" (still issuing when the re-issue
\* budget ran out) | "crashed" | "timeout".
\* The statement allows ("repeating only dup's documented EBUSY race") but does not oblige a
\* dup wrapper to re-issue after -EBUSY, so it may return after any answer all of whose
\* predecessors were -EBUSY; every other wrapper returns after the first answer.
MayStopAt(retry, raws, i) ==
    /\ i \in 1..Len(raws)
    /\ \A j \in 1..(i - 1) : Retryable(retry, raws[j])

Conforms(kind, retry, raws, issues, ended, res) ==
    IF ended = "returned"
    THEN /\ MayStopAt(retry, raws, issues)
         /\ Admits(kind, raws[issues], res)
    ELSE /\ ended = "limit"              \* still issuing: every answer so far was -EBUSY on a dup wrapper
         /\ \A j \in 1..Len(raws) : Retryable(retry, raws[j])

=============================================================================
