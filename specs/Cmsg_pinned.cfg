CONSTANTS
  MaxFds = 6
  MaxC = 64
  Variant = "pinned"
  Deltas = "layouts"
INIT Init
NEXT Next
INVARIANTS DeliveredExactly NoOutOfBuffer NeverPanics IterDeliversExactly
CHECK_DEADLOCK FALSE
