CONSTANTS
  W = 16
  NS = 4
  NC = 2
  JS = 3
  JC = 1
  DS = 2
  DC = 1
  CqEmptyLE = FALSE
  PlainSub = FALSE
  KSet <- KSetTLC
  Counters <- CountersTLC
  Rets <- RetsTLC
INIT Init
NEXT Next
INVARIANTS IndInv Props
CHECK_DEADLOCK FALSE
