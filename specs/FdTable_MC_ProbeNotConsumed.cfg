CONSTANTS Fds = {0, 1, 2}
SPECIFICATION Spec
INVARIANTS ProbeNotConsumed
CHECK_DEADLOCK FALSE
