----------------------------- MODULE SpawnFlow -----------------------------
(* C13, "standard streams": the DATA FLOW through the ends of `Stdio::MakePipe` after a       *)
(* successful spawn.  Nothing of tiny-std is in here: pipes as the kernel defines them        *)
(* (bounded buffer, holders of the read / write end, end-of-file only when no holder of the   *)
(* write end is left, EPIPE when no reader is left), `Stdio::Null` (reads give end-of-file,   *)
(* writes are discarded), the test program (copies its stdin to its stdout until end-of-file,  *)
(* one marker on stderr first, one last, then exits) and the caller's plan: a sequence over    *)
(*   "W"    write the whole payload to Child::stdin     "C"   drop Child::stdin                *)
(*   "RO"   read Child::stdout to end-of-file            "RE"  read Child::stderr to the end    *)
(*   "wait" Child::wait (closes Child::stdin first)                                            *)
(* What the property promises is exactly what this model computes when the only holders are    *)
(* the ones the API hands out (caller: Child::stdin/stdout/stderr; child: its descriptors      *)
(* 0/1/2): bytes arrive complete and in order, end-of-file arrives when the caller drops its   *)
(* end / the child exits, stdout and stderr are not crossed.  A plan can block for ever by      *)
(* itself (the caller waits before draining a full pipe, reads before it closes stdin ...):    *)
(* such a hang ANY pipe API has - the model says so (`hung`) and it is not a violation.        *)
(* A stray copy of an end (deviations below) changes the outcome: TLC exhibits the hang.       *)
(*   "ParentKeepsOutWrite"  the caller keeps a copy of the write end of the child's stdout     *)
(*   "ChildKeepsInWrite"    the write end of the child's stdin leaks into the child            *)
(* Sizes are scaled: capacity CAP = 2 units, payload 0 / 1 / 3 units stand for 0 / 1 /         *)
(* 65537 bytes against the kernel's 65536-byte pipe (one more than fits; less than two pipes). *)
EXTENDS Naturals, Sequences, FiniteSets, TLC

CONSTANTS CAP, Plans, Dev

VARIABLES plan,            \* [io, n, ops] chosen in Init
          i, tow,          \* caller: index of the running op, units still to write in a W
          inp, outp, errp, \* pipes [buf, w, r]  (w / r: holders of the write / read end)
          cs, carry, cgot, cerrs, cepipe,   \* child: state, unit in flight, units read, markers written, stdout broke
          res,             \* results of the caller's ops so far: seq of [op, res, n]
          got,             \* units the running RO / RE has read so far
          hung
vars == <<plan, i, tow, inp, outp, errp, cs, carry, cgot, cerrs, cepipe, res, got, hung>>

Init ==
    /\ plan \in Plans
    /\ i = 1
    /\ tow = plan.n
    \* stdin: caller writes, child reads;  stdout / stderr: child writes, caller reads
    /\ inp = [buf |-> 0, w |-> IF plan.io[1] = "pipe" THEN {"P"} \cup (IF "ChildKeepsInWrite" \in Dev THEN {"C"} ELSE {}) ELSE {},
              r |-> IF plan.io[1] = "pipe" THEN {"C"} ELSE {}]
    /\ outp = [buf |-> 0, w |-> IF plan.io[2] = "pipe" THEN {"C"} \cup (IF "ParentKeepsOutWrite" \in Dev THEN {"P2"} ELSE {}) ELSE {},
               r |-> IF plan.io[2] = "pipe" THEN {"P"} ELSE {}]
    /\ errp = [buf |-> 0, w |-> IF plan.io[3] = "pipe" THEN {"C"} ELSE {}, r |-> IF plan.io[3] = "pipe" THEN {"P"} ELSE {}]
    /\ cs = "start"
    /\ carry = 0
    /\ cgot = 0
    /\ cerrs = 0
    /\ cepipe = FALSE
    /\ res = << >>
    /\ got = 0
    /\ hung = FALSE

Done == i > Len(plan.ops)
Op == plan.ops[i]
Finish(r, n) == /\ res' = Append(res, [op |-> Op, res |-> r, n |-> n])
                /\ i' = i + 1
                /\ got' = 0

(* ---- the child: the copy program ------------------------------------------------------------ *)
\* a marker on stderr: one unit; discarded on /dev/null; never blocks (two markers, CAP >= 2)
ChildMarker(next) ==
    /\ errp' = IF plan.io[3] = "pipe" /\ errp.r # {} THEN [errp EXCEPT !.buf = @ + 1] ELSE errp
    /\ cerrs' = cerrs + 1
    /\ cs' = next
ChildStart ==
    /\ cs = "start"
    /\ ChildMarker("copy")
    /\ UNCHANGED <<plan, i, tow, inp, outp, carry, cgot, cepipe, res, got, hung>>
ChildRead ==
    /\ cs = "copy" /\ carry = 0
    /\ IF plan.io[1] # "pipe"
       THEN /\ cs' = "last"                               \* /dev/null (or nothing): end-of-file at once
            /\ UNCHANGED <<inp, carry, cgot>>
       ELSE IF inp.buf > 0
       THEN /\ inp' = [inp EXCEPT !.buf = @ - 1]
            /\ carry' = 1
            /\ cgot' = cgot + 1
            /\ UNCHANGED cs
       ELSE /\ inp.w = {}                                  \* end-of-file only when nobody can write any more
            /\ cs' = "last"
            /\ UNCHANGED <<inp, carry, cgot>>
    /\ UNCHANGED <<plan, i, tow, outp, errp, cerrs, cepipe, res, got, hung>>
ChildWrite ==
    /\ cs = "copy" /\ carry = 1
    /\ IF plan.io[2] # "pipe" \/ cepipe
       THEN /\ carry' = 0                                  \* discarded
            /\ UNCHANGED <<outp, cepipe>>
       ELSE IF outp.r = {}
       THEN /\ carry' = 0                                  \* EPIPE: the program stops writing, goes on reading
            /\ cepipe' = TRUE
            /\ UNCHANGED outp
       ELSE /\ outp.buf < CAP                               \* blocks while the pipe is full
            /\ outp' = [outp EXCEPT !.buf = @ + 1]
            /\ carry' = 0
            /\ UNCHANGED cepipe
    /\ UNCHANGED <<plan, i, tow, inp, errp, cs, cgot, cerrs, res, got, hung>>
ChildLast ==
    /\ cs = "last"
    /\ ChildMarker("exit")
    /\ UNCHANGED <<plan, i, tow, inp, outp, carry, cgot, cepipe, res, got, hung>>
ChildExit ==
    /\ cs = "exit"
    /\ cs' = "exited"
    /\ inp' = [inp EXCEPT !.w = @ \ {"C"}, !.r = @ \ {"C"}]
    /\ outp' = [outp EXCEPT !.w = @ \ {"C"}]
    /\ errp' = [errp EXCEPT !.w = @ \ {"C"}]
    /\ UNCHANGED <<plan, i, tow, carry, cgot, cerrs, cepipe, res, got, hung>>

(* ---- the caller's plan ------------------------------------------------------------------------- *)
CallerWrite ==
    /\ ~Done /\ Op = "W"
    /\ IF "P" \notin inp.w
       THEN Finish("nopipe", 0) /\ UNCHANGED <<inp, tow>>       \* no Child::stdin (not a pipe / already dropped)
       ELSE IF tow = 0
       THEN Finish("ok", plan.n) /\ UNCHANGED <<inp, tow>>
       ELSE IF inp.r = {}
       THEN Finish("err", plan.n - tow) /\ UNCHANGED <<inp, tow>>    \* EPIPE
       ELSE /\ inp.buf < CAP
            /\ inp' = [inp EXCEPT !.buf = @ + 1]
            /\ tow' = tow - 1
            /\ UNCHANGED <<res, i, got>>
    /\ UNCHANGED <<plan, outp, errp, cs, carry, cgot, cerrs, cepipe, hung>>
CallerClose ==
    /\ ~Done /\ Op = "C"
    /\ inp' = [inp EXCEPT !.w = @ \ {"P"}]
    /\ Finish("ok", 0)
    /\ UNCHANGED <<plan, tow, outp, errp, cs, carry, cgot, cerrs, cepipe, hung>>
ReadFrom(p, isOut) ==
    IF "P" \notin p.r
    THEN Finish("nopipe", 0) /\ UNCHANGED <<outp, errp>>
    ELSE IF p.buf > 0
    THEN /\ (IF isOut THEN outp' = [outp EXCEPT !.buf = @ - 1] /\ UNCHANGED errp
                       ELSE errp' = [errp EXCEPT !.buf = @ - 1] /\ UNCHANGED outp)
         /\ got' = got + 1
         /\ UNCHANGED <<res, i>>
    ELSE /\ p.w = {}                                         \* end-of-file only when no write end is left anywhere
         /\ Finish("eof", got)
         /\ UNCHANGED <<outp, errp>>
CallerReadOut ==
    /\ ~Done /\ Op = "RO"
    /\ ReadFrom(outp, TRUE)
    /\ UNCHANGED <<plan, tow, inp, cs, carry, cgot, cerrs, cepipe, hung>>
CallerReadErr ==
    /\ ~Done /\ Op = "RE"
    /\ ReadFrom(errp, FALSE)
    /\ UNCHANGED <<plan, tow, inp, cs, carry, cgot, cerrs, cepipe, hung>>
\* Child::wait: drop(self.stdin.take()), then block until the child is gone
CallerWait ==
    /\ ~Done /\ Op = "wait"
    /\ IF "P" \in inp.w
       THEN /\ inp' = [inp EXCEPT !.w = @ \ {"P"}]
            /\ UNCHANGED <<res, i, got>>
       ELSE /\ cs = "exited"
            /\ Finish("ok", 0)
            /\ UNCHANGED inp
    /\ UNCHANGED <<plan, tow, outp, errp, cs, carry, cgot, cerrs, cepipe, hung>>
\* the caller is done with the Child: dropping it closes the ends it still owns
CallerDrop ==
    /\ Done
    /\ ("P" \in inp.w \/ "P" \in outp.r \/ "P" \in errp.r)
    /\ inp' = [inp EXCEPT !.w = @ \ {"P"}]
    /\ outp' = [outp EXCEPT !.r = @ \ {"P"}]
    /\ errp' = [errp EXCEPT !.r = @ \ {"P"}]
    /\ UNCHANGED <<plan, i, tow, cs, carry, cgot, cerrs, cepipe, res, got, hung>>

Progress == \/ ChildStart \/ ChildRead \/ ChildWrite \/ ChildLast \/ ChildExit
            \/ CallerWrite \/ CallerClose \/ CallerReadOut \/ CallerReadErr \/ CallerWait \/ CallerDrop
\* the caller sits in an op that can never complete
Hang == /\ ~hung /\ ~Done /\ ~ENABLED Progress
        /\ hung' = TRUE
        /\ UNCHANGED <<plan, i, tow, inp, outp, errp, cs, carry, cgot, cerrs, cepipe, res, got>>
Finished == hung \/ (Done /\ cs = "exited" /\ ~ENABLED CallerDrop)
Next == Progress \/ Hang \/ (Finished /\ UNCHANGED vars)
Spec == Init /\ [][Next]_vars

(* ---- what must hold when nobody holds a stray end (Dev = {}) ---------------------------------- *)
ResOf(op) == {res[k] : k \in {k \in DOMAIN res : res[k].op = op}}
\* everything the caller managed to write reached the child, everything the child wrote to its
\* stdout reached the caller's read-to-the-end, in full; both markers reached the stderr reader
Delivered ==
    (Finished /\ ~hung) =>
        /\ \A r \in ResOf("W") : r.res = "ok" => r.n = plan.n
        /\ \A r \in ResOf("RO") : r.res = "eof" => r.n \in {0, cgot}
        /\ \A r \in ResOf("RE") : r.res = "eof" => r.n \in {0, 2}
\* a caller that closes stdin (or waits) before it reads to the end, and reads stdout before it waits
\* whenever the payload does not fit, never hangs: hangs are the plan's own doing
SanePlan(p) ==
    LET pos(x) == IF \E k \in DOMAIN p.ops : p.ops[k] = x THEN CHOOSE k \in DOMAIN p.ops : p.ops[k] = x ELSE 99
        closes == IF pos("C") < pos("wait") THEN pos("C") ELSE pos("wait")
    IN  /\ (p.io[1] = "pipe" => (pos("RO") = 99 \/ closes < pos("RO")) /\ (pos("RE") = 99 \/ closes < pos("RE")))
        /\ (p.io[1] = "pipe" /\ p.io[2] = "pipe" /\ p.n > CAP /\ pos("W") # 99 =>
                pos("RO") < pos("wait") /\ pos("RO") < pos("RE") /\ pos("W") < pos("C"))
        /\ (p.io[1] = "pipe" /\ p.n > CAP /\ p.io[2] = "pipe" => pos("W") = 99 \/ p.n <= 2 * CAP)
        /\ (pos("W") = 99 \/ pos("W") < closes \/ p.io[1] # "pipe")
SaneNeverHangs == SanePlan(plan) => ~hung
=============================================================================
