------------------------------ MODULE AllocAbs ------------------------------
(* Property-level specification of a memory allocator sitting on an mmap-like operating     *)
(* system layer (C03, C04 of properties.jsonl; tiny-std/src/allocator/dlmalloc.rs).          *)
(*                                                                                          *)
(* Nothing here knows about chunks, bins or segments: any correct allocator, however        *)
(* refactored, satisfies this module.  Verdicts on the implementation are taken against the *)
(* INVARIANTS of this module only (AllocTrace.tla evaluates them on every step of a         *)
(* recorded execution of the real code).                                                    *)
(*                                                                                          *)
(* Units: every address and size is a byte count.  Addresses are offsets into the arena the *)
(* simulated operating system hands memory out of (0 .. Arena-1; the real run uses a 1 GiB  *)
(* arena so every number stays below 2^31).  The bounded model uses a 16-byte arena.        *)
(*                                                                                          *)
(* A call of the allocator is Begin(op, ...) ; operating-system steps ; Ret(result).        *)
(* The module has two layers:                                                               *)
(*   - effects (XEff): what an observed step does to the abstract state, unguarded; they    *)
(*     also record what was observed about the step in `obs`;                               *)
(*   - the design (Next): the effects guarded by what a correct allocator may do            *)
(*     (place a block at ANY aligned, mapped, unoccupied address; answer null only after a  *)
(*     refusal of the OS during this call or for an unsatisfiable request; give back to the *)
(*     OS only memory that is mapped and holds no live block; ask the OS for memory only    *)
(*     when the request does not fit into the free space it already holds ...).             *)
(* TLC checks on small constants that the design preserves every invariant (AllocAbs_MC03, 04). *)
EXTENDS Integers, Sequences, FiniteSets, FiniteSetsExt

CONSTANTS
    Arena,      \* size of the simulated address space in bytes
    Huge,       \* a request of >= Huge bytes may be answered null without any OS refusal
    Gran,       \* granularity of the allocator's OS requests (64 KiB in the code); unit of C04 bounds
    Slack,      \* book-keeping bytes a free extent may lose (headers, fences, segment record)
    DirectMap,  \* requests of >= DirectMap bytes may be served by a dedicated OS mapping (dlmalloc's
                \* mmap threshold: such a block is handed back to the OS when it is freed); they are
                \* not judged by NoGratuitousMap - Envelope and SteadyState still bound them
    EnvK, EnvC, \* envelope: footprint <= EnvK * peak padded demand + EnvC
    HoleCap,    \* how many holes (extents of freed blocks) the reuse rule remembers (0: rule off)
    \* ---- only used by the bounded design (Next), not by the trace specification ----
    Ids,        \* block identities
    Sizes,      \* request sizes
    Aligns,     \* request alignments
    MapSizes,   \* sizes the model allocator asks the OS for
    Page,       \* OS page: unmap/remap boundaries are multiples of it
    MaxOs,      \* OS requests per call
    MaxReps,    \* repetition marks per behaviour
    Base0,      \* initial number of baseline repetitions
    TrackC04,   \* BOOLEAN: maintain peak/reps (C04 observation); FALSE keeps the C03 model small
    Disciplined \* BOOLEAN: the model allocator obeys the C04 discipline (FALSE = anti-vacuity probe)

VARIABLES
    mapped,   \* set of disjoint, non-adjacent intervals [lo, hi): memory held from the OS
    pieces,   \* the same memory as granted by the OS, request by request (never merged)
    live,     \* set of live blocks [id, addr, size, align]
    call,     \* the allocator call in progress (NoCall between calls)
    holes,    \* C04: extents [addr, size] of freed blocks with the live blocks that were near them (nbrs)
    plive,    \* C04: padded demand of the live blocks (sum of Pad over live)
    peak,     \* C04: peak padded demand so far
    reps,     \* C04: per repetition [mark |-> footprint at its end (all blocks freed),
              \*      high |-> largest footprint during it]
    hw,       \* C04: largest footprint since the last repetition mark
    base,     \* C04: number of leading repetitions that form the steady-state baseline
    obs       \* what was observed about the last step (flags logged by the recorder)

vars == <<mapped, pieces, live, call, holes, plive, peak, reps, hw, base, obs>>

-----------------------------------------------------------------------------
(* intervals *)
Iv(lo, hi) == [lo |-> lo, hi |-> hi]
Width(v) == v.hi - v.lo
Overlaps(a, b) == a.lo < b.hi /\ b.lo < a.hi
Inside(a, b) == b.lo <= a.lo /\ a.hi <= b.hi
Min2(a, b) == IF a < b THEN a ELSE b
Max2(a, b) == IF a > b THEN a ELSE b
MaxOf(S) == CHOOSE x \in S : \A y \in S : y <= x
MinOf(S) == CHOOSE x \in S : \A y \in S : x <= y

\* M is kept normalised: disjoint and non-adjacent intervals
AddIv(M, v) ==
    LET L == {m \in M : m.hi = v.lo}
        R == {m \in M : m.lo = v.hi}
        lo == IF L = {} THEN v.lo ELSE (CHOOSE m \in L : TRUE).lo
        hi == IF R = {} THEN v.hi ELSE (CHOOSE m \in R : TRUE).hi
    IN  (M \ (L \cup R)) \cup {Iv(lo, hi)}
\* works for any set of disjoint intervals
SubIv(M, v) ==
    UNION { {x \in {Iv(m.lo, Min2(m.hi, v.lo)), Iv(Max2(m.lo, v.hi), m.hi)} : x.lo < x.hi} : m \in M }
Covered(M, v) == \E m \in M : Inside(v, m)
Free(M, v) == \A m \in M : ~Overlaps(m, v)

\* (FoldSet, not a RECURSIVE operator: TLC passes operator arguments unevaluated, a recursive
\* sum over a set re-evaluates its argument chain and is exponential beyond ~25 elements)
SumWidth(M) == FoldSet(LAMBDA m, acc : acc + Width(m), 0, M)
Footprint == SumWidth(mapped)

-----------------------------------------------------------------------------
(* blocks, calls *)
BlockIv(b) == Iv(b.addr, b.addr + b.size)
Blk(id) == CHOOSE b \in live : b.id = id
IsLive(id) == \E b \in live : b.id = id

NoCall == [op |-> "none", id |-> 0, size |-> 0, align |-> 1, refused |-> FALSE, nos |-> 0, before |-> {}]
AllocOps == {"malloc", "calloc"}
\* the block a call may dispose of: its memory need not stay accessible during the call
Subject == IF call.op \in {"free", "realloc"} THEN {b \in live : b.id = call.id} ELSE {}

\* demand of one block for the C04 envelope: what a granular allocator may map for it alone
Pad(size, align) == size + 2 * align + Slack + Gran
SumPad(B) == FoldSet(LAMBDA b, acc : acc + Pad(b.size, b.align), 0, B)

\* free space the allocator already holds: the largest extent without live block inside one
\* OS-granted piece (an allocator need not merge separately granted pieces)
GapFrom(p, s) ==
    LET ends == {p.hi} \cup {Max2(b.addr, s) : b \in {c \in live : c.addr + c.size > s /\ c.addr < p.hi}}
    IN  MinOf(ends) - s
MaxGap(p) ==
    LET starts == {p.lo} \cup {b.addr + b.size : b \in {c \in live : c.addr + c.size > p.lo /\ c.addr + c.size < p.hi}}
    IN  MaxOf({GapFrom(p, s) : s \in starts})
\* bytes a request needs in one extent, generously: alignment waste and book-keeping included
Need(size, align) == size + 2 * align + Slack
Fits(size, align) == \E p \in pieces : MaxGap(p) >= Need(size, align)
\* The exact case of "freed space is reused": the extent a freed block occupied, as long as nothing
\* has been placed within HoleGuard bytes of it and none of it went back to the OS, still holds a
\* request of at most that size - no slack needed: whatever the allocator needed around the old
\* block (header, padding) is still unused as well.  Only for requests of the alignment every block
\* gets anyway (an over-aligned request needs room to slide).
BaseAlign == 16
HoleGuard == 256
HoleWindow(h) == Iv(h.addr - HoleGuard, h.addr + h.size + HoleGuard)
\* a hole stays usable as long as every live block near it is one that was already there, unchanged,
\* when the hole's block was freed (h.nbrs): blocks placed into the hole and freed again give the space
\* back (the allocator coalesces), a block that is still there or a neighbour that grew does not
FitsHole(size, align) ==
    /\ align <= BaseAlign
    /\ \E h \in holes : /\ h.size >= size
                        /\ {b \in live : Overlaps(BlockIv(b), HoleWindow(h))} \subseteq h.nbrs
\* an OS request made by the call in progress although its request fits into held free space
Gratuitous == /\ call.op \in AllocOps \cup {"realloc"}
              /\ call.size < DirectMap
              /\ (Fits(call.size, call.align) \/ FitsHole(call.size, call.align))

-----------------------------------------------------------------------------
(* observation record *)
Obs0 == [ev |-> "init", mapok |-> TRUE, covered |-> TRUE, hitlive |-> FALSE, gratuitous |-> FALSE,
         null |-> FALSE, justified |-> TRUE, content |-> TRUE, zero |-> TRUE, prefix |-> TRUE,
         placed |-> {}, before |-> {}]

Init ==
    /\ mapped = {}
    /\ pieces = {}
    /\ live = {}
    /\ call = NoCall
    /\ holes = {}
    /\ plive = 0
    /\ peak = 0
    /\ reps = <<>>
    /\ hw = 0
    /\ base = Base0
    /\ obs = Obs0

-----------------------------------------------------------------------------
(* effects: what an observed step does, unguarded *)

BeginEff(op, id, size, align) ==
    /\ call' = [op |-> op, id |-> id, size |-> size, align |-> align, refused |-> FALSE, nos |-> 0,
                before |-> live]
    \* demand counts from the moment it is requested, whether or not the call succeeds
    /\ peak' = IF TrackC04 /\ op \in AllocOps \cup {"realloc"}
               THEN Max2(peak, plive - SumPad({b \in live : b.id = id}) + Pad(size, align))
               ELSE peak
    /\ obs' = [Obs0 EXCEPT !.ev = "begin"]
    /\ UNCHANGED <<mapped, pieces, live, holes, plive, reps, hw, base>>

\* the OS grants [lo, lo+size)
MapEff(lo, size) ==
    /\ obs' = [Obs0 EXCEPT !.ev = "map", !.gratuitous = Gratuitous,
                           !.covered = Free(mapped, Iv(lo, lo + size))]
    /\ mapped' = AddIv(SubIv(mapped, Iv(lo, lo + size)), Iv(lo, lo + size))
    /\ pieces' = SubIv(pieces, Iv(lo, lo + size)) \cup {Iv(lo, lo + size)}
    /\ call' = [call EXCEPT !.nos = @ + 1]
    /\ hw' = IF TrackC04 THEN Max2(hw, SumWidth(AddIv(SubIv(mapped, Iv(lo, lo + size)), Iv(lo, lo + size)))) ELSE hw
    /\ UNCHANGED <<live, holes, plive, peak, reps, base>>

\* the OS refuses a request for more memory
RefuseEff ==
    /\ obs' = [Obs0 EXCEPT !.ev = "refuse", !.gratuitous = Gratuitous]
    /\ call' = [call EXCEPT !.refused = TRUE, !.nos = @ + 1]
    /\ UNCHANGED <<mapped, pieces, live, holes, plive, peak, reps, hw, base>>

\* [lo, hi) is handed back to the OS
UnmapEff(lo, hi) ==
    /\ obs' = [Obs0 EXCEPT !.ev = "unmap",
                           !.covered = Covered(mapped, Iv(lo, hi)),
                           !.hitlive = \E b \in live \ Subject : Overlaps(BlockIv(b), Iv(lo, hi))]
    /\ mapped' = SubIv(mapped, Iv(lo, hi))
    /\ pieces' = SubIv(pieces, Iv(lo, hi))
    /\ call' = [call EXCEPT !.nos = @ + 1]
    /\ holes' = {h \in holes : ~Overlaps(HoleWindow(h), Iv(lo, hi))}
    /\ UNCHANGED <<live, plive, peak, reps, hw, base>>

\* mremap in place: shrinking gives the tail back, growing maps the extension
RemapEff(lo, old, new) ==
    IF new <= old THEN UnmapEff(lo + new, lo + old) ELSE MapEff(lo + old, new - old)

\* a call returns.  addr = -1 is the null pointer; content/zero/prefix are the recorder's flags:
\* all other live blocks still hold their owner's bytes / a zeroed allocation is all zero / the
\* common prefix of a reallocated block survived.
RetEff(addr, content, zero, prefix) ==
    LET null == addr < 0
        old  == {b \in live : b.id = call.id}
        new  == CASE call.op \in AllocOps -> {[id |-> call.id, addr |-> addr, size |-> call.size, align |-> call.align]}
                  [] call.op = "realloc"  -> {[b EXCEPT !.addr = addr, !.size = call.size] : b \in old}
                  [] OTHER                -> {}
    IN  /\ live' = IF call.op = "free" THEN live \ old
                   ELSE IF null THEN live
                   ELSE (live \ old) \cup new
        /\ obs' = [Obs0 EXCEPT !.ev = "ret", !.null = (null /\ call.op # "free"),
                               !.justified = (call.refused \/ call.size >= Huge),
                               !.content = content, !.zero = zero, !.prefix = prefix,
                               \* the block the call leaves behind (a failed realloc: the old one)
                               !.placed = IF call.op = "free" THEN {} ELSE IF null THEN old ELSE new,
                               !.before = call.before]
        /\ plive' = IF ~TrackC04 THEN plive
                    ELSE IF call.op = "free" THEN plive - SumPad(old)
                    ELSE IF null THEN plive
                    ELSE plive - SumPad(old) + SumPad(new)
        /\ holes' = LET kept == holes
                          \* (not when the free itself handed memory back to the OS: what is left around
                          \* the extent may then be too little - found by TLC on DlHeapMC: block freed into
                          \* top, top trimmed below the old chunk's size)
                          add  == IF call.op = "free" /\ HoleCap > 0 /\ call.nos = 0
                                  THEN {[addr |-> b.addr, size |-> b.size,
                                         nbrs |-> {c \in live \ old : Overlaps(BlockIv(c), HoleWindow(b))}] : b \in old}
                                  ELSE {}
                      IN  IF Cardinality(kept \cup add) > HoleCap THEN add ELSE kept \cup add
        /\ call' = NoCall
        /\ UNCHANGED <<mapped, pieces, peak, reps, hw, base>>

\* how the OS sees the memory that holds a live block (runs on the real OS): private to the process,
\* anonymous, readable and writable - otherwise somebody else (a forked child, a file) can change a
\* block's bytes behind its owner's back
MapInfoEff(private, anon, rw) ==
    /\ obs' = [Obs0 EXCEPT !.ev = "mapinfo", !.mapok = (private /\ anon /\ rw)]
    /\ UNCHANGED <<mapped, pieces, live, call, holes, plive, peak, reps, hw, base>>

\* the workload driver marks the end of a repetition (everything freed)
\* (RepEffAt: the footprint as measured from outside - the process' address-space size in runs
\* on the real OS, where `mapped` is not observed)
RepEffAt(mark, high) ==
    /\ reps' = Append(reps, [mark |-> mark, high |-> Max2(high, mark)])
    /\ hw' = mark
    /\ obs' = [Obs0 EXCEPT !.ev = "rep"]
    /\ UNCHANGED <<mapped, pieces, live, call, holes, plive, peak, base>>
RepEff == RepEffAt(Footprint, hw)

-----------------------------------------------------------------------------
(* INVARIANTS - the properties.  Each is a state predicate over the abstract state and the   *)
(* observation of the last step.                                                             *)

BlockT == [id : Ids, addr : 0 .. Arena - 1, size : Nat, align : Nat]
TypeOK ==
    /\ \A m \in mapped \cup pieces : m.lo \in 0 .. Arena /\ m.hi \in 0 .. Arena /\ m.lo < m.hi
    /\ \A a, b \in mapped : a # b => ~Overlaps(a, b) /\ a.hi # b.lo
    /\ \A a, b \in pieces : a # b => ~Overlaps(a, b)
    /\ \A p \in pieces : Covered(mapped, p)
    /\ SumWidth(pieces) = Footprint
    /\ \A b, c \in live : b.id = c.id => b = c
    /\ peak \in Nat /\ base \in Nat
    /\ TrackC04 => plive = SumPad(live) /\ plive <= peak

(* ---- C03 ---- *)
\* every live block starts at a multiple of its requested alignment
Aligned == \A b \in live : b.addr % b.align = 0
\* no two live blocks share a byte
Disjoint == \A b, c \in live : b.id # c.id => ~Overlaps(BlockIv(b), BlockIv(c))
\* every live block lies in memory currently held from the OS, and nothing handed back to the
\* OS intersected a live block
\* (the block a free/realloc in progress disposes of is exempt until the call returns)
Accessible == /\ \A b \in live \ Subject : Covered(mapped, BlockIv(b))
              /\ ~obs.hitlive
\* bytes change only through the owner; zeroed allocations are zero; realloc keeps the prefix
Intact == obs.content /\ obs.zero /\ obs.prefix
\* ... which includes other processes: the allocator's memory is private anonymous memory
PrivateAnonymous == obs.mapok
\* null only after an OS refusal during the call (or for an unsatisfiable request) ...
NullJustified == obs.null => obs.justified
\* ... and then nothing is lost: the set of live blocks is what it was before the call
OomClean == obs.null => live = obs.before

\* the same, restricted to what the last step touched (equivalent by induction; this is what
\* the trace specification evaluates on long histories, the full versions at the end of a run)
AlignedStep == \A b \in obs.placed : b.addr % b.align = 0
DisjointStep == \A b \in obs.placed : \A c \in live : b.id # c.id => ~Overlaps(BlockIv(b), BlockIv(c))
AccessibleStep == /\ \A b \in obs.placed : Covered(mapped, BlockIv(b))
                  /\ ~obs.hitlive

(* ---- C04 ---- *)
\* what is handed back to the OS was held, and is not handed back twice; what the OS grants
\* was not held before (sanity of the OS side)
ReleaseOnce == obs.covered
\* no OS request while the padded request fits into free space already held: freed space is reused
NoGratuitousMap == ~obs.gratuitous
\* repeating a workload does not make the mapped heap keep growing: what is still held at the
\* end of a repetition after the baseline repetitions stays within one granularity of the most
\* that was ever held during the baseline repetitions
BaseHigh == MaxOf({0} \cup {reps[i].high : i \in 1 .. Min2(base, Len(reps))})
SteadyState == \A i \in 1 .. Len(reps) : i > base => reps[i].mark <= BaseHigh + Gran
SteadyStateStep == obs.ev = "rep" /\ Len(reps) > base => reps[Len(reps)].mark <= BaseHigh + Gran
\* the exact form, for workloads whose behaviour is periodic (the same calls under a fixed OS placement
\* policy, e.g. allocate one big block / free it, thousands of times): what is held at a repetition mark
\* after the baseline never exceeds what was held at a mark of the baseline - no tolerance, so a heap
\* that creeps by a few bytes per repetition shows as soon as it crosses one more page
BaseMark == MaxOf({0} \cup {reps[i].mark : i \in 1 .. Min2(base, Len(reps))})
MarksSteady == \A i \in 1 .. Len(reps) : i > base => reps[i].mark <= BaseMark
MarksSteadyStep == obs.ev = "rep" /\ Len(reps) > base => reps[Len(reps)].mark <= BaseMark
\* memory held is bounded by peak demand (loose: trim threshold, granularity, segment overhead)
Envelope == call = NoCall => Footprint <= EnvK * peak + EnvC

-----------------------------------------------------------------------------
(* the design: guarded effects of a correct allocator over a nondeterministic OS *)

Quiet == call = NoCall

BeginMalloc(op, id, size, align) ==
    /\ Quiet /\ ~IsLive(id)
    /\ BeginEff(op, id, size, align)
BeginRealloc(id, size) ==
    /\ Quiet /\ IsLive(id)
    /\ BeginEff("realloc", id, size, Blk(id).align)
BeginFree(id) ==
    /\ Quiet /\ IsLive(id)
    /\ BeginEff("free", id, 0, 1)

\* C04 discipline of the model allocator: ask the OS only when needed and within the envelope
MayAsk(size) ==
    Disciplined =>
        /\ ~Gratuitous
        /\ Footprint + size <= EnvK * peak + EnvC
        /\ (Len(reps) >= base => Footprint + size <= BaseHigh + Gran)

OsMap(lo, size) ==
    /\ ~Quiet /\ call.nos < MaxOs
    /\ call.op # "free"
    /\ lo + size <= Arena
    /\ Free(mapped, Iv(lo, lo + size))
    /\ MayAsk(size)
    /\ MapEff(lo, size)

OsRefuse ==
    /\ ~Quiet /\ call.nos < MaxOs
    /\ call.op # "free"
    /\ MayAsk(0)
    /\ RefuseEff

\* give back any page-aligned part of one mapped interval that holds no live block
OsUnmap(lo, hi) ==
    /\ ~Quiet /\ call.nos < MaxOs
    /\ lo < hi /\ lo % Page = 0 /\ hi % Page = 0
    /\ Covered(mapped, Iv(lo, hi))
    /\ \A b \in live \ Subject : ~Overlaps(BlockIv(b), Iv(lo, hi))
    /\ UnmapEff(lo, hi)

\* resize one granted piece in place
OsRemap(p, new) ==
    /\ ~Quiet /\ call.nos < MaxOs
    /\ new > 0 /\ new % Page = 0 /\ new # Width(p)
    /\ IF new < Width(p)
       THEN \A b \in live \ Subject : ~Overlaps(BlockIv(b), Iv(p.lo + new, p.hi))
       ELSE /\ call.op # "free"
            /\ p.lo + new <= Arena
            /\ Free(mapped, Iv(p.hi, p.lo + new))
            /\ MayAsk(new - Width(p))
    /\ RemapEff(p.lo, Width(p), new)

\* a block may be placed at ANY aligned address whose bytes are mapped and unoccupied
Placeable(addr, size, align, others) ==
    /\ addr % align = 0
    /\ Covered(mapped, Iv(addr, addr + size))
    /\ \A c \in others : ~Overlaps(BlockIv(c), Iv(addr, addr + size))

RetPlaced(addr) ==
    /\ call.op \in AllocOps \cup {"realloc"}
    /\ addr \in 0 .. Arena - 1
    /\ Placeable(addr, call.size, call.align, {c \in live : c.id # call.id})
    /\ RetEff(addr, TRUE, TRUE, TRUE)

RetNull ==
    /\ call.op \in AllocOps \cup {"realloc"}
    /\ call.refused \/ call.size >= Huge
    \* the block a failed realloc leaves behind must still be there
    /\ \A b \in Subject : Covered(mapped, BlockIv(b))
    /\ RetEff(-1, TRUE, TRUE, TRUE)

RetFree ==
    /\ call.op = "free"
    /\ RetEff(-1, TRUE, TRUE, TRUE)

RepMark ==
    /\ TrackC04 /\ Quiet /\ live = {} /\ Len(reps) < MaxReps
    /\ obs.ev # "rep"
    /\ RepEff

DoBeginMalloc == \E op \in AllocOps, id \in Ids, s \in Sizes, a \in Aligns : BeginMalloc(op, id, s, a)
DoBeginRealloc == \E id \in Ids, s \in Sizes : BeginRealloc(id, s)
DoBeginFree == \E id \in Ids : BeginFree(id)
DoOsMap == \E lo \in {x \in 0 .. Arena - 1 : x % Page = 0}, s \in MapSizes : OsMap(lo, s)
DoOsUnmap == \E lo \in 0 .. Arena - 1, hi \in 1 .. Arena : OsUnmap(lo, hi)
DoOsRemap == \E p \in pieces, new \in MapSizes : OsRemap(p, new)
DoRetPlaced == \E addr \in 0 .. Arena - 1 : RetPlaced(addr)

Next ==
    \/ DoBeginMalloc
    \/ DoBeginRealloc
    \/ DoBeginFree
    \/ DoOsMap
    \/ OsRefuse
    \/ DoOsUnmap
    \/ DoOsRemap
    \/ DoRetPlaced
    \/ RetNull
    \/ RetFree
    \/ RepMark

Spec == Init /\ [][Next]_vars

\* reachability probes (anti-vacuity): TLC must find each of these states (checked as
\* invariants that are expected to be violated)
NeverNull == ~obs.null
NeverTwoLive == Cardinality(live) < 2
NeverUnmapDuringFree == ~(obs.ev = "unmap" /\ call.op = "free")
NeverSecondRep == Len(reps) < 2
=============================================================================
