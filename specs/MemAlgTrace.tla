---------------------------- MODULE MemAlgTrace ----------------------------
(* C08 - conformance of the transcription MemAlg.tla with the real code, step by step.       *)
(* tools/stepstores single-steps the real memcpy/memmove/memset calls of the (debug) probe   *)
(* and logs every store into the arena as <<offset, length>>.  For each recorded call TLC    *)
(* runs the transcription on the same call (real constants WORD = 8, THRESHOLD = 16, the     *)
(* probe's 208-cell arena) and requires that every memory-changing step of the model is the  *)
(* next recorded store, and that no recorded store is left over.                             *)
(* A divergence means the code is no longer the algorithm that was model-checked (model      *)
(* drift) - it is reported in the evidence, it is never a verdict on the property.           *)
EXTENDS MemAlg, Json, IOUtils, SequencesExt, FiniteSetsExt
Rec == ndJsonDeserialize(IOEnv.TRACE)
VARIABLES k, pos, verdict
tvars == <<vars, k, pos, verdict>>

InitT ==
    /\ k \in 1..Len(Rec)
    /\ fn = Rec[k].f /\ n0 = Rec[k].n /\ d0 = Rec[k].d
    /\ s0 = (IF Rec[k].f = "memset" THEN 0 ELSE Rec[k].s)
    /\ c0 = (IF Rec[k].f = "memset" THEN Rec[k].c ELSE 0)
    /\ mem = M0
    /\ pc = "entry" /\ dest = 0 /\ src = 0 /\ n = 0 /\ end = 0 /\ rd = {}
    /\ pos = 0 /\ verdict = "running"

Changed == {i \in DOMAIN mem : mem'[i] # mem[i]}
StepT ==
    /\ verdict = "running" /\ pc # "done"
    /\ Next
    /\ k' = k
    /\ IF mem' = mem
       THEN pos' = pos /\ verdict' = "running"
       ELSE LET lo == Min(Changed)
                hi == Max(Changed)
            IN IF pos < Len(Rec[k].stores) /\ Rec[k].stores[pos + 1] = <<lo, hi - lo + 1>>
               THEN pos' = pos + 1 /\ verdict' = "running"
               ELSE pos' = pos /\ verdict' = "diverged"
FinishT ==
    /\ verdict = "running" /\ pc = "done"
    /\ UNCHANGED <<vars, k, pos>>
    /\ verdict' = IF pos = Len(Rec[k].stores) THEN "conforms" ELSE "diverged"
NextT == StepT \/ FinishT

Report == /\ verdict = "diverged" => PrintT(<<"DIV", ToJson([k |-> k, pos |-> pos, pc |-> pc])>>)
          /\ verdict = "conforms" => PrintT(<<"CONF", ToJson([k |-> k])>>)
=============================================================================
