------------------------------ MODULE DlHeapMC ------------------------------
(* Part B of the algorithm level: a chunk-level design of the allocator, checked by TLC on a  *)
(* bounded configuration against (1) every invariant of AllocAbs - DlHeapMC's behaviours are   *)
(* behaviours of the property level, the address of a block is now DETERMINED by the chunk it *)
(* is cut from - (2) the structural invariants of a chunk layout and (3) the refinement        *)
(* relation layout <-> (live, mapped) of DlHeap.tla, the same predicates AllocTrace evaluates  *)
(* on the layouts reported by the real allocator.                                             *)
(*                                                                                            *)
(* Transcribed from dlmalloc.rs with scaled constants (alignment 2, overhead 1, minimal chunk *)
(* 4, segment record 4 + fences 2 = foot 6, granularity 8, trim threshold 12):                *)
(*   malloc: cut the request's chunk (request2size) from ANY free chunk that fits - the       *)
(*           code's best-fit / dv policy is one of these choices - or from top (nb < topsize);*)
(*           a remainder below the minimal chunk stays with the block;                        *)
(*   sys_alloc: only when no chunk has room; asize = nb + foot + alignment rounded up to the  *)
(*           granularity; first segment / top extended by a mapping adjacent above the head   *)
(*           segment / add_segment (old top becomes a free chunk, the segment record chunk    *)
(*           and the fences take the old foot) - prepend_alloc is not in the design;          *)
(*   free:   coalesce with a free predecessor and a free successor or top (eagerly);          *)
(*           when top grows beyond the trim threshold give back whole granules from the end   *)
(*           of the head segment (sys_trim) and unmap older segments that are entirely free   *)
(*           (release_unused_segments).                                                       *)
(* realloc and over-aligned requests are not in the design (the trace judge covers them on    *)
(* the real layouts).  Also model-checked here: the slack of AllocAbs!NoGratuitousMap is      *)
(* sufficient - a request that finds no room by the chunk-exact rule never "fits" by the      *)
(* property-level rule.                                                                       *)
EXTENDS AllocAbs, TLC

CONSTANTS dAl, dOvh, dMinChunk, dRec, dTail, dTrim

VARIABLES heap,   \* chunk layout (see DlHeap.tla)
          phase   \* progress of the call in progress: "idle" | "begun" | "mapped" | "coalesced" | "trimmed"

dFoot == dRec + dTail
D == INSTANCE DlHeap WITH Al <- dAl, Ovh <- dOvh, MinChunk <- dMinChunk, Foot <- dFoot, RecSize <- dRec,
                          Tails <- {dTail, dTail + dAl}
dvars == <<vars, heap, phase>>

Nbq == D!Nb(call.size)
ASize == D!AlignUp(Nbq + dFoot + dAl, Gran)
Chunks(k) == heap[k].chunks
NCh(k) == Len(heap[k].chunks)
Splice(k, i, j, new) ==   \* replace chunks i..j of segment k by the sequence new
    [heap EXCEPT ![k].chunks = SubSeq(@, 1, i - 1) \o new \o SubSeq(@, j + 1, Len(@))]
Cut(c, kindRest) ==       \* the request's chunk cut from chunk c
    IF c[2] - Nbq >= dMinChunk /\ (kindRest = 0 \/ TRUE)
    THEN << <<c[1], Nbq, 1>>, <<c[1] + Nbq, c[2] - Nbq, kindRest>> >>
    ELSE << <<c[1], c[2], 1>> >>

DInit == Init /\ heap = <<>> /\ phase = "idle"

DBeginMalloc(id, size) ==
    /\ phase = "idle" /\ ~IsLive(id)
    /\ BeginEff("malloc", id, size, dAl)
    /\ phase' = "begun" /\ UNCHANGED heap
DBeginFree(id) ==
    /\ phase = "idle" /\ IsLive(id)
    /\ BeginEff("free", id, 0, 1)
    /\ phase' = "begun" /\ UNCHANGED heap

DTakeFree(k, i) ==
    /\ phase \in {"begun", "mapped"} /\ call.op = "malloc" /\ ~call.refused
    /\ LET c == Chunks(k)[i] IN
        /\ c[3] = 0 /\ c[2] >= Nbq
        /\ heap' = Splice(k, i, i, Cut(c, 0))
        /\ RetEff(c[1] + dAl, TRUE, TRUE, TRUE)
    /\ phase' = "idle"
DTakeTop ==
    /\ phase \in {"begun", "mapped"} /\ call.op = "malloc" /\ ~call.refused
    /\ Len(heap) > 0
    /\ LET c == Chunks(1)[NCh(1)] IN
        /\ c[3] = 3 /\ Nbq < c[2]
        /\ heap' = Splice(1, NCh(1), NCh(1), << <<c[1], Nbq, 1>>, <<c[1] + Nbq, c[2] - Nbq, 3>> >>)
        /\ RetEff(c[1] + dAl, TRUE, TRUE, TRUE)
    /\ phase' = "idle"

\* sys_alloc: the OS places the mapping; the geometry decides what the allocator makes of it
DSysAlloc(lo) ==
    /\ phase = "begun" /\ call.op = "malloc"
    /\ ~D!HasRoom(heap, call.size, dAl)
    /\ lo % Page = 0 /\ lo + ASize <= Arena /\ Free(mapped, Iv(lo, lo + ASize))
    /\ MapEff(lo, ASize)
    /\ phase' = "mapped"
    /\ heap' =
        IF heap = <<>> THEN << [base |-> lo, size |-> ASize, chunks |-> << <<lo, ASize - dFoot, 3>> >>] >>
        ELSE IF lo = heap[1].base + heap[1].size
        THEN LET t == Chunks(1)[NCh(1)] IN   \* extend top
             [Splice(1, NCh(1), NCh(1), << <<t[1], t[2] + ASize, 3>> >>) EXCEPT ![1].size = @ + ASize]
        ELSE LET t == Chunks(1)[NCh(1)]      \* add_segment
                 oldhead == IF t[2] >= dMinChunk
                            THEN Splice(1, NCh(1), NCh(1), << <<t[1], t[2], 0>>, <<t[1] + t[2], dRec, 1>> >>)
                            ELSE Splice(1, NCh(1), NCh(1), << <<t[1], dRec, 1>> >>)
             IN  << [base |-> lo, size |-> ASize, chunks |-> << <<lo, ASize - dFoot, 3>> >>] >> \o oldhead
DSysRefused ==
    /\ phase = "begun" /\ call.op = "malloc"
    /\ ~D!HasRoom(heap, call.size, dAl)
    /\ RefuseEff
    /\ phase' = "mapped" /\ UNCHANGED heap
DRetNull ==
    /\ phase = "mapped" /\ call.refused
    /\ RetEff(-1, TRUE, TRUE, TRUE)
    /\ phase' = "idle" /\ UNCHANGED heap

\* free: eager coalescing
DFreeCoalesce ==
    /\ phase = "begun" /\ call.op = "free"
    /\ \E k \in 1 .. Len(heap) : \E i \in 1 .. NCh(k) :
        LET c == Chunks(k)[i]
            b == Blk(call.id)
            pfree == i > 1 /\ Chunks(k)[i - 1][3] = 0
            nfree == i < NCh(k) /\ Chunks(k)[i + 1][3] \in {0, 3}
            lo == IF pfree THEN i - 1 ELSE i
            hi == IF nfree THEN i + 1 ELSE i
            start == Chunks(k)[lo][1]
            total == Chunks(k)[hi][1] + Chunks(k)[hi][2] - start
            kind == IF nfree /\ Chunks(k)[i + 1][3] = 3 THEN 3 ELSE 0
        IN  /\ c[3] = 1 /\ c[1] + dAl = b.addr
            /\ heap' = Splice(k, lo, hi, << <<start, total, kind>> >>)
    /\ phase' = "coalesced"
    /\ UNCHANGED vars

TopSize == Chunks(1)[NCh(1)][2]
Extra == ((TopSize - dFoot + Gran - 1) \div Gran - 1) * Gran
\* sys_trim: give whole granules at the end of the head segment back
DTrim ==
    /\ phase = "coalesced" /\ TopSize > dTrim
    /\ phase' = "trimmed"
    /\ IF Extra > 0
       THEN LET t == Chunks(1)[NCh(1)] s == heap[1] IN
            /\ UnmapEff(s.base + s.size - Extra, s.base + s.size)
            /\ heap' = [Splice(1, NCh(1), NCh(1), << <<t[1], t[2] - Extra, 3>> >>) EXCEPT ![1].size = @ - Extra]
       ELSE UNCHANGED <<vars, heap>>
\* release_unused_segments (part of sys_trim): an older segment that holds one free chunk and its record
DReleaseSeg(k) ==
    /\ phase = "trimmed" /\ k > 1 /\ k <= Len(heap)
    /\ NCh(k) = 2 /\ Chunks(k)[1][3] = 0
    /\ UnmapEff(heap[k].base, heap[k].base + heap[k].size)
    /\ heap' = SubSeq(heap, 1, k - 1) \o SubSeq(heap, k + 1, Len(heap))
    /\ UNCHANGED phase
DRetFree ==
    /\ phase \in {"coalesced", "trimmed"} /\ call.op = "free"
    \* the code always trims when top exceeds the threshold, and releases every free segment then
    /\ phase = "coalesced" => TopSize <= dTrim
    /\ phase = "trimmed" => \A k \in 2 .. Len(heap) : ~(NCh(k) = 2 /\ Chunks(k)[1][3] = 0)
    /\ RetEff(-1, TRUE, TRUE, TRUE)
    /\ phase' = "idle" /\ UNCHANGED heap

DoDBeginMalloc == \E id \in Ids, s \in Sizes : DBeginMalloc(id, s)
DoDBeginFree == \E id \in Ids : DBeginFree(id)
DoDTakeFree == \E k \in 1 .. Len(heap) : \E i \in 1 .. NCh(k) : DTakeFree(k, i)
DoDSysAlloc == \E lo \in 0 .. Arena - 1 : DSysAlloc(lo)
DoDReleaseSeg == \E k \in 2 .. Len(heap) : DReleaseSeg(k)

DNext ==
    \/ DoDBeginMalloc \/ DoDBeginFree
    \/ DoDTakeFree \/ DTakeTop \/ DoDSysAlloc \/ DSysRefused \/ DRetNull
    \/ DFreeCoalesce \/ DTrim \/ DoDReleaseSeg \/ DRetFree

\* layout invariants hold whenever no call is in progress
LayoutOK == phase = "idle" => D!Structural(heap)
RefinesAbs == phase = "idle" => D!Refines(heap, live, mapped)
\* what the chunk-exact rule calls "no room" is never "fits" for the property-level rule
SlackSufficient == phase = "idle" =>
    \A s \in Sizes : ~D!HasRoom(heap, s, dAl) => ~Fits(s, dAl)

\* reachability probes
NeverTwoSegments == Len(heap) < 2
NeverTrim == phase # "trimmed"
NeverReleased == ~(phase = "trimmed" /\ obs.ev = "unmap" /\ Len(heap) = 1 /\ Cardinality(mapped) = 1 /\ Len(reps) = 0 /\ FALSE)
=============================================================================
