------------------------------ MODULE UringOps ------------------------------
(* C18, first clause: "each operation submitted through the io_uring wrapper produces        *)
(* exactly one completion carrying its user data and the same result and side effects the    *)
(* equivalent direct system call would have, for any batch composition and ring size".       *)
(*                                                                                           *)
(* Part 1 (property level, definitional): Judge(b) decides one recorded batch - what was     *)
(* submitted through the wrapper on world A, the completions reaped, the equivalent direct   *)
(* system calls executed on the twin world B - and names the first violated clause.          *)
(* Part 2 (protocol model): wrapper + kernel at the granularity submit / execute / post /    *)
(* reap, with IOSQE_IO_LINK chains, every execution order the kernel may choose and every    *)
(* success/failure pattern.  TLC checks that every behaviour of the model produces a record   *)
(* Judge accepts (the oracle raises no false alarm on any admissible kernel schedule) and,   *)
(* in expected-failure configurations (Fault), that each clause is reachable.                *)
EXTENDS Integers, Sequences, FiniteSets, TLC

ECANCELED == -125
ETIME == -62
EBADF == -9
FdOps == {"openat", "socket", "accept"}          \* results are descriptors: numbers are not comparable
Norm(op, res) == IF op \in FdOps /\ res >= 0 THEN 0 ELSE res
HasBit(x, b) == (x \div b) % 2 = 1

\* what the completion of an EXECUTED submission s must carry, given the record d of the direct call
Expected(s, d) ==
    IF s.op = "timeout" THEN (IF d.count_reached THEN 0                \* the completion count was reached first
                              ELSE IF d.res = 0 THEN ETIME ELSE d.res)  \* (clock_)nanosleep returned <-> timer fired
    ELSE IF s.op = "poll" THEN (IF d.res < 0 THEN d.res
                                ELSE IF HasBit(d.revents, 32) THEN EBADF   \* POLLNVAL <-> EBADF
                                ELSE d.revents)
    ELSE Norm(s.op, d.res)

\* a result that severs an IOSQE_IO_LINK chain: an error or a short transfer
Breaks(s, res) == res < 0 \/ (s.op \in {"readv", "writev", "readfix", "writefix"} /\ res < s.req)

Cqes(b, u) == {i \in 1..Len(b.cqes) : b.cqes[i].u = u}
Pos(b, u) == CHOOSE i \in Cqes(b, u) : TRUE
Res(b, u) == b.cqes[Pos(b, u)].res

Judge(b) ==
    LET n == Len(b.subs)
        U == {b.subs[k].u : k \in 1..n} IN
    IF b.panic THEN "wrapper_panicked"
    ELSE IF \E k \in 1..n : ~b.subs[k].got_slot THEN "slot_refused_on_drained_ring"
    ELSE IF b.enter < 0 THEN "enter_failed"
    ELSE IF \E i \in 1..Len(b.cqes) : b.cqes[i].u \notin U THEN "completion_with_unknown_user_data"
    ELSE IF \E u \in U : Cardinality(Cqes(b, u)) > 1 THEN "duplicate_completion"
    ELSE IF \E u \in U : Cqes(b, u) = {} THEN "missing_completion"
    ELSE IF \E k \in 1..n : b.direct[k].u # b.subs[k].u THEN "harness_direct_protocol"
    \* -ECANCELED (the kernel did not execute the operation) is admissible only behind a linked predecessor
    \* that failed, transferred short or was cancelled itself; whether a failure severs the chain is the
    \* kernel's per-opcode policy (e.g. a failing unlinkat does not), so both continuations are admitted
    \* A predecessor linked with IOSQE_IO_HARDLINK (subs[k-1].hard) does not sever the chain by failing: behind it only
    \* a cancellation that started further up is passed on.
    ELSE IF \E k \in 1..n : Res(b, b.subs[k].u) = ECANCELED
                /\ ~(k > 1 /\ b.subs[k-1].link
                     /\ (Res(b, b.subs[k-1].u) = ECANCELED
                         \/ (~b.subs[k-1].hard /\ Breaks(b.subs[k-1], Res(b, b.subs[k-1].u)))))
         THEN "cancelled_without_failed_predecessor"
    \* the twin executes exactly the operations the kernel executed
    ELSE IF \E k \in 1..n : b.direct[k].ran # (Res(b, b.subs[k].u) # ECANCELED) THEN "harness_direct_protocol"
    ELSE IF \E k \in 1..n : b.direct[k].ran
                /\ Norm(b.subs[k].op, Res(b, b.subs[k].u)) # Expected(b.subs[k], b.direct[k])
         THEN "result_differs_from_direct_call"
    ELSE IF \E k \in 1..(n-1) : b.subs[k].link /\ Pos(b, b.subs[k].u) > Pos(b, b.subs[k+1].u)
         THEN "linked_operations_completed_out_of_order"
    ELSE IF \E k \in 1..n : ~b.payload_same[k] THEN "data_differs_from_direct_call"
    ELSE IF ~b.side_same THEN "side_effects_differ_from_direct_calls"
    ELSE ""

\* set-up: what the wrapper extracted about the rings against the kernel's answer to an identical independent
\* io_uring_setup call, and against the requested size (rings are rounded up to a power of two, the completion
\* ring has twice the entries, masks are entries - 1)
RECURSIVE NextPow2From(_, _)
NextPow2From(p, n) == IF p >= n THEN p ELSE NextPow2From(2 * p, n)
JudgeGeometry(g) ==
    IF ~g.twin_ok THEN ""
    ELSE IF g.k_sq_entries # NextPow2From(1, g.requested) \/ g.k_cq_entries # 2 * g.k_sq_entries THEN "harness_geometry_expectation"
    ELSE IF g.w_sq_entries # g.k_sq_entries \/ g.w_cq_entries # g.k_cq_entries THEN "ring_entries_differ_from_kernel"
    ELSE IF g.w_sq_mask # g.k_sq_entries - 1 \/ g.w_cq_mask # g.k_cq_entries - 1 THEN "ring_mask_differs_from_kernel"
    \* every ring pointer the wrapper derived (sq head, tail, flags, dropped, array; cq head, tail, overflow, cqes, flags)
    \* lies at the offset the kernel reports for exactly that field
    ELSE IF g.w_off # g.k_off THEN "ring_pointer_not_at_the_offset_the_kernel_reports"
    \* the kernel takes submission entry array[i] for ring position i: set-up must leave the identity there
    ELSE IF ~g.array_ok THEN "index_array_does_not_name_the_slots"
    ELSE ""

\* one lap over a whole ring: every slot of the submission ring filled once (entries numbered 1..n), submitted in one
\* go, every completion reaped: each number exactly once
JudgeLap(l) ==
    IF l.filled # l.n THEN "slot_refused_on_drained_ring"
    ELSE IF l.unknown > 0 THEN "completion_with_unknown_user_data"
    ELSE IF l.dups > 0 THEN "duplicate_completion"
    ELSE IF l.completed # l.n THEN "missing_completion"
    ELSE IF l.bad_res > 0 THEN "result_differs_from_direct_call"
    ELSE ""

\* a flag / opcode constant the library defines against the value in the kernel's uapi header (uapi = -1: not in the header)
JudgeConstant(c) == IF c.uapi >= 0 /\ c.lib # c.uapi THEN "constant_differs_from_kernel_uapi" ELSE ""

JudgeClauses == {"wrapper_panicked", "slot_refused_on_drained_ring", "enter_failed",
                 "completion_with_unknown_user_data", "duplicate_completion", "missing_completion",
                 "cancelled_without_failed_predecessor", "result_differs_from_direct_call", "linked_operations_completed_out_of_order",
                 "data_differs_from_direct_call", "side_effects_differ_from_direct_calls"}

---------------------------------------------------------------------------
(* Part 2: protocol model of one batch of N operations on a ring.                           *)
CONSTANTS N,        \* operations in the batch
          Fault     \* "" or the name of a seeded fault of the wrapper/kernel pair (expected failures)

VARIABLES link,     \* link[k]: operation k carries IOSQE_IO_LINK (k < N)
          phase,    \* phase[k] \in {"filled", "flushed", "running", "posted", "reaped"}
          out,      \* out[k] \in {"", "ok", "fail", "failsoft", "cancel"}; "failsoft": a failure that does not sever the chain
          cq,       \* completion ring: sequence of operation indices
          reaped    \* what the application got, in order
pvars == <<link, phase, out, cq, reaped>>

Ops == 1..N
LinkedToPrev(k) == k > 1 /\ link[k-1]

PInit ==
    /\ link \in [Ops -> BOOLEAN] /\ ~link[N]
    /\ phase = [k \in Ops |-> "filled"]
    /\ out = [k \in Ops |-> ""]
    /\ cq = <<>> /\ reaped = <<>>

\* application: flush + enter hand every filled entry to the kernel
Submit ==
    /\ \A k \in Ops : phase[k] = "filled"
    /\ phase' = [k \in Ops |-> IF Fault = "lose_last_submission" /\ k = N THEN "filled" ELSE "flushed"]
    /\ UNCHANGED <<link, out, cq, reaped>>

\* kernel: starts k once its chain predecessor has completed; independent operations in any order
Start(k) ==
    /\ phase[k] = "flushed"
    /\ LinkedToPrev(k) => phase[k-1] \in {"posted", "reaped"}
    /\ phase' = [phase EXCEPT ![k] = "running"]
    /\ \E o \in {"ok", "fail", "failsoft"} :
         out' = [out EXCEPT ![k] = IF LinkedToPrev(k) /\ (out[k-1] \in {"fail", "cancel"} \/ (Fault = "spurious_cancel" /\ out[k-1] = "ok"))
                                   THEN "cancel" ELSE o]
    /\ UNCHANGED <<link, cq, reaped>>

Post(k) ==
    /\ phase[k] = "running"
    /\ phase' = [phase EXCEPT ![k] = "posted"]
    /\ cq' = IF Fault = "post_twice" /\ k = 1 THEN cq \o <<k, k>> ELSE Append(cq, k)
    /\ UNCHANGED <<link, out, reaped>>

\* application: get_next_cqe
Reap ==
    /\ cq # <<>>
    /\ reaped' = Append(reaped, Head(cq))
    /\ cq' = Tail(cq)
    /\ phase' = [phase EXCEPT ![Head(cq)] = "reaped"]
    /\ UNCHANGED <<link, out>>

PNext == Submit \/ (\E k \in Ops : Start(k) \/ Post(k)) \/ Reap

Quiescent == /\ cq = <<>>
             /\ \A k \in Ops : phase[k] \in {"reaped", "filled"}
             /\ \E j \in Ops : phase[j] = "reaped"

\* the record the driver would write for this behaviour (results: ok = 0, fail = -2, cancel = -125)
ResOf(o) == IF o = "ok" THEN 0 ELSE IF o \in {"fail", "failsoft"} THEN -2 ELSE ECANCELED
DirectRan(k) == out[k] # "cancel"   \* the twin executes what the kernel executed
Record ==
    [panic |-> FALSE, enter |-> N, side_same |-> TRUE,
     subs |-> [k \in Ops |-> [u |-> 100 + k, op |-> "statx", link |-> link[k], hard |-> FALSE, req |-> 0, got_slot |-> TRUE]],
     cqes |-> [i \in 1..Len(reaped) |-> [u |-> 100 + reaped[i], res |-> ResOf(out[reaped[i]])]],
     direct |-> [k \in Ops |-> [u |-> 100 + k, ran |-> DirectRan(k), count_reached |-> FALSE,
                                res |-> IF DirectRan(k) THEN ResOf(out[k]) ELSE ECANCELED]],
     payload_same |-> [k \in Ops |-> TRUE]]

\* every terminated behaviour of the protocol is accepted by the judge
JudgeAcceptsProtocol == Quiescent => Judge(Record) = ""
\* anti-vacuity probes (must be violated)
ProbeCancel == ~(Quiescent /\ \E k \in Ops : out[k] = "cancel")
ProbeReorder == ~(Quiescent /\ Len(reaped) = N /\ N > 1 /\ reaped[1] = N)
=============================================================================
