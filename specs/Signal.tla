------------------------------- MODULE Signal -------------------------------
(* X03 (growth check): signal dispositions as installed through                             *)
(*   rusl::process::add_signal_action(CatchSignal, SaSignalaction)                           *)
(* (rusl/src/process/signal.rs, rusl/src/platform/compat/signal.rs).                         *)
(*                                                                                          *)
(* The API names five signals (CatchSignal: Hup Int Segv Term Chld; SIGKILL and SIGSTOP      *)
(* cannot be expressed - the type excludes them, so "install on SIGKILL fails" is a          *)
(* compile-time fact and not an action here) and four kinds of disposition (Dfl, Ign,        *)
(* Handler(fn(i32)), SigAction(fn(i32, *SigInfo, *ctx))).  It returns no old disposition and *)
(* exposes no masks; what the code chooses itself (empty sa_mask, no SA_NODEFER, SA_RESTART) *)
(* is a design decision modelled below, while the property-level judge (SignalTrace) admits  *)
(* both nesting orders and both outcomes of an interrupted system call.                      *)
(*                                                                                          *)
(* Micro level: per-signal disposition (process wide), per-thread and process-directed       *)
(* pending sets, per-thread stacks of handler frames (the frame is what the restorer          *)
(* trampoline + rt_sigreturn pop: the interrupted code continues exactly when the frame is   *)
(* popped), the blocked set of a thread = the signals of its frames.                         *)
EXTENDS Naturals, Sequences, FiniteSets

CONSTANTS Sigs,      \* signal names the API can install on
          Hids,      \* handler identities (distinguishable functions)
          Threads,   \* thread ids, 0 = main
          MaxRaise,  \* bound on raises (model checking only)
          SelfBlock  \* TRUE: a signal is blocked while its own handler runs (what the code asks
                     \* for: no SA_NODEFER); FALSE admits re-entry too (the API documents neither,
                     \* the trace judge runs with FALSE = the weaker reading)

\* ------------------------------------------------------------------ pure part (shared with
\* SignalGen / SignalTrace: the binding modules judge with the SAME operators)
Kinds == {"dfl", "ign", "handler", "sigaction"}
Disp == [k : {"dfl", "ign"}, h : {0}] \cup [k : {"handler", "sigaction"}, h : Hids]
Dfl == [k |-> "dfl", h |-> 0]
Ign == [k |-> "ign", h |-> 0]

\* default actions of signal(7) for the signals of the API
DefaultAction(s) == IF s = "CHLD" THEN "discard" ELSE IF s = "SEGV" THEN "core" ELSE "term"

\* what a delivery of s does under disposition d
Effect(s, d) == IF d.k \in {"handler", "sigaction"} THEN "run"
                ELSE IF d.k = "ign" THEN "discard"
                ELSE DefaultAction(s)
Fatal(e) == e \in {"term", "core"}

\* numbers (x86_64)
SigNo(s) == CASE s = "HUP" -> 1 [] s = "INT" -> 2 [] s = "QUIT" -> 3 [] s = "USR1" -> 10 [] s = "SEGV" -> 11
              [] s = "USR2" -> 12 [] s = "PIPE" -> 13 [] s = "ALRM" -> 14 [] s = "TERM" -> 15 [] s = "CHLD" -> 17

\* ------------------------------------------------------------------ micro level
VARIABLES disp,     \* [Sigs -> Disp]                     process wide
          tpend,    \* [Threads -> SUBSET Sigs]           thread-directed pending (tgkill)
          ppend,    \* SUBSET Sigs                        process-directed pending (kill)
          stack,    \* [Threads -> Seq([sig, k, h])]      handler frames in progress
          runs,     \* [Hids -> Nat]                      handler entries so far
          alive,    \* FALSE once a default action terminated the process
          cause,    \* the signal that terminated it ("" while alive)
          accepted, \* [Sigs -> Nat] ghost: raises that made a signal newly pending
          delivered \* [Sigs -> Nat] ghost: deliveries (whatever their effect)
vars == <<disp, tpend, ppend, stack, runs, alive, cause, accepted, delivered>>

Frame == [sig : Sigs, k : {"handler", "sigaction"}, h : Hids]
Blocked(t) == IF SelfBlock THEN {stack[t][i].sig : i \in DOMAIN stack[t]} ELSE {}    \* empty sa_mask
CanDeliver(t, s) == alive /\ s \in tpend[t] \cup ppend /\ s \notin Blocked(t)
Quiescent == /\ \A t \in Threads : stack[t] = <<>> /\ tpend[t] = {}
             /\ ppend = {}

TypeOK == /\ disp \in [Sigs -> Disp]
          /\ tpend \in [Threads -> SUBSET Sigs]
          /\ ppend \subseteq Sigs
          /\ \A t \in Threads : stack[t] \in Seq(Frame)
          /\ runs \in [Hids -> Nat]
          /\ alive \in BOOLEAN
          /\ cause \in Sigs \cup {""}
          /\ accepted \in [Sigs -> Nat] /\ delivered \in [Sigs -> Nat]

Init == /\ disp = [s \in Sigs |-> Dfl]
        /\ tpend = [t \in Threads |-> {}]
        /\ ppend = {}
        /\ stack = [t \in Threads |-> <<>>]
        /\ runs = [h \in Hids |-> 0]
        /\ alive = TRUE /\ cause = ""
        /\ accepted = [s \in Sigs |-> 0] /\ delivered = [s \in Sigs |-> 0]

\* add_signal_action(s, d) called by thread t (also from inside a handler): replaces the
\* disposition for the whole process; the call has no failure case for these signals.
\* (POSIX: setting a disposition that discards drops a pending instance; not observable
\* through this API, both readings end in the same observations.)
Install(t, s, d) ==
    /\ alive
    /\ disp' = [disp EXCEPT ![s] = d]
    /\ UNCHANGED <<tpend, ppend, stack, runs, alive, cause, accepted, delivered>>

Total(f) == LET RECURSIVE Sum(_)
                Sum(S) == IF S = {} THEN 0 ELSE LET x == CHOOSE x \in S : TRUE IN f[x] + Sum(S \ {x})
            IN  Sum(DOMAIN f)

\* tgkill(pid, tid(t), s): standard signals do not queue
RaiseThread(t, s) ==
    /\ alive /\ Total(accepted) < MaxRaise
    /\ tpend' = [tpend EXCEPT ![t] = @ \cup {s}]
    /\ accepted' = IF s \in tpend[t] THEN accepted ELSE [accepted EXCEPT ![s] = @ + 1]
    /\ UNCHANGED <<disp, ppend, stack, runs, alive, cause, delivered>>
\* kill(pid, s)
RaiseProcess(s) ==
    /\ alive /\ Total(accepted) < MaxRaise
    /\ ppend' = ppend \cup {s}
    /\ accepted' = IF s \in ppend THEN accepted ELSE [accepted EXCEPT ![s] = @ + 1]
    /\ UNCHANGED <<disp, tpend, stack, runs, alive, cause, delivered>>

\* thread t takes signal s (from its own or the process-directed set)
Deliver(t, s) ==
    /\ CanDeliver(t, s)
    /\ LET own == s \in tpend[t]
           e == Effect(s, disp[s])
       IN  /\ tpend' = IF own THEN [tpend EXCEPT ![t] = @ \ {s}] ELSE tpend
           /\ ppend' = IF own THEN ppend ELSE ppend \ {s}
           /\ delivered' = [delivered EXCEPT ![s] = @ + 1]
           /\ CASE e = "run" ->
                     /\ stack' = [stack EXCEPT ![t] = Append(@, [sig |-> s, k |-> disp[s].k, h |-> disp[s].h])]
                     /\ runs' = [runs EXCEPT ![disp[s].h] = @ + 1]
                     /\ UNCHANGED <<alive, cause>>
                [] e = "discard" -> UNCHANGED <<stack, runs, alive, cause>>
                [] Fatal(e) -> /\ alive' = FALSE /\ cause' = s
                               /\ UNCHANGED <<stack, runs>>
    /\ UNCHANGED <<disp, accepted>>

\* the handler returns into the restorer, rt_sigreturn pops the frame: the interrupted code
\* (the frame below, or the thread's normal code) continues, the signal is unblocked again
Return(t) ==
    /\ alive /\ stack[t] # <<>>
    /\ stack' = [stack EXCEPT ![t] = SubSeq(@, 1, Len(@) - 1)]
    /\ UNCHANGED <<disp, tpend, ppend, runs, alive, cause, accepted, delivered>>

Next == \/ \E t \in Threads, s \in Sigs, d \in Disp : Install(t, s, d)
        \/ \E t \in Threads, s \in Sigs : RaiseThread(t, s) \/ Deliver(t, s)
        \/ \E s \in Sigs : RaiseProcess(s)
        \/ \E t \in Threads : Return(t)

Fairness == /\ \A t \in Threads : WF_vars(Return(t))
            /\ \A t \in Threads, s \in Sigs : WF_vars(Deliver(t, s))
Spec == Init /\ [][Next]_vars /\ Fairness

\* ------------------------------------------------------------------ design properties
\* a handler never interrupts itself (its signal is blocked while its frame is live)
NoSelfNest == \A t \in Threads : \A i, j \in DOMAIN stack[t] : i # j => stack[t][i].sig # stack[t][j].sig
\* nothing is delivered that was not raised, nothing is delivered twice
NoSpurious == \A s \in Sigs : delivered[s] <= accepted[s]
\* once everything has settled every accepted raise was delivered exactly once
Settled == Quiescent /\ alive => \A s \in Sigs : delivered[s] = accepted[s]
\* handler entries never exceed deliveries
RunsBounded == Total(runs) <= Total(delivered)
\* a terminated process stays terminated and does nothing more
DeadIsFinal == [][~alive => UNCHANGED vars]_vars
\* termination only by a signal whose disposition was the default one at that moment
DeathByDefault == ~alive => cause # "" /\ Fatal(DefaultAction(cause))
\* every pending signal is eventually taken (or the process is gone) - needs the restorer:
\* without Return a blocked signal would stay pending for ever
EventuallyTaken == \A t \in Threads, s \in Sigs : (s \in tpend[t]) ~> (s \notin tpend[t] \/ ~alive)
EventuallyBack == \A t \in Threads : (stack[t] # <<>>) ~> (stack[t] = <<>> \/ ~alive)

\* reachability probes (must be violated)
ProbeNested == \A t \in Threads : Len(stack[t]) < 2
ProbeBlockedPending == \A t \in Threads : tpend[t] \cap Blocked(t) = {}
ProbeDead == alive
=============================================================================
