CONSTANTS
  Objs = {1, 2}
  Kind <- K2
  MaxRx = 2
  Masks <- MasksQ
  DataOf <- Data
SPECIFICATION Spec
INVARIANTS TypeOK Consistent Answerable LevelPersists OneshotSilent EdgeSilent UnregisteredSilent ClosedSilent
CHECK_DEADLOCK FALSE
