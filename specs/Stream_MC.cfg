CONSTANTS
  Cap = 2
  MaxBytes = 3
  MaxClock = 2
  Timeouts = {0, 1}
  MaxIntr = 2
  IntrMode = "remainder"
SPECIFICATION FairSpec
INVARIANTS TypeOK PrefixInv AllDeliveredAtEof TimeoutNotEarly EofOnlyAfterAll TryNeverBlocks CtorUniform LegsAddUp
PROPERTIES ReadCompletes AcceptCompletes WriteCompletes TimedCallsReturn
CHECK_DEADLOCK FALSE
