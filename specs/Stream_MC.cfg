CONSTANTS
  Cap = 2
  MaxBytes = 3
  MaxClock = 2
  Timeouts = {0, 1}
SPECIFICATION FairSpec
INVARIANTS TypeOK PrefixInv AllDeliveredAtEof TimeoutNotEarly EofOnlyAfterAll TryNeverBlocks
PROPERTIES ReadCompletes AcceptCompletes WriteCompletes
CHECK_DEADLOCK FALSE
