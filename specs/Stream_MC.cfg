CONSTANTS
  Cap = 2
  MaxBytes = 3
  MaxClock = 2
  Timeouts = {0, 1}
SPECIFICATION FairSpec
INVARIANTS TypeOK PrefixInv AllDeliveredAtEof TimeoutNotEarly EofOnlyAfterAll TryNeverBlocks CtorUniform
PROPERTIES ReadCompletes AcceptCompletes WriteCompletes TimedCallsReturn
CHECK_DEADLOCK FALSE
