----------------------------- MODULE GetPassGen -----------------------------
(* X03 part 2 generator: every complete behaviour of GetPass.tla (all fault positions, all    *)
(* line shapes, all four initial flag combinations, MaxDrain "more" rounds) is one scenario    *)
(* for the pty harness in lib/checks/x03.py: the path of (step, outcome) pairs says which      *)
(* input to type and which system call to fail (tools/sysinj rule), the final state is what   *)
(* GetPass.tla requires.  The result class is left to the judge (GetPassTrace).               *)
EXTENDS GetPass, Sequences, TLC, Json
VARIABLE path
gvars == <<vars, path>>
Log(s, o) == path' = Append(path, [step |-> s, out |-> o])
B(ok) == IF ok THEN "ok" ELSE "fail"

GInit == Init /\ path = <<>>
GNext == \/ Begin /\ UNCHANGED path
         \/ \E ok \in BOOLEAN : \/ Get(ok) /\ Log("get", B(ok))
                                \/ Set(ok) /\ Log("set", B(ok))
                                \/ Restore(ok) /\ Log("restore", B(ok))
         \* variants of a line that fits: shorter than the buffer, exactly filling it with the
         \* newline last, end of file typed (^D), and a read that is forced to return 0
         \/ \E v \in {"short", "exact", "eof", "zero", "badutf8"} : Read("fits") /\ Log("read", v)
         \/ Read("full") /\ Log("read", "full")
         \/ \E v \in {"eio", "eintr"} : Read("err") /\ Log("read", v)
         \/ \E v \in {"short", "nl_last", "zero"} : Drain("end") /\ Log("drain", v)
         \/ Drain("more") /\ Log("drain", "more")
         \/ Drain("err") /\ Log("drain", "eio")
         \/ Return("err") /\ UNCHANGED path      \* (the result class is judged, not generated)
Emit == pc = "done" => PrintT(<<"SCN", ToJson([orig |-> orig, empty |-> empty, path |-> path,
                                                final |-> term, restoreFailed |-> restoreFailed, outcome |-> outcome])>>)
=============================================================================
