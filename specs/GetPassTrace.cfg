CONSTANTS
  MaxDrain = 1000
INIT TInit
NEXT TNext
INVARIANT Done
CHECK_DEADLOCK FALSE
