CONSTANTS
  RawDom <- Dom
  Idiom = "bail_val"
  MaxIssues = 3
SPECIFICATION Spec
INVARIANTS TypeOK ReturnConforms LimitConforms
CHECK_DEADLOCK FALSE
