CONSTANTS
  NS = 8
  NC = 8
  H = 16
  Side = "sq"
  SqStarts <- AllStarts
  CqStarts <- OneStart
  Wrapping = TRUE
  DebugChecks = TRUE
  CqEmptyLE = FALSE
  AtomicReapRead = FALSE
INIT Init
NEXT Next
INVARIANTS TypeOK PropertyHolds CountersConsistent
CHECK_DEADLOCK FALSE
