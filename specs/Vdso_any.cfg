\* the repaired walk on any symbol value / alignment
CONSTANTS
  MaxSyms = 2
  Values = {0, 8, 16, 24}
  Shndxs = {1}
  TextAligns = {1, 8, 16}
  RequireAligned = FALSE
INIT Init
NEXT Next
INVARIANTS ResolutionAdmissible FoundWhenPresent
CHECK_DEADLOCK FALSE
