--------------------------- MODULE TimeArithCode ---------------------------
(***************************************************************************)
(* C19, algorithm level: transcription of tiny-std/src/time.rs             *)
(* (checked_add_dur, checked_sub_dur, sub_ts_checked_dur, sub_ts_dur and   *)
(* the derived Ord of rusl's TimeSpec) on machine integers                 *)
(*   i64 = SMIN..SMAX, u64 = 0..DMAX, u32 = 0..U32MAX, NPS ns per second.  *)
(* checked_* / try_from steps yield None on overflow; the unchecked        *)
(* operators (-, +=, -=) of a debug build PANIC on overflow and `as u64`   *)
(* wraps.  The public API routes: Instant/SystemTime + Duration ->         *)
(* checked_add_dur, - Duration -> checked_sub_dur, - Self / duration_since *)
(* -> sub_ts_checked_dur, SystemTime::duration_since_unix_time and         *)
(* MonotonicInstant::elapsed -> sub_ts_dur.                                 *)
(*                                                                         *)
(* TLC enumerates ALL inputs over scaled constants (TimeArithCode.cfg:     *)
(* NPS = 4, i64 = -8..7, u64 = 0..15) and checks                           *)
(*   Exact:    for time values at/after the epoch the transcription equals *)
(*             the definition of TimeArith.tla (exact total nanoseconds),  *)
(*   NoPanic:  for ALL time values (negative seconds down to SMIN) no      *)
(*             transcription panics,                                        *)
(*   Laws:     (t+d)-d = t, (t+d)-t = d, order <=> sign of the difference, *)
(*             and the derived lexicographic Ord = order of total nanos.   *)
(* The same module is checked by Apalache with the real constants          *)
(* (TimeArithApa.tla).                                                      *)
(***************************************************************************)
EXTENDS Integers

CONSTANTS NPS, SMAX, DMAX, U32MAX
SMIN == -SMAX - 1      \* two's complement

NPlus(a, b) == a + b
NMinus(a, b) == a - b
NLeq(a, b) == a <= b
NTotal(s, ns) == s * NPS + ns
NSecs(r) == r \div NPS
NNanos(r) == r % NPS
D == INSTANCE TimeArith WITH Plus <- NPlus, Minus <- NMinus, Leq <- NLeq, Total <- NTotal,
                             Secs <- NSecs, Nanos <- NNanos

None == D!None
Some(s, ns) == D!Some(s, ns)
PANIC == [panic |-> TRUE]
I64(x) == x >= SMIN /\ x <= SMAX
U64(x) == x >= 0 /\ x <= DMAX

\* fn checked_add_dur(timespec: TimeSpec, duration: Duration) -> Option<TimeSpec>
CheckedAddDur(t, d) ==
    LET n1 == t.ns + d.ns IN                          \* .checked_add(subsec_nanos.into())?
    IF ~I64(n1) THEN None ELSE
    LET carry == n1 >= NPS                            \* if total_nanos >= NANOS_A_SECOND
        n2 == IF carry THEN n1 - NPS ELSE n1          \* total_nanos -= NANOS_A_SECOND (unchecked)
        secs == IF carry THEN d.s + 1 ELSE d.s        \* seconds.checked_add(1)?
    IN  IF ~I64(n2) THEN PANIC
        ELSE IF ~U64(secs) THEN None
        ELSE IF secs > SMAX THEN None                 \* seconds.try_into().ok()?  (u64 -> i64)
        ELSE IF ~I64(t.s + secs) THEN None            \* timespec.seconds().checked_add(..)?
        ELSE Some(t.s + secs, n2)

\* fn checked_sub_dur(timespec: TimeSpec, duration: Duration) -> Option<TimeSpec>
CheckedSubDur(t, d) ==
    LET n1 == t.ns - d.ns IN                          \* .checked_sub(subsec_nanos.into())?
    IF ~I64(n1) THEN None ELSE
    LET borrow == n1 < 0                              \* if total_nanos < 0
        n2 == IF borrow THEN n1 + NPS ELSE n1         \* total_nanos += NANOS_A_SECOND (unchecked)
        secs == IF borrow THEN d.s + 1 ELSE d.s       \* seconds.checked_add(1)?
    IN  IF ~I64(n2) THEN PANIC
        ELSE IF ~U64(secs) THEN None
        ELSE IF secs > SMAX THEN None                 \* try_into
        ELSE IF ~I64(t.s - secs) THEN None            \* checked_sub
        ELSE IF t.s - secs >= 0 THEN Some(t.s - secs, n2) ELSE None   \* tv_sec.ge(&0).then_some(tv_sec)?

\* fn sub_ts_checked_dur(lhs: TimeSpec, rhs: TimeSpec) -> Option<Duration>
SubTsCheckedDur(l, r) ==
    LET n1 == l.ns - r.ns IN                          \* checked_sub
    IF ~I64(n1) THEN None ELSE
    LET borrow == n1 < 0
        n2 == IF borrow THEN n1 + NPS ELSE n1         \* unchecked +=
        sub == IF borrow THEN 1 ELSE 0
        s1 == l.s - r.s                               \* checked_sub
    IN  IF ~I64(n2) THEN PANIC
        ELSE IF ~I64(s1) THEN None
        ELSE IF ~I64(s1 - sub) THEN None              \* checked_sub(sub_sec)
        ELSE IF s1 - sub < 0 THEN None                \* u64::try_from(..).ok()?
        ELSE IF n2 < 0 \/ n2 > U32MAX THEN None       \* u32::try_from(total_nanos).ok()?
        ELSE Some(s1 - sub, n2)

\* fn sub_ts_dur(lhs: TimeSpec, rhs: TimeSpec) -> Duration   ("Can panic if left is not bigger than right")
\* Duration::new(secs, nanos) itself carries nanos >= NPS into secs and panics if that overflows
SubTsDur(l, r) ==
    LET n1 == l.ns - r.ns IN                          \* unchecked -
    IF ~I64(n1) THEN PANIC ELSE
    LET borrow == n1 < 0
        n2 == IF borrow THEN n1 + NPS ELSE n1
        sub == IF borrow THEN 1 ELSE 0
        s1 == l.s - r.s
        s2 == s1 - sub
    IN  IF ~I64(n2) \/ ~I64(s1) \/ ~I64(s2) THEN PANIC
        ELSE LET secs == IF s2 < 0 THEN s2 + DMAX + 1 ELSE s2        \* as u64
                 nan  == n2 % (U32MAX + 1)                             \* as u32 (n2 >= 0 here)
             IN  IF nan >= NPS
                 THEN (IF secs + nan \div NPS > DMAX THEN PANIC ELSE Some(secs + nan \div NPS, nan % NPS))
                 ELSE Some(secs, nan)

\* impl TryFrom<Duration> for TimeSpec: tv_sec: d.as_secs().try_into()?, tv_nsec: d.subsec_nanos().into()
DurToTimeSpec(x) == IF x.s > SMAX THEN None ELSE Some(x.s, x.ns)

\* #[derive(Ord)] on TimeSpec(__kernel_timespec { tv_sec, tv_nsec }): lexicographic
CodeLeq(a, b) == a.s < b.s \/ (a.s = b.s /\ a.ns <= b.ns)

---------------------------------------------------------------------------
(* exhaustive comparison over the scaled domain *)
VARIABLES t, u, d
Times == [s : SMIN..SMAX, ns : 0..(NPS - 1)]
Durs  == [s : 0..DMAX, ns : 0..(NPS - 1)]
\* no predicate below relates u and d, so the space is all (t, u) pairs plus all (t, d) pairs
Init == /\ t \in Times
        /\ \/ u \in Times /\ d = [s |-> 0, ns |-> 0]
           \/ u = t /\ d \in Durs
Next == UNCHANGED <<t, u, d>>

NonNeg(x) == x.s >= 0
\* exactness, inside the statement's quantifier: time values at or after the epoch / boot
Exact ==
    /\ DurToTimeSpec(d) = D!ToTime(d)
    /\ NonNeg(t) => /\ CheckedAddDur(t, d) = D!AddDur(t, d)
                    /\ CheckedSubDur(t, d) = D!SubDur(t, d)
                    /\ SubTsDur(t, [s |-> 0, ns |-> 0]) = Some(t.s, t.ns)      \* duration_since_unix_time
    /\ (NonNeg(t) /\ NonNeg(u)) => /\ SubTsCheckedDur(t, u) = D!Diff(t, u)
                                   /\ CodeLeq(t, u) = D!Before(t, u)
                                   /\ D!Before(u, t) => SubTsDur(t, u) = D!Diff(t, u)    \* MonotonicInstant::elapsed
\* panic-freedom, also for SystemTime values with negative seconds
NoPanic ==
    /\ CheckedAddDur(t, d) # PANIC /\ CheckedSubDur(t, d) # PANIC
    /\ SubTsCheckedDur(t, u) # PANIC
    /\ SubTsDur(t, [s |-> 0, ns |-> 0]) # PANIC
\* the laws, on the definition and (through Exact) on the code
Laws ==
    /\ NonNeg(t) => D!LawAddSub(t, d) /\ D!LawSubAdd(t, d)
    /\ (NonNeg(t) /\ NonNeg(u)) => D!LawOrder(t, u)
\* results are normalised and in range
WellFormed(r, maxs) == r.some => r.ns >= 0 /\ r.ns < NPS /\ r.s >= 0 /\ r.s <= maxs
Normalised ==
    /\ NonNeg(t) => WellFormed(CheckedAddDur(t, d), SMAX) /\ WellFormed(CheckedSubDur(t, d), SMAX)
    /\ (NonNeg(t) /\ NonNeg(u)) => WellFormed(SubTsCheckedDur(t, u), DMAX)
=============================================================================
