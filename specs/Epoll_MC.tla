------------------------------ MODULE Epoll_MC ------------------------------
EXTENDS Epoll
K2 == [o \in {1, 2} |-> IF o = 1 THEN "sock" ELSE "pipe_r"]
K2b == [o \in {1, 2} |-> IF o = 1 THEN "sock" ELSE "pipe_w"]
K3 == [o \in {1, 2, 3} |-> IF o = 1 THEN "sock" ELSE IF o = 2 THEN "pipe_r" ELSE "pipe_w"]
MasksQ == {{"IN"}, {"IN", "ET"}, {"IN", "OUT"}, {"IN", "ONESHOT"}}
MasksT == {{"IN"}, {"OUT"}, {"IN", "ET"}, {"IN", "OUT"}, {"IN", "OUT", "ET"}, {"IN", "ONESHOT"}, {"IN", "RDHUP"}}
Data(o, g) == 10 * o + g
=============================================================================
