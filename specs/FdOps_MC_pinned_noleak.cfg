CONSTANT Progs <- Pinned
SPECIFICATION Spec
INVARIANTS NoLeak
CHECK_DEADLOCK FALSE
