CONSTANTS
  WORD = 8
  THRESHOLD = 16
  L = 32
  MaxN = 32
  Fns = {"memcpy", "memmove", "memset"}
  Fills = {0, 165, 421}
  WRAP = 65536
INIT Init
NEXT Next
INVARIANTS DoneCorrect WritesInside ReadsInside WordAligned HeadFits
