\* images as the kernel's link produces them: defined symbols only, values multiples of their section's alignment
CONSTANTS
  MaxSyms = 2
  Values = {0, 8, 16, 24}
  Shndxs = {1}
  TextAligns = {1, 8, 16}
  RequireAligned = TRUE
INIT Init
NEXT Next
INVARIANTS ResolutionAdmissible PinnedAdmissible FoundWhenPresent
CHECK_DEADLOCK FALSE
