CONSTANTS
  N = 2
  Progs <- A_WTR
  Ord <- OrdCode
  MaxSpur = 1
  MaxEintr = 1
  MaxWeak = 1
SPECIFICATION Spec
INVARIANTS TypeOK WriterExclusive RaceFree TryNeverBlocks NoLostWakeup AssertsHold WordAgrees Progress
PROPERTY Termination
CHECK_DEADLOCK FALSE
