----------------------------- MODULE IoHelpers -----------------------------
(***************************************************************************)
(* C15 - tiny_std::io Read/Write helpers are exact for any pattern of      *)
(* short transfers, EINTR and errors.                                      *)
(*                                                                         *)
(* PART 1 (property level): a reader / writer is a SCRIPT, a sequence of   *)
(* items [t, k]:                                                           *)
(*   reader: "c"   a chunk of k >= 1 bytes becomes available (a call gets  *)
(*                 min(k, requested); the remainder is delivered by the    *)
(*                 following calls before the next item is looked at)      *)
(*           "eof" the call returns Ok(0)                                  *)
(*           "eintr" the call fails with EINTR; k > 1: the next k calls do *)
(*           "err" the call fails with errno k (k # EINTR)                 *)
(*           an exhausted script means end of file.                        *)
(*   writer: "a"   the call accepts min(k, offered) bytes                  *)
(*           "zero" Ok(0);  "eintr";  "err" errno k                        *)
(*           an exhausted script accepts everything offered.               *)
(* `data` is the byte string the reader's chunks are cut from (the source  *)
(* stream) resp. the buffer handed to write_all.  The definitional         *)
(* operators say which OUTCOMES [err, n, buf, pos] the property statement  *)
(* admits (err: 0 = Ok, k > 0 = OS error k, NOCODE = an error without OS    *)
(* code; n = returned count; buf = final buffer / sink; pos = bytes taken  *)
(* from the reader).  Where the statement is silent (buffer contents after *)
(* an error) every reading is admitted; the error surfaced is always the   *)
(* scripted one (errno compared).                                          *)
(*                                                                         *)
(* PART 2 (algorithm level): a transcription of the code in                *)
(* tiny-std/src/io.rs + io/read_buf.rs as a state machine, one step per    *)
(* call of the user's read/write: default_read_to_end (reserve(32) when    *)
(* full, ReadBuf cursors, carried `initialized`, the exact-fit 32-byte     *)
(* probe, EINTR continue), append_to_string's guard, default_read_exact,   *)
(* Write::write_all, write_fmt (a write_all per formatted piece).  The     *)
(* capacity a (re)allocation yields is an environment choice               *)
(* (Grow / ProbeGrow).  TLC checks  Done => Correct  (transcription =>     *)
(* definition) and the memory-safety side conditions of the unsafe         *)
(* set_len / assume_init over all scripts of a bounded family.             *)
(***************************************************************************)
EXTENDS Integers, Sequences, FiniteSets

NOCODE == -1      \* error class: an Error without OS code (Uncategorized)

Min(a, b) == IF a < b THEN a ELSE b
Max(a, b) == IF a > b THEN a ELSE b
IsPrefix(p, s) == Len(p) <= Len(s) /\ \A i \in 1..Len(p) : p[i] = s[i]

---------------------------------------------------------------------------
(* UTF-8 well-formedness (Unicode 15 table 3-7), bytes = naturals 0..255 *)
Cont(c) == c >= 128 /\ c <= 191
RECURSIVE Utf8From(_, _)
Utf8From(b, i) ==
    IF i > Len(b) THEN TRUE
    ELSE LET c == b[i]
             n == Len(b)
             C1 == i + 1 <= n /\ Cont(b[i + 1])
             C2 == i + 2 <= n /\ Cont(b[i + 2])
             C3 == i + 3 <= n /\ Cont(b[i + 3])
         IN  IF c < 128 THEN Utf8From(b, i + 1)
             ELSE IF c >= 194 /\ c <= 223 THEN C1 /\ Utf8From(b, i + 2)
             ELSE IF c = 224 THEN i + 1 <= n /\ b[i + 1] >= 160 /\ b[i + 1] <= 191 /\ C2 /\ Utf8From(b, i + 3)
             ELSE IF (c >= 225 /\ c <= 236) \/ c = 238 \/ c = 239 THEN C1 /\ C2 /\ Utf8From(b, i + 3)
             ELSE IF c = 237 THEN i + 1 <= n /\ b[i + 1] >= 128 /\ b[i + 1] <= 159 /\ C2 /\ Utf8From(b, i + 3)
             ELSE IF c = 240 THEN i + 1 <= n /\ b[i + 1] >= 144 /\ b[i + 1] <= 191 /\ C2 /\ C3 /\ Utf8From(b, i + 4)
             ELSE IF c >= 241 /\ c <= 243 THEN C1 /\ C2 /\ C3 /\ Utf8From(b, i + 4)
             ELSE IF c = 244 THEN i + 1 <= n /\ b[i + 1] >= 128 /\ b[i + 1] <= 143 /\ C2 /\ C3 /\ Utf8From(b, i + 4)
             ELSE FALSE
IsUtf8(b) == Utf8From(b, 1)

---------------------------------------------------------------------------
(* PART 1: definitions *)
IsTerminal(it) == it.t = "eof" \/ it.t = "err"
\* index of the first terminal item (Len+1: the implicit end of file)
TermIdx(s) == IF \E i \in 1..Len(s) : IsTerminal(s[i])
              THEN CHOOSE i \in 1..Len(s) : IsTerminal(s[i]) /\ \A j \in 1..(i - 1) : ~IsTerminal(s[j])
              ELSE Len(s) + 1
Term(s) == IF TermIdx(s) > Len(s) THEN [t |-> "eof", k |-> 0] ELSE s[TermIdx(s)]
RECURSIVE ChunkSum(_, _)
ChunkSum(s, upto) == IF upto = 0 THEN 0
                     ELSE ChunkSum(s, upto - 1) + (IF s[upto].t = "c" THEN s[upto].k ELSE 0)
\* number of bytes the reader delivers before its first end-of-file / error
Avail(s) == ChunkSum(s, TermIdx(s) - 1)
\* all bytes the script can ever deliver
Total(s) == ChunkSum(s, Len(s))

\* read_to_end(init, reader): everything up to end of file appended, appended count returned;
\* another error is surfaced (what the buffer holds then: init plus some prefix of the data)
ReadToEndOK(o, init, data, s) ==
    LET a  == Avail(s)
        st == SubSeq(data, 1, a)
        tm == Term(s)
    IN  IF tm.t = "eof"
        THEN o.err = 0 /\ o.n = a /\ o.buf = init \o st
        ELSE o.err = tm.k /\ IsPrefix(init, o.buf) /\ IsPrefix(o.buf, init \o st)

\* read_to_string: as read_to_end when the appended bytes are UTF-8; otherwise an error and the
\* string unchanged.  The string is valid UTF-8 whatever happens (init is).
ReadToStringOK(o, init, data, s) ==
    LET a  == Avail(s)
        st == SubSeq(data, 1, a)
        tm == Term(s)
    IN  /\ IsUtf8(o.buf)
        /\ IF tm.t = "eof"
           THEN IF IsUtf8(st) THEN o.err = 0 /\ o.n = a /\ o.buf = init \o st
                              ELSE o.err # 0 /\ o.buf = init
           \* "surface any other error": the reader's own error, with its errno, whatever the bytes
           \* delivered so far look like (a split character, invalid bytes): the invalid-UTF-8 error
           \* is admissible only when the reader ended with end of file
           ELSE /\ o.err = tm.k
                /\ IsPrefix(init, o.buf) /\ IsPrefix(o.buf, init \o st)

\* read_exact(n): Ok and exactly the first n bytes, nothing more taken from the reader, if the
\* reader delivers n bytes before its end of file / error; else that error (end of file: an error)
ReadExactOK(o, n, data, s) ==
    LET a  == Avail(s)
        tm == Term(s)
    IN  IF a >= n
        THEN o.err = 0 /\ o.buf = SubSeq(data, 1, n) /\ o.pos = n
        ELSE IF tm.t = "eof" THEN o.err # 0 ELSE o.err = tm.k

\* write_all / write_fmt: `pieces` are the lengths of the slices handed to write_all one after
\* the other (write_all: one piece; write_fmt: one per formatted fragment).  Every byte once,
\* in order; Ok(0) from the writer is an error; the writer's error is returned.
RECURSIVE PieceEnd(_, _, _)
PieceEnd(pieces, i, off) ==      \* end offset of the first piece that ends after `off`
    IF i > Len(pieces) THEN off
    ELSE IF pieces[i] > off THEN pieces[i] ELSE PieceEnd(pieces, i + 1, off)
RECURSIVE Cumul(_, _)
Cumul(p, i) == IF i = 0 THEN <<>> ELSE
               LET c == Cumul(p, i - 1) IN Append(c, (IF i = 1 THEN 0 ELSE c[i - 1]) + p[i])
Ends(pieces) == Cumul(pieces, Len(pieces))
\* Ok(0) from the writer: the statement and tiny-std's docs do not say what write_all does
\* then.  Both readings are admitted: stop with an error (std's WriteZero; what the code does),
\* or try again (zeroStops = FALSE).
RECURSIVE WriteWalk(_, _, _, _, _, _)
WriteWalk(total, ends, s, off, i, zeroStops) ==
    IF off = total THEN [err |-> 0, off |-> off]
    ELSE IF i > Len(s) THEN [err |-> 0, off |-> total]
    ELSE LET it == s[i]
             offered == PieceEnd(ends, 1, off) - off
         IN  CASE it.t = "a"     -> WriteWalk(total, ends, s, off + Min(it.k, offered), i + 1, zeroStops)
               [] it.t = "zero"  -> IF zeroStops THEN [err |-> NOCODE, off |-> off]
                                    ELSE WriteWalk(total, ends, s, off, i + 1, zeroStops)
               [] it.t = "eintr" -> WriteWalk(total, ends, s, off, i + 1, zeroStops)
               [] it.t = "err"   -> [err |-> it.k, off |-> off]
\* ff = 1: a Display impl reports fmt::Error after the last fragment (write_fmt only): if the
\* writer took everything, write_fmt still fails, with an error that has no OS code.
WriteMatches(o, data, w, ff) ==
    /\ o.buf = SubSeq(data, 1, w.off)
    /\ IF w.err = NOCODE THEN o.err # 0
       ELSE IF w.err = 0 /\ ff = 1 THEN o.err = NOCODE
       ELSE o.err = w.err
WriteOK(o, data, pieces, s, ff) ==
    \/ WriteMatches(o, data, WriteWalk(Len(data), Ends(pieces), s, 0, 1, TRUE), ff)
    \/ WriteMatches(o, data, WriteWalk(Len(data), Ends(pieces), s, 0, 1, FALSE), ff)

\* The same, stated on a recorded call log only (independent of the walk above): what the
\* writer accepted, concatenated, is a prefix of the data, all of it iff Ok; an error is the
\* last response's error (or follows an Ok(0), or is the formatter's); nothing is offered after
\* an error.   calls: sequence of <<offered/requested, kind, n>>.
WriteLogOK(o, data, calls, ff) ==
    LET m == Len(calls)
        acc[i \in 0..m] == IF i = 0 THEN 0 ELSE acc[i - 1] + (IF calls[i][2] = "acc" THEN calls[i][3] ELSE 0)
    IN  /\ o.buf = SubSeq(data, 1, acc[m])
        /\ \A i \in 1..m : calls[i][2] = "err" => i = m
        /\ o.err = 0 <=> (acc[m] = Len(data) /\ ff = 0)
        /\ (m > 0 /\ calls[m][2] = "err") => o.err = calls[m][3]
        /\ o.err # 0 => (m > 0 /\ calls[m][2] \in {"err", "zero"}) \/ ff = 1

\* The print macros (unix/print.rs): print!/println!/eprint!/eprintln!/dbg! format into
\* __UnixWriter, whose write_str loops over write(2) on fd 1 / fd 2.  A recorded run r: len = bytes of the formatted text, rlen = how
\* many the descriptor received, mismatch = first position where they differ from the text (-1:
\* none), ln = the macro ends its output with a newline (println!, eprintln!, dbg!), nl = a
\* newline did follow, ok = 1/0 result of the direct fmt::Write::write_fmt
\* call, 2 = macro (result discarded), signals = signals sent while writing (a write(2) can only
\* fail or come back short if one arrived).  Every byte at most once and in order; all of them
\* unless an error was (or, for the macros, may have been) returned.
PrintOK(r) ==
    /\ r.stray = 0           \* nothing on the other standard descriptor
    /\ r.mismatch = -1 /\ r.rlen <= r.len
    /\ r.ok = 1 => r.rlen = r.len
    /\ r.signals = 0 => /\ r.rlen = r.len /\ r.ok # 0
                        /\ r.ln => r.nl
    /\ ~r.ln => ~r.nl

\* The helpers on a tiny_std File over a kernel pipe whose peer moves the bytes in arbitrary
\* pieces while signals interrupt the caller (real short transfers, real EINTR; no other error is
\* possible): the call succeeds, every byte arrives once and in order, the count is the length.
PipeOK(r) == r.ok = 1 /\ r.mismatch = -1 /\ r.rlen = r.len /\ r.count = r.len

\* The helpers on every CONCRETE implementor of Read / Write in the library (File, UnixStream,
\* TcpStream, AnonPipe; harness/src/bin/ioimpls.rs), so that an implementor's own override of a
\* helper is what runs.  plan = 0: the run must succeed and move exactly the expected bytes (count
\* = their number); plan = 1: a planned error (peer gone with the payload not fitting its buffers,
\* read_exact beyond what is there) must be returned; plan = 2: either.  Never a panic; no answer
\* within the (generous) limit is a hang, which no outcome of the definitions above admits.
ImplOK(r) ==
    /\ r.panic = "" /\ r.hang = 0
    /\ CASE r.plan = 0 -> r.ok = 1 /\ r.mismatch = -1 /\ r.rlen = r.len /\ r.count = r.len
         [] r.plan = 1 -> r.ok = 0
         [] r.plan = 2 -> TRUE

---------------------------------------------------------------------------
(* PART 2: the transcription *)
CONSTANTS Grow(_, _),        \* Grow(len, cap): capacities Vec::reserve(32) may yield for a full vector
          ProbeGrow(_, _)    \* ProbeGrow(cap, n): capacities after extend_from_slice of n bytes onto a full vector

VARIABLES
    case,    \* [op, script, data, init, cap0, n, pieces, ff] - fixed during a behaviour
    pc,      \* "top" | "probe" | "ret" | "xloop" | "xend" | "wloop" | "done"
    vec,     \* contents of the Vec<u8> / String (reads), of the destination slice prefix
             \* (read_exact), of the writer's sink (writes)
    cap,     \* capacity of the Vec
    initd,   \* `initialized`: bytes carried over as "initialized but not filled"
    truly,   \* ghost: spare bytes (beyond len) that really are initialised
    ri, left, pos, term,  \* scripted reader/writer: next item, rest of the current chunk,
                          \* bytes delivered/accepted so far, terminal response given
    off,     \* read_exact / write_all progress
    ret,     \* [err, n]: value returned by default_read_to_end, then by the operation
    calls,   \* history: <<requested/offered length, kind, n>> per call of read()/write()
    bad,     \* transcription-level assertions that failed (set of strings)
    acts     \* history: which branches of the transcription this behaviour took (coverage)
vars == <<case, pc, vec, cap, initd, truly, ri, left, pos, term, off, ret, calls, bad, acts>>

script == case.script
data   == case.data
startLen == Len(case.init)
startCap == case.cap0

ReadOps  == {"read_to_end", "read_to_string", "read_exact"}
WriteOps == {"write_all", "write_fmt"}

InitFor(c) ==
    /\ case = c
    /\ pc = CASE c.op \in {"read_to_end", "read_to_string"} -> "top"
              [] c.op = "read_exact" -> "xloop"
              [] c.op \in WriteOps -> "wloop"
    /\ vec = IF c.op \in {"read_to_end", "read_to_string"} THEN c.init ELSE <<>>
    /\ cap = c.cap0
    /\ initd = 0 /\ truly = 0
    /\ ri = 1 /\ left = 0 /\ pos = 0 /\ term = FALSE
    /\ off = 0
    /\ ret = [err |-> 0, n |-> 0]
    /\ calls = <<>>
    /\ bad = {}
    /\ acts = {}

\* the scripted reader: response to a read of `req` bytes
Resp(req) ==
    IF req = 0 THEN [kind |-> "zreq", n |-> 0, ri |-> ri, left |-> left, term |-> term]
    ELSE IF term THEN [kind |-> "after", n |-> 0, ri |-> ri, left |-> left, term |-> term]
    ELSE IF left > 0 THEN [kind |-> "data", n |-> Min(left, req), ri |-> ri, left |-> left - Min(left, req), term |-> FALSE]
    ELSE IF ri > Len(script) THEN [kind |-> "eof", n |-> 0, ri |-> ri, left |-> 0, term |-> TRUE]
    ELSE LET it == script[ri] IN
         CASE it.t = "c"     -> [kind |-> "data", n |-> Min(it.k, req), ri |-> ri + 1, left |-> it.k - Min(it.k, req), term |-> FALSE]
           [] it.t = "eof"   -> [kind |-> "eof", n |-> 0, ri |-> ri + 1, left |-> 0, term |-> TRUE]
           \* a run of it.k (at least 1) consecutive EINTRs: the code's state does not change while it
           \* retries, so the whole run is one step and one log entry <<req, "eintr", run length>>
           [] it.t = "eintr" -> [kind |-> "eintr", n |-> IF it.k > 1 THEN it.k ELSE 1, ri |-> ri + 1, left |-> 0, term |-> FALSE]
           [] it.t = "err"   -> [kind |-> "err", n |-> it.k, ri |-> ri + 1, left |-> 0, term |-> TRUE]
\* the scripted writer: response to a write of `m` > 0 bytes
WResp(m) ==
    IF term THEN [kind |-> "after", n |-> 0, ri |-> ri, term |-> term]
    ELSE IF ri > Len(script) THEN [kind |-> "acc", n |-> m, ri |-> ri, term |-> FALSE]
    ELSE LET it == script[ri] IN
         CASE it.t = "a"     -> [kind |-> "acc", n |-> Min(it.k, m), ri |-> ri + 1, term |-> FALSE]
           [] it.t = "zero"  -> [kind |-> "zero", n |-> 0, ri |-> ri + 1, term |-> FALSE]
           [] it.t = "eintr" -> [kind |-> "eintr", n |-> IF it.k > 1 THEN it.k ELSE 1, ri |-> ri + 1, term |-> FALSE]
           [] it.t = "err"   -> [kind |-> "err", n |-> it.k, ri |-> ri + 1, term |-> TRUE]

Log(req, r) == calls' = Append(calls, <<req, r.kind, r.n>>)
Did(tags) == acts' = acts \cup tags
Flags(req, r) == (IF req = 0 THEN {"zero_length_request"} ELSE {})
                 \cup (IF r.kind = "after" THEN {"call_after_terminal"} ELSE {})
Bytes(n) == SubSeq(data, pos + 1, pos + n)

\* default_read_to_end: one iteration of the outer loop up to and including the read
ReadStep ==
    /\ pc = "top"
    /\ LET len == Len(vec) IN
       \E cap1 \in (IF len = cap THEN Grow(len, cap) ELSE {cap}) :
         LET spare   == cap1 - len                            \* buf.spare_capacity_mut().len()
             trulyA  == IF len = cap THEN 0 ELSE truly        \* a fresh allocation: nothing known
             rbInit0 == Max(0, 0 + initd)                      \* ReadBuf::uninit + assume_init(initialized)
             extra   == rbInit0 - 0                            \* initialize_unfilled_to(remaining())
             rbInit1 == IF spare > extra THEN Max(rbInit0, 0 + spare) ELSE rbInit0
             req     == spare
             r       == Resp(req)
             f0      == Flags(req, r)
                        \cup (IF initd > trulyA THEN {"assume_init_of_uninitialised_bytes"} ELSE {})
                        \cup (IF rbInit0 > spare THEN {"initialized_beyond_capacity"} ELSE {})
         IN  /\ cap' = cap1
             /\ Did({"read:" \o r.kind} \cup (IF len = cap THEN {"read:reserve"} ELSE {})
                    \cup (IF initd > 0 THEN {"read:carried_init"} ELSE {})
                    \cup (IF r.kind = "data" /\ len + r.n = cap1 /\ cap1 = startCap THEN {"read:exact_fit"} ELSE {}))
             /\ Log(req, r)
             /\ ri' = r.ri /\ left' = r.left /\ term' = r.term
             /\ UNCHANGED <<case, off>>
             /\ CASE r.kind = "data" ->
                       \* add_filled(n); initialized = init - filled; set_len(filled + len)
                       /\ vec' = vec \o Bytes(r.n)
                       /\ pos' = pos + r.n
                       /\ initd' = rbInit1 - r.n
                       /\ truly' = spare - r.n
                       /\ bad' = bad \cup f0
                                 \cup (IF r.n > rbInit1 THEN {"filled_beyond_initialized"} ELSE {})
                                 \cup (IF len + r.n > cap1 THEN {"set_len_beyond_capacity"} ELSE {})
                       /\ pc' = IF len + r.n = cap1 /\ cap1 = startCap THEN "probe" ELSE "top"
                       /\ UNCHANGED ret
                  [] r.kind \in {"eof", "zreq", "after"} ->
                       \* filled_len() == 0: return Ok(buf.len() - start_len)
                       /\ ret' = [err |-> 0, n |-> len - startLen]
                       /\ pc' = "ret"
                       /\ truly' = spare
                       /\ bad' = bad \cup f0
                       /\ UNCHANGED <<vec, pos, initd>>
                  [] r.kind = "eintr" ->
                       \* continue: `initialized` keeps its value, the reservation stays
                       /\ pc' = "top"
                       /\ truly' = spare
                       /\ bad' = bad \cup f0
                       /\ UNCHANGED <<vec, pos, initd, ret>>
                  [] r.kind = "err" ->
                       /\ ret' = [err |-> r.n, n |-> 0]
                       /\ pc' = "ret"
                       /\ truly' = spare
                       /\ bad' = bad \cup f0
                       /\ UNCHANGED <<vec, pos, initd>>

\* the exact-fit probe: read into a 32-byte stack buffer
ProbeStep ==
    /\ pc = "probe"
    /\ LET r == Resp(32) IN
       /\ Did({"probe:" \o r.kind})
       /\ Log(32, r)
       /\ ri' = r.ri /\ left' = r.left /\ term' = r.term
       /\ UNCHANGED <<case, off, initd>>
       /\ CASE r.kind = "data" ->
                 \* buf.extend_from_slice(&probe[..n]); break
                 /\ \E c2 \in ProbeGrow(cap, r.n) : cap' = c2
                 /\ vec' = vec \o Bytes(r.n)
                 /\ pos' = pos + r.n
                 /\ truly' = 0
                 /\ pc' = "top"
                 /\ bad' = bad \cup Flags(32, r)
                 /\ UNCHANGED ret
            [] r.kind \in {"eof", "after"} ->
                 /\ ret' = [err |-> 0, n |-> Len(vec) - startLen]
                 /\ pc' = "ret"
                 /\ bad' = bad \cup Flags(32, r)
                 /\ UNCHANGED <<vec, pos, cap, truly>>
            [] r.kind = "eintr" ->
                 /\ pc' = "probe"
                 /\ bad' = bad \cup Flags(32, r)
                 /\ UNCHANGED <<vec, pos, cap, truly, ret>>
            [] r.kind = "err" ->
                 /\ ret' = [err |-> r.n, n |-> 0]
                 /\ pc' = "ret"
                 /\ bad' = bad \cup Flags(32, r)
                 /\ UNCHANGED <<vec, pos, cap, truly>>

\* return of default_read_to_end; for read_to_string the Guard of append_to_string
Return ==
    /\ pc = "ret"
    /\ pc' = "done"
    /\ UNCHANGED <<case, cap, initd, truly, ri, left, pos, term, off, calls, bad>>
    /\ IF case.op = "read_to_string" /\ ~IsUtf8(SubSeq(vec, startLen + 1, Len(vec)))
       THEN \* ret.and_then(|_| Err(..)); Guard::drop sets the length back to the old one
            /\ ret' = IF ret.err = 0 THEN [err |-> NOCODE, n |-> 0] ELSE ret
            /\ vec' = SubSeq(vec, 1, startLen)
            /\ Did({IF ret.err = 0 THEN "guard:invalid_utf8" ELSE "guard:invalid_utf8_and_error"})
       ELSE /\ UNCHANGED <<ret, vec>>
            /\ Did(IF case.op = "read_to_string" THEN {"guard:valid_utf8"} ELSE {"return"})

\* default_read_exact
ExactStep ==
    /\ pc = "xloop"
    /\ off < case.n                       \* while !buf.is_empty()
    /\ LET req == case.n - off
           r   == Resp(req) IN
       /\ Did({"exact:" \o r.kind})
       /\ Log(req, r)
       /\ ri' = r.ri /\ left' = r.left /\ term' = r.term
       /\ bad' = bad \cup Flags(req, r)
       /\ UNCHANGED <<case, cap, initd, truly>>
       /\ CASE r.kind = "data" ->
                 /\ vec' = vec \o Bytes(r.n) /\ pos' = pos + r.n /\ off' = off + r.n
                 /\ UNCHANGED <<pc, ret>>
            [] r.kind \in {"eof", "after", "zreq"} ->      \* Ok(0) => break
                 /\ pc' = "xend" /\ UNCHANGED <<vec, pos, off, ret>>
            [] r.kind = "eintr" -> UNCHANGED <<vec, pos, off, pc, ret>>
            [] r.kind = "err" ->
                 /\ ret' = [err |-> r.n, n |-> 0] /\ pc' = "done"
                 /\ UNCHANGED <<vec, pos, off>>
ExactEnd ==
    /\ (pc = "xloop" /\ off = case.n) \/ pc = "xend"
    /\ ret' = IF off = case.n THEN [err |-> 0, n |-> 0] ELSE [err |-> NOCODE, n |-> 0]
    /\ pc' = "done"
    /\ Did({IF off = case.n THEN "exact:filled" ELSE "exact:unexpected_eof"})
    /\ UNCHANGED <<case, vec, cap, initd, truly, ri, left, pos, term, off, calls, bad>>

\* Write::write_all, once per piece (write_fmt: Adapter::write_str per fragment)
WriteStep ==
    /\ pc = "wloop"
    /\ off < Len(data)
    /\ LET pend == PieceEnd(Ends(case.pieces), 1, off)
           m    == pend - off
           r    == WResp(m) IN
       /\ Did({"write:" \o r.kind} \cup (IF r.kind = "acc" /\ r.n < m THEN {"write:short"} ELSE {}))
       /\ Log(m, r)
       /\ ri' = r.ri /\ term' = r.term
       /\ bad' = bad \cup Flags(m, r)
       /\ UNCHANGED <<case, cap, initd, truly, left>>
       /\ CASE r.kind = "acc" ->
                 /\ vec' = vec \o SubSeq(data, off + 1, off + r.n)
                 /\ off' = off + r.n /\ pos' = pos + r.n
                 /\ UNCHANGED <<pc, ret>>
            [] r.kind \in {"zero", "after"} ->
                 /\ ret' = [err |-> NOCODE, n |-> 0] /\ pc' = "done"
                 /\ UNCHANGED <<vec, off, pos>>
            [] r.kind = "eintr" -> UNCHANGED <<vec, off, pos, pc, ret>>
            [] r.kind = "err" ->
                 /\ ret' = [err |-> r.n, n |-> 0] /\ pc' = "done"
                 /\ UNCHANGED <<vec, off, pos>>
WriteEnd ==
    /\ pc = "wloop" /\ off = Len(data)
    /\ pc' = "done"
    \* fmt::write failed although no I/O error was saved: Err(Error::no_code("formatter error"))
    /\ ret' = IF case.ff = 1 THEN [err |-> NOCODE, n |-> 0] ELSE ret
    /\ Did({IF case.ff = 1 THEN "write:formatter_error" ELSE "write:complete"})
    /\ UNCHANGED <<case, vec, cap, initd, truly, ri, left, pos, term, off, calls, bad>>

Next == ReadStep \/ ProbeStep \/ Return \/ ExactStep \/ ExactEnd \/ WriteStep \/ WriteEnd

---------------------------------------------------------------------------
(* what TLC checks on the transcription *)
Outcome == [err |-> ret.err, n |-> ret.n, buf |-> vec, pos |-> pos]

Correct ==
    pc = "done" =>
        CASE case.op = "read_to_end"    -> ReadToEndOK(Outcome, case.init, data, script)
          [] case.op = "read_to_string" -> ReadToStringOK(Outcome, case.init, data, script)
          [] case.op = "read_exact"     -> ReadExactOK(Outcome, case.n, data, script)
          [] case.op \in WriteOps       -> /\ WriteOK(Outcome, data, case.pieces, script, case.ff)
                                           /\ WriteLogOK(Outcome, data, calls, case.ff)

\* filled <= initialized <= capacity, set_len within initialised bytes, no zero-length
\* request, nothing after end of file / an error
NoBad == bad = {}
\* the carried `initialized` never claims more than what really is initialised, and that
\* never exceeds the spare capacity
CarrySound == pc \in {"top", "probe"} => initd <= truly /\ truly <= cap - Len(vec) /\ Len(vec) <= cap
\* the probe is entered only with a full vector of unchanged capacity
ProbeOnlyExactFit == pc = "probe" => Len(vec) = cap /\ cap = startCap /\ initd = 0
\* termination: every behaviour ends in "done" (checked as: no deadlock elsewhere)
Stuck == pc # "done" /\ ~ENABLED Next
NotStuck == ~Stuck
=============================================================================
