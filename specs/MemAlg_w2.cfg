CONSTANTS
  WORD = 2
  THRESHOLD = 4
  L = 14
  MaxN = 14
  Fns = {"memcpy", "memmove", "memset"}
  Fills = {0, 165, 421}
  WRAP = 65536
SPECIFICATION Spec
INVARIANTS DoneCorrect WritesInside ReadsInside WordAligned HeadFits
PROPERTY Terminates
