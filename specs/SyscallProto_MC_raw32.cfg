CONSTANTS
  RawDom <- Dom
  Idiom = "raw32"
  MaxIssues = 3
SPECIFICATION Spec
INVARIANTS TypeOK ReturnConforms LimitConforms
CHECK_DEADLOCK FALSE
