----------------------------- MODULE Reloc_MC -----------------------------
(* Bounded domains for Reloc.tla.                                                            *)
EXTENDS Reloc
W == 0..3
Infos == {8, 6}      \* R_X86_64_RELATIVE, R_X86_64_GLOB_DAT (must be left alone)
\* entry k of a table gets the addend 10 + k (distinct: a swapped or shifted entry shows)
RelaSeqs(maxn) == UNION { { [k \in 1..n |-> [off |-> o[k], info |-> f[k], addend |-> 10 + k]] : o \in [1..n -> W], f \in [1..n -> Infos] } : n \in 0..maxn }
RelSeqs(maxn) == UNION { { [k \in 1..n |-> [off |-> o[k], info |-> f[k]]] : o \in [1..n -> W], f \in [1..n -> Infos] } : n \in 0..maxn }
Rela3 == RelaSeqs(3)
Rela2 == RelaSeqs(2)
Rel1 == RelSeqs(1)
Rel2 == RelSeqs(2)
\* PT_PHDR / PT_LOAD first, PT_DYNAMIC second or later (what link editors emit); vaddr of PT_DYNAMIC = DYNVADDR
PhdrsOk == { << [type |-> 6, vaddr |-> 64], [type |-> 1, vaddr |-> 0], [type |-> 2, vaddr |-> 200], [type |-> 4, vaddr |-> 90] >>,
             << [type |-> 1, vaddr |-> 0], [type |-> 2, vaddr |-> 200] >>,
             << [type |-> 1, vaddr |-> 0], [type |-> 1, vaddr |-> 4096], [type |-> 1685382481, vaddr |-> 0], [type |-> 2, vaddr |-> 200] >> }
\* PT_DYNAMIC as the FIRST program header: the walk starts at the second one and never sees it
PhdrsDynFirst == { << [type |-> 2, vaddr |-> 200], [type |-> 1, vaddr |-> 0] >> }
=============================================================================
