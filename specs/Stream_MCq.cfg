CONSTANTS
  Cap = 1
  MaxBytes = 2
  MaxClock = 1
  Timeouts = {1}
SPECIFICATION FairSpec
INVARIANTS TypeOK PrefixInv AllDeliveredAtEof TimeoutNotEarly EofOnlyAfterAll TryNeverBlocks
PROPERTIES ReadCompletes AcceptCompletes WriteCompletes
CHECK_DEADLOCK FALSE
