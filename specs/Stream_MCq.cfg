CONSTANTS
  Cap = 1
  MaxBytes = 2
  MaxClock = 1
  Timeouts = {1}
SPECIFICATION FairSpec
INVARIANTS TypeOK PrefixInv AllDeliveredAtEof TimeoutNotEarly EofOnlyAfterAll TryNeverBlocks CtorUniform
PROPERTIES ReadCompletes AcceptCompletes WriteCompletes TimedCallsReturn
CHECK_DEADLOCK FALSE
