CONSTANTS
  Cap = 1
  MaxBytes = 2
  MaxClock = 1
  Timeouts = {0, 1}
  MaxIntr = 2
  IntrMode = "remainder"
SPECIFICATION FairSpec
INVARIANTS TypeOK PrefixInv AllDeliveredAtEof TimeoutNotEarly EofOnlyAfterAll TryNeverBlocks CtorUniform LegsAddUp
PROPERTIES ReadCompletes AcceptCompletes WriteCompletes TimedCallsReturn
CHECK_DEADLOCK FALSE
