CONSTANTS
  RawDom <- Dom
  Idiom = "bail_val32"
  MaxIssues = 3
SPECIFICATION Spec
INVARIANTS TypeOK ReturnConforms LimitConforms
CHECK_DEADLOCK FALSE
