CONSTANTS
  Sigs = {"TERM", "CHLD"}
  Hids = {1}
  Threads = {0}
  MaxRaise = 3
  SelfBlock = TRUE
SPECIFICATION Spec
INVARIANTS TypeOK
PROPERTIES EventuallyTaken EventuallyBack DeadIsFinal
CHECK_DEADLOCK FALSE
