-------------------------------- MODULE Vdso --------------------------------
(* C07 - finding clock_gettime in the vDSO (tiny-std/src/elf/vdso.rs).                       *)
(*                                                                                           *)
(* An image: section headers (name, alignment), the index of the section-name table          *)
(* (e_shstrndx), the bytes of .dynstr, the entries of .dynsym ([name: offset into .dynstr,    *)
(* value, shndx]).                                                                            *)
(*                                                                                           *)
(* PROPERTY LEVEL.  DefAddrs(img, name) = the values of the DEFINED dynamic symbols whose     *)
(* name - the NUL-terminated string at their name offset - is `name` (what the ELF symbol     *)
(* table says, however it is searched).  A resolution is admissible iff it is "not found"     *)
(* (then tiny-std uses the system call: the clause "when used" does not apply) or one of      *)
(* these values.                                                                              *)
(*                                                                                           *)
(* ALGORITHM LEVEL.  The walk of find_vdso_clock_get_time as coded: bail if e_shstrndx = 0;   *)
(* scan the section headers for ".dynstr" (then walk its strings one after the other from     *)
(* offset 1 for the wanted name - a name is only found where a string STARTS) and ".dynsym",  *)
(* stop when both are known; walk .dynsym for the first entry whose name offset is the one    *)
(* found; result = align(value, alignment of the section the symbol lies in) with             *)
(* align(x, a) = x + (a - x % a) % a  - the value ROUNDED UP to the section alignment.        *)
(*                                                                                           *)
(* TLC enumerates bounded images and checks the resolution admissible.  For the walk AS FOUND  *)
(* (ResolvePinned) it exhibits the rounding on the whole domain - a symbol value that is not a *)
(* multiple of its section's alignment is resolved to another address (Vdso_any_pinned.cfg,    *)
(* confirmed on the real function with variants of the kernel's own vDSO image and repaired in *)
(* /repo) - and holds only on images whose symbols happen to be aligned (Vdso_aligned.cfg);    *)
(* the repaired walk (Resolve) holds on the whole domain (Vdso_any.cfg).                       *)
(* VdsoJudge.tla applies both levels to the REAL vDSO of the probes and to image variants.     *)
EXTENDS Integers, Sequences, FiniteSets

NotFound == -1
\* ---- property level ------------------------------------------------------------------------
RECURSIVE StrAt(_, _)
StrAt(bytes, off) ==      \* the string starting at 0-based offset off (up to, excluding, the next NUL)
    IF off >= Len(bytes) \/ bytes[off + 1] = 0 THEN <<>> ELSE <<bytes[off + 1]>> \o StrAt(bytes, off + 1)
Defined(s) == s.shndx # 0
DefAddrs(img, name) ==
    {img.dynsym[k].value : k \in {j \in 1..Len(img.dynsym) :
                                    /\ Defined(img.dynsym[j])
                                    /\ img.dynsym[j].name < Len(img.dynstr)
                                    /\ StrAt(img.dynstr, img.dynsym[j].name) = name}}
Admissible(img, name) == {NotFound} \cup DefAddrs(img, name)

\* ---- algorithm level -----------------------------------------------------------------------
Panicked == -2         \* remainder by zero: Rust panics
Align(x, a) == IF a = 0 THEN Panicked ELSE x + ((a - (x % a)) % a)
\* find_dynstr_st_name_offset_of: offset = 1; while offset < sh_size { s = string at offset;
\*     if s == name return offset; offset += s.len() (with its NUL) }
RECURSIVE FindName(_, _, _)
FindName(bytes, name, off) ==
    IF off >= Len(bytes) THEN NotFound
    ELSE IF StrAt(bytes, off) = name THEN off
    ELSE FindName(bytes, name, off + Len(StrAt(bytes, off)) + 1)
\* find_dynsym_ptr_of_name_offset: the FIRST entry with that name offset
FirstSym(syms, nameoff) ==
    LET J == {j \in 1..Len(syms) : syms[j].name = nameoff}
    IN IF J = {} THEN 0 ELSE CHOOSE j \in J : \A i \in J : j <= i
\* the section-header loop: `if name == .dynstr { offset = find.. } else if name == .dynsym { syms = Some }`
\* and `if both known break`.  -> <<name offset or NotFound, dynsym seen>> (k: 1-based section index)
DYNSTR == <<46, 100, 121, 110, 115, 116, 114>>      \* ".dynstr"
DYNSYM == <<46, 100, 121, 110, 115, 121, 109>>      \* ".dynsym"
RECURSIVE Scan(_, _, _, _, _)
Scan(img, name, k, off, seen) ==
    IF k > Len(img.sections) \/ (seen /\ off # NotFound) THEN <<off, seen>>
    ELSE IF img.sections[k].name = DYNSTR THEN Scan(img, name, k + 1, FindName(img.dynstr, name, 1), seen)
    ELSE IF img.sections[k].name = DYNSYM THEN Scan(img, name, k + 1, off, TRUE)
    ELSE Scan(img, name, k + 1, off, seen)
\* rounded = TRUE: the walk as found in the pinned tree (value rounded up to the section alignment);
\* rounded = FALSE: after the repair (the symbol value itself)
ResolveV(img, name, rounded) ==
    IF img.shstrndx = 0 THEN NotFound
    ELSE LET sc == Scan(img, name, 1, NotFound, FALSE)
         IN IF ~sc[2] \/ sc[1] = NotFound THEN NotFound
            ELSE LET j == FirstSym(img.dynsym, sc[1])
                 IN IF j = 0 THEN NotFound
                    ELSE IF ~rounded THEN img.dynsym[j].value
                    ELSE IF img.dynsym[j].shndx + 1 \notin DOMAIN img.sections THEN Panicked   \* (SHN_ABS..: reads a header that is not there)
                    ELSE Align(img.dynsym[j].value, img.sections[img.dynsym[j].shndx + 1].align)
Resolve(img, name) == ResolveV(img, name, FALSE)
ResolvePinned(img, name) == ResolveV(img, name, TRUE)

Multiple(x, a) == a # 0 /\ x % a = 0
\* the images on which rounding cannot bite: every defined symbol's value is a multiple of the alignment of
\* the section it lies in
SymbolsAligned(img) ==
    \A j \in 1..Len(img.dynsym) :
        (Defined(img.dynsym[j]) /\ img.dynsym[j].shndx + 1 \in DOMAIN img.sections) => Multiple(img.dynsym[j].value, img.sections[img.dynsym[j].shndx + 1].align)
=============================================================================
