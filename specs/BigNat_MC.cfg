CONSTANTS
  XMAX = 3000
INIT Init
NEXT Next
INVARIANT Check
CHECK_DEADLOCK FALSE
