------------------------------- MODULE RwLock -------------------------------
(* Algorithm-level specification of tiny_std::sync::RwLock (tiny-std/src/sync/rwlock.rs,    *)
(* futex_wait_fast in tiny-std/src/sync.rs).  Property C02.                                 *)
(*                                                                                          *)
(* One action per atomic operation / futex call as the code is written; decisions on a      *)
(* value just read are folded into the action that read it.  The state word is modelled as  *)
(* an integer with SCALED constants (the instrument logs the real word scaled the same      *)
(* way):  READ_LOCKED = 1, MASK = WRITE_LOCKED = 7 (real 2^30-1), MAX_READERS = 6,          *)
(* READERS_WAITING = 8 (real bit 30), WRITERS_WAITING = 16 (real bit 31); the code's        *)
(* arithmetic (state + READ_LOCKED, fetch_sub(WRITE_LOCKED), state | WRITE_LOCKED | other)  *)
(* is modelled literally.  writer_notify is a counter; two futex queues (on the state word  *)
(* and on writer_notify).  Spin loops return the value of one read.                         *)
(* Environment, budgeted per thread: spurious FUTEX_WAIT return, EINTR, spurious failure of *)
(* compare_exchange_weak (the ...Spur actions); which writer a wake picks is a parameter.   *)
(* The two debug_assert!s and the assert!(is_unlocked) of the code are the flag assertBad.  *)
(*                                                                                          *)
(* Programs: "R" read, "W" write, "TR" try_read, "TW" try_write, "A" access through the     *)
(* guard (read under a read guard, read-modify-write under a write guard), "U" drop.        *)
(*                                                                                          *)
(* Payload access rule assumed by this model (type-level obligations, checked statically   *)
(* against the real crate, table in SyncTrace.tla): AccessRead steps of several threads     *)
(* interleave freely while read guards coexist - the model treats concurrent reads as       *)
(* harmless, which is true only for a payload that is Sync.  Hence RwLock<T>: Sync needs    *)
(* T: Send + Sync (RwLock<Cell<_>> must NOT be Sync), RwLock<T>: Send needs T: Send; the    *)
(* guards are never Send (dropped by the acquiring thread) and Sync only if T: Sync.        *)
(* Same as std::sync.                                                                       *)
EXTENDS Machine, TLC

CONSTANTS N, Progs, Ord, MaxSpur, MaxEintr, MaxWeak

Threads == 1..N
RL == 1
WL == 7
MAXR == 6
RW == 8
WW == 16
cnt(s) == s % 8
rw(s) == (s \div 8) % 2 = 1
ww(s) == (s \div 16) % 2 = 1
Unlocked(s) == cnt(s) = 0
WriteLocked(s) == cnt(s) = WL
Lockable(s) == cnt(s) < MAXR /\ ~rw(s) /\ ~ww(s)
OrRW(s) == IF rw(s) THEN s ELSE s + RW
OrWW(s) == IF ww(s) THEN s ELSE s + WW

AR == <<"Acquire", "Relaxed">>
RR == <<"Relaxed", "Relaxed">>
OrdCode == [ ReadLoad |-> RR, ReadCasWeak |-> AR, SpinLoad |-> RR, RcCasWeak |-> AR, RcSetRw |-> RR,
             WaitFastLoad |-> RR, ReadUnlockFetchSub |-> <<"Release", "Relaxed">>,
             WriteCasWeak |-> AR, WcCasWeak |-> AR, WcSetWw |-> RR, WcLoadSeq |-> AR, WcReloadState |-> RR,
             WriteUnlockFetchSub |-> <<"Release", "Relaxed">>,
             KCasWritersOnly |-> RR, KCasBoth |-> RR, KCasReadersOnly |-> RR,
             KwFetchAdd |-> <<"Release", "Relaxed">>,
             TryReadLoad |-> RR, TryReadCasWeak |-> AR, TryWriteLoad |-> RR, TryWriteCasWeak |-> AR ]

VARIABLES state, notify,        \* the two atomic words
          pc, prog,
          st,                   \* local `state` of read/read_contended/write_contended/try_*
          oww,                  \* local other_writers_waiting (0 or WW)
          seq,                  \* local seq (writer_notify sample)
          wst,                  \* local state of wake_writer_or_readers
          qs, qn,               \* parked on the state word / on writer_notify
          readers, writers,     \* threads holding a read / write guard
          knows, pub, lastW, reads, acc, race,   \* happens-before bookkeeping (Machine.tla)
          assertBad,            \* a debug_assert!/assert! of the code failed
          spur, eintr, weak

vars == <<state, notify, pc, prog, st, oww, seq, wst, qs, qn, readers, writers,
          knows, pub, lastW, reads, acc, race, assertBad, spur, eintr, weak>>

Init ==
    /\ state = 0 /\ notify = 0
    /\ pc = [t \in Threads |-> "idle"]
    /\ prog = Progs
    /\ st = [t \in Threads |-> 0] /\ oww = [t \in Threads |-> 0]
    /\ seq = [t \in Threads |-> 0] /\ wst = [t \in Threads |-> 0]
    /\ qs = {} /\ qn = {} /\ readers = {} /\ writers = {}
    /\ knows = [t \in Threads |-> {}] /\ pub = [s |-> {}, n |-> {}]
    /\ lastW = 0 /\ reads = {} /\ acc = 0 /\ race = FALSE /\ assertBad = FALSE
    /\ spur = [t \in Threads |-> 0] /\ eintr = [t \in Threads |-> 0] /\ weak = [t \in Threads |-> 0]

Op(t) == IF prog[t] = <<>> THEN "-" ELSE Head(prog[t])
Pop(t) == prog' = [prog EXCEPT ![t] = Tail(@)]
Goto(t, l) == pc' = [pc EXCEPT ![t] = l]
SetSt(t, v) == st' = [st EXCEPT ![t] = v]
SkipSection(s) ==
    LET i == CHOOSE i \in 1..(Len(s) + 1) :
                 /\ (i = Len(s) + 1 \/ s[i] = "U")
                 /\ \A j \in 1..(i - 1) : s[j] # "U"
    IN  SubSeq(s, i + 1, Len(s))

\* ---- memory operations with happens-before bookkeeping
RmwS(t, site, new) ==
    /\ state' = new
    /\ LET k == Import(knows[t], Ord[site][1], pub.s) IN
        /\ knows' = [knows EXCEPT ![t] = k]
        /\ pub' = [pub EXCEPT !.s = PubRmw(@, Ord[site][1], k)]
ReadS(t, site, i) ==
    /\ knows' = [knows EXCEPT ![t] = Import(@, Ord[site][i], pub.s)]
    /\ UNCHANGED <<state, pub>>
RmwN(t, site, new) ==
    /\ notify' = new
    /\ LET k == Import(knows[t], Ord[site][1], pub.n) IN
        /\ knows' = [knows EXCEPT ![t] = k]
        /\ pub' = [pub EXCEPT !.n = PubRmw(@, Ord[site][1], k)]
ReadN(t, site) ==
    /\ knows' = [knows EXCEPT ![t] = Import(@, Ord[site][1], pub.n)]
    /\ UNCHANGED <<notify, pub>>
GotR(t) == readers' = readers \cup {t} /\ UNCHANGED writers
GotW(t) == writers' = writers \cup {t} /\ UNCHANGED readers
NoGuard == UNCHANGED <<readers, writers>>
NoData == UNCHANGED <<lastW, reads, acc, race>>
NoEnv == UNCHANGED <<spur, eintr, weak>>
\* The pinned code computed `is_unlocked(s).then_some(s + WRITE_LOCKED)` (and the analogous try_read
\* expression) EAGERLY: the sum is evaluated even when the lock is not admissible and overflows u32
\* (a panic in builds with overflow checks) for state words with both waiting bits and a holder.
\* Found by this check and fixed in /repo (lazy evaluation); EagerTryAdd <- TRUE models the old code.
\* The scaled constants preserve the carry structure: real overflow <=> scaled sum >= 32.
EagerTryAdd == FALSE
TryOverflows(s, add) == EagerTryAdd /\ s + add >= 32
\* NotifyDistinct: the model represents writer_notify as a COUNTER, i.e. every wake_writer moves the
\* word to a value different from every value a current sampler (seq[t] of a writer between its
\* sample and its FUTEX_WAIT) holds.  A toggle (fetch_xor 1) does not have that property: an even
\* number of notifications inside one sample->wait window restores the sampled value (ABA) and
\* the writer sleeps on a free lock.  NotifyToggle <- TRUE models such an implementation; the check
\* uses its counterexample as a directed schedule for the real code.
NotifyToggle == FALSE
NotifyStep(n) == IF NotifyToggle THEN 1 - n ELSE n + 1
Spurious(t) == weak[t] < MaxWeak /\ weak' = [weak EXCEPT ![t] = @ + 1] /\ UNCHANGED <<spur, eintr>>

\* =========================== read() ===========================
\* let state = self.state.load(Relaxed); if !is_read_lockable(state) || cas_weak(..).is_err() { read_contended() }
ReadLoad(t) ==
    /\ pc[t] = "idle" /\ Op(t) = "R"
    /\ Pop(t)
    /\ ReadS(t, "ReadLoad", 1)
    /\ SetSt(t, state)
    /\ Goto(t, IF Lockable(state) THEN "r_cas" ELSE "rc_spin")
    /\ UNCHANGED <<notify, oww, seq, wst, qs, qn, assertBad>> /\ NoGuard /\ NoData /\ NoEnv
ReadCasWeak(t) ==
    /\ pc[t] = "r_cas"
    /\ IF state = st[t]
       THEN RmwS(t, "ReadCasWeak", state + RL) /\ GotR(t) /\ Goto(t, "idle")
       ELSE ReadS(t, "ReadCasWeak", 2) /\ NoGuard /\ Goto(t, "rc_spin")
    /\ UNCHANGED <<notify, prog, st, oww, seq, wst, qs, qn, assertBad>> /\ NoData /\ NoEnv
ReadCasWeakSpur(t) ==
    /\ pc[t] = "r_cas" /\ state = st[t] /\ Spurious(t)
    /\ ReadS(t, "ReadCasWeak", 2) /\ Goto(t, "rc_spin")
    /\ UNCHANGED <<notify, prog, st, oww, seq, wst, qs, qn, assertBad>> /\ NoGuard /\ NoData

\* =========================== read_contended() ===========================
RcTop(v) == IF Lockable(v) THEN "rc_cas" ELSE IF ~rw(v) THEN "rc_setrw" ELSE "rc_wfload"
\* state = self.spin_read()
RcSpinLoad(t) ==
    /\ pc[t] = "rc_spin"
    /\ ReadS(t, "SpinLoad", 1)
    /\ SetSt(t, state)
    /\ Goto(t, RcTop(state))
    /\ UNCHANGED <<notify, prog, oww, seq, wst, qs, qn, assertBad>> /\ NoGuard /\ NoData /\ NoEnv
\* if is_read_lockable(state) { cas_weak(state, state + READ_LOCKED, Acquire, Relaxed) }
RcCasWeak(t) ==
    /\ pc[t] = "rc_cas"
    /\ IF state = st[t]
       THEN RmwS(t, "RcCasWeak", state + RL) /\ GotR(t) /\ Goto(t, "idle") /\ UNCHANGED st
       ELSE ReadS(t, "RcCasWeak", 2) /\ NoGuard /\ SetSt(t, state) /\ Goto(t, RcTop(state))
    /\ UNCHANGED <<notify, prog, oww, seq, wst, qs, qn, assertBad>> /\ NoData /\ NoEnv
RcCasWeakSpur(t) ==
    /\ pc[t] = "rc_cas" /\ state = st[t] /\ Spurious(t)
    /\ ReadS(t, "RcCasWeak", 2)
    /\ UNCHANGED <<notify, pc, prog, st, oww, seq, wst, qs, qn, assertBad>> /\ NoGuard /\ NoData
\* if !has_readers_waiting(state) { compare_exchange(state, state | READERS_WAITING, Relaxed, Relaxed) }
RcSetRw(t) ==
    /\ pc[t] = "rc_setrw"
    /\ IF state = st[t]
       THEN RmwS(t, "RcSetRw", state + RW) /\ Goto(t, "rc_wfload") /\ UNCHANGED st
       ELSE ReadS(t, "RcSetRw", 2) /\ SetSt(t, state) /\ Goto(t, RcTop(state))
    /\ UNCHANGED <<notify, prog, oww, seq, wst, qs, qn, assertBad>> /\ NoGuard /\ NoData /\ NoEnv
\* futex_wait_fast(&self.state, state | READERS_WAITING)
RcWaitFastLoad(t) ==
    /\ pc[t] = "rc_wfload"
    /\ ReadS(t, "WaitFastLoad", 1)
    /\ Goto(t, IF state # OrRW(st[t]) THEN "rc_spin" ELSE "rc_fwait")
    /\ UNCHANGED <<notify, prog, st, oww, seq, wst, qs, qn, assertBad>> /\ NoGuard /\ NoData /\ NoEnv
RcFutexWait(t) ==
    /\ pc[t] = "rc_fwait"
    /\ IF state = OrRW(st[t])
       THEN qs' = qs \cup {t} /\ Goto(t, "rc_parked")
       ELSE Goto(t, "rc_spin") /\ UNCHANGED qs
    /\ UNCHANGED <<state, notify, prog, st, oww, seq, wst, qn, knows, pub, assertBad>> /\ NoGuard /\ NoData /\ NoEnv

\* =========================== wake_writer_or_readers(state) ===========================
KEntry(v) == IF v = WW THEN "k_cas_w" ELSE IF v = RW + WW THEN "k_cas_b" ELSE IF v = RW THEN "k_cas_r" ELSE "idle"
KAfterW(v) == IF v = RW + WW THEN "k_cas_b" ELSE IF v = RW THEN "k_cas_r" ELSE "idle"

\* =========================== read_unlock() ===========================
\* let state = fetch_sub(READ_LOCKED, Release) - READ_LOCKED; debug_assert!(..);
\* if is_unlocked(state) && has_writers_waiting(state) { wake_writer_or_readers(state) }
ReadUnlockFetchSub(t) ==
    /\ pc[t] = "idle" /\ Op(t) = "U" /\ t \in readers
    /\ Pop(t)
    /\ LET s == state - RL IN
        /\ RmwS(t, "ReadUnlockFetchSub", s)
        /\ assertBad' = (assertBad \/ (rw(s) /\ ~ww(s)))
        /\ IF Unlocked(s) /\ ww(s)
           THEN wst' = [wst EXCEPT ![t] = s] /\ Goto(t, KEntry(s))
           ELSE UNCHANGED <<wst, pc>>
    /\ readers' = readers \ {t} /\ UNCHANGED writers
    /\ UNCHANGED <<notify, st, oww, seq, qs, qn>> /\ NoData /\ NoEnv

\* =========================== write() ===========================
WriteCasWeak(t) ==
    /\ pc[t] = "idle" /\ Op(t) = "W"
    /\ Pop(t)
    /\ IF state = 0
       THEN RmwS(t, "WriteCasWeak", WL) /\ GotW(t) /\ UNCHANGED pc
       ELSE ReadS(t, "WriteCasWeak", 2) /\ NoGuard /\ Goto(t, "wc_spin")
    /\ oww' = [oww EXCEPT ![t] = 0]
    /\ UNCHANGED <<notify, st, seq, wst, qs, qn, assertBad>> /\ NoData /\ NoEnv
WriteCasWeakSpur(t) ==
    /\ pc[t] = "idle" /\ Op(t) = "W" /\ state = 0 /\ Spurious(t)
    /\ Pop(t)
    /\ ReadS(t, "WriteCasWeak", 2) /\ Goto(t, "wc_spin")
    /\ oww' = [oww EXCEPT ![t] = 0]
    /\ UNCHANGED <<notify, st, seq, wst, qs, qn, assertBad>> /\ NoGuard /\ NoData

\* =========================== write_contended() ===========================
WcTop(v) == IF Unlocked(v) THEN "wc_cas" ELSE IF ~ww(v) THEN "wc_setww" ELSE "wc_seq"
\* state = self.spin_write()
WcSpinLoad(t) ==
    /\ pc[t] = "wc_spin"
    /\ ReadS(t, "SpinLoad", 1)
    /\ SetSt(t, state)
    /\ Goto(t, WcTop(state))
    /\ UNCHANGED <<notify, prog, oww, seq, wst, qs, qn, assertBad>> /\ NoGuard /\ NoData /\ NoEnv
\* if is_unlocked(state) { cas_weak(state, state | WRITE_LOCKED | other_writers_waiting, Acquire, Relaxed) }
WcNew(t) == IF oww[t] = WW THEN OrWW(st[t] + WL) ELSE st[t] + WL
WcCasWeak(t) ==
    /\ pc[t] = "wc_cas"
    /\ IF state = st[t]
       THEN RmwS(t, "WcCasWeak", WcNew(t)) /\ GotW(t) /\ Goto(t, "idle") /\ UNCHANGED st
       ELSE ReadS(t, "WcCasWeak", 2) /\ NoGuard /\ SetSt(t, state) /\ Goto(t, WcTop(state))
    /\ UNCHANGED <<notify, prog, oww, seq, wst, qs, qn, assertBad>> /\ NoData /\ NoEnv
WcCasWeakSpur(t) ==
    /\ pc[t] = "wc_cas" /\ state = st[t] /\ Spurious(t)
    /\ ReadS(t, "WcCasWeak", 2)
    /\ UNCHANGED <<notify, pc, prog, st, oww, seq, wst, qs, qn, assertBad>> /\ NoGuard /\ NoData
\* if !has_writers_waiting(state) { compare_exchange(state, state | WRITERS_WAITING, Relaxed, Relaxed) }
WcSetWw(t) ==
    /\ pc[t] = "wc_setww"
    /\ IF state = st[t]
       THEN RmwS(t, "WcSetWw", state + WW) /\ Goto(t, "wc_seq") /\ UNCHANGED st
       ELSE ReadS(t, "WcSetWw", 2) /\ SetSt(t, state) /\ Goto(t, WcTop(state))
    /\ UNCHANGED <<notify, prog, oww, seq, wst, qs, qn, assertBad>> /\ NoGuard /\ NoData /\ NoEnv
\* other_writers_waiting = WRITERS_WAITING; let seq = self.writer_notify.load(Acquire);
WcLoadSeq(t) ==
    /\ pc[t] = "wc_seq"
    /\ ReadN(t, "WcLoadSeq")
    /\ oww' = [oww EXCEPT ![t] = WW]
    /\ seq' = [seq EXCEPT ![t] = notify]
    /\ Goto(t, "wc_reload")
    /\ UNCHANGED <<state, prog, st, wst, qs, qn, assertBad>> /\ NoGuard /\ NoData /\ NoEnv
\* state = self.state.load(Relaxed); if is_unlocked(state) || !has_writers_waiting(state) { continue }
WcReloadState(t) ==
    /\ pc[t] = "wc_reload"
    /\ ReadS(t, "WcReloadState", 1)
    /\ SetSt(t, state)
    /\ Goto(t, IF Unlocked(state) \/ ~ww(state) THEN WcTop(state) ELSE "wc_wfload")
    /\ UNCHANGED <<notify, prog, oww, seq, wst, qs, qn, assertBad>> /\ NoGuard /\ NoData /\ NoEnv
\* futex_wait_fast(&self.writer_notify, seq)
WcWaitFastLoad(t) ==
    /\ pc[t] = "wc_wfload"
    /\ ReadN(t, "WaitFastLoad")
    /\ Goto(t, IF notify # seq[t] THEN "wc_spin" ELSE "wc_fwait")
    /\ UNCHANGED <<state, prog, st, oww, seq, wst, qs, qn, assertBad>> /\ NoGuard /\ NoData /\ NoEnv
WcFutexWait(t) ==
    /\ pc[t] = "wc_fwait"
    /\ IF notify = seq[t]
       THEN qn' = qn \cup {t} /\ Goto(t, "wc_parked")
       ELSE Goto(t, "wc_spin") /\ UNCHANGED qn
    /\ UNCHANGED <<state, notify, prog, st, oww, seq, wst, qs, knows, pub, assertBad>> /\ NoGuard /\ NoData /\ NoEnv

\* =========================== write_unlock() ===========================
\* let state = fetch_sub(WRITE_LOCKED, Release) - WRITE_LOCKED; debug_assert!(is_unlocked(state));
\* if has_writers_waiting(state) || has_readers_waiting(state) { wake_writer_or_readers(state) }
WriteUnlockFetchSub(t) ==
    /\ pc[t] = "idle" /\ Op(t) = "U" /\ t \in writers
    /\ Pop(t)
    /\ LET s == state - WL IN
        /\ RmwS(t, "WriteUnlockFetchSub", s)
        /\ assertBad' = (assertBad \/ ~Unlocked(s))
        /\ IF ww(s) \/ rw(s)
           THEN wst' = [wst EXCEPT ![t] = s] /\ Goto(t, KEntry(s))
           ELSE UNCHANGED <<wst, pc>>
    /\ writers' = writers \ {t} /\ UNCHANGED readers
    /\ UNCHANGED <<notify, st, oww, seq, qs, qn>> /\ NoData /\ NoEnv

\* =========================== wake_writer_or_readers ===========================
\* if state == WRITERS_WAITING { match compare_exchange(state, 0, Relaxed, Relaxed) { Ok => { wake_writer(); return } Err(s) => state = s } }
KCasWritersOnly(t) ==
    /\ pc[t] = "k_cas_w"
    /\ IF state = wst[t]
       THEN RmwS(t, "KCasWritersOnly", 0) /\ Goto(t, "kw_add_a") /\ UNCHANGED wst
       ELSE ReadS(t, "KCasWritersOnly", 2) /\ wst' = [wst EXCEPT ![t] = state] /\ Goto(t, KAfterW(state))
    /\ UNCHANGED <<notify, prog, st, oww, seq, qs, qn, assertBad>> /\ NoGuard /\ NoData /\ NoEnv
\* if state == READERS_WAITING + WRITERS_WAITING { if compare_exchange(state, READERS_WAITING, ..).is_err() { return }
\*   if self.wake_writer() { return }  state = READERS_WAITING }
KCasBoth(t) ==
    /\ pc[t] = "k_cas_b"
    /\ IF state = wst[t]
       THEN RmwS(t, "KCasBoth", RW) /\ Goto(t, "kw_add_b")
       ELSE ReadS(t, "KCasBoth", 2) /\ Goto(t, "idle")
    /\ UNCHANGED <<notify, prog, st, oww, seq, wst, qs, qn, assertBad>> /\ NoGuard /\ NoData /\ NoEnv
\* wake_writer(): self.writer_notify.fetch_add(1, Release);
KwFetchAdd(t) ==
    /\ pc[t] \in {"kw_add_a", "kw_add_b"}
    /\ RmwN(t, "KwFetchAdd", NotifyStep(notify))
    /\ Goto(t, IF pc[t] = "kw_add_a" THEN "kw_wake_a" ELSE "kw_wake_b")
    /\ UNCHANGED <<state, prog, st, oww, seq, wst, qs, qn, assertBad>> /\ NoGuard /\ NoData /\ NoEnv
\* futex_wake(&self.writer_notify, 1).unwrap() != 0
KwWakeOne(t, w) ==
    /\ pc[t] \in {"kw_wake_a", "kw_wake_b"} /\ w \in qn
    /\ qn' = qn \ {w}
    /\ pc' = [pc EXCEPT ![t] = "idle", ![w] = "wc_spin"]
    /\ UNCHANGED <<state, notify, prog, st, oww, seq, wst, qs, knows, pub, assertBad>> /\ NoGuard /\ NoData /\ NoEnv
\* nobody parked: after the writers-only hand-off just return, after the both-waiting hand-off
\* fall back to waking the readers (state = READERS_WAITING)
KwWakeNone(t) ==
    /\ pc[t] \in {"kw_wake_a", "kw_wake_b"} /\ qn = {}
    /\ IF pc[t] = "kw_wake_a"
       THEN Goto(t, "idle") /\ UNCHANGED wst
       ELSE Goto(t, "k_cas_r") /\ wst' = [wst EXCEPT ![t] = RW]
    /\ UNCHANGED <<state, notify, prog, st, oww, seq, qs, qn, knows, pub, assertBad>> /\ NoGuard /\ NoData /\ NoEnv
\* if state == READERS_WAITING && compare_exchange(state, 0, Relaxed, Relaxed).is_ok() { futex_wake(&self.state, i32::MAX) }
KCasReadersOnly(t) ==
    /\ pc[t] = "k_cas_r"
    /\ IF state = wst[t]
       THEN RmwS(t, "KCasReadersOnly", 0) /\ Goto(t, "k_wakeall")
       ELSE ReadS(t, "KCasReadersOnly", 2) /\ Goto(t, "idle")
    /\ UNCHANGED <<notify, prog, st, oww, seq, wst, qs, qn, assertBad>> /\ NoGuard /\ NoData /\ NoEnv
KWakeAllReaders(t) ==
    /\ pc[t] = "k_wakeall"
    /\ qs' = {}
    /\ pc' = [u \in Threads |-> IF u = t THEN "idle" ELSE IF u \in qs THEN "rc_spin" ELSE pc[u]]
    /\ UNCHANGED <<state, notify, prog, st, oww, seq, wst, qn, knows, pub, assertBad>> /\ NoGuard /\ NoData /\ NoEnv

\* =========================== try_read() / try_write(): fetch_update loops ===========================
TryReadLoad(t) ==
    /\ pc[t] = "idle" /\ Op(t) = "TR"
    /\ ReadS(t, "TryReadLoad", 1)
    /\ SetSt(t, state)
    /\ IF Lockable(state)
       THEN Pop(t) /\ Goto(t, "tr_cas")
       ELSE prog' = [prog EXCEPT ![t] = SkipSection(Tail(@))] /\ UNCHANGED pc
    /\ assertBad' = (assertBad \/ TryOverflows(state, RL))
    /\ UNCHANGED <<notify, oww, seq, wst, qs, qn>> /\ NoGuard /\ NoData /\ NoEnv
TryFail(t) == prog' = [prog EXCEPT ![t] = SkipSection(@)] /\ Goto(t, "idle")
TryReadCasWeak(t) ==
    /\ pc[t] = "tr_cas"
    /\ IF state = st[t]
       THEN RmwS(t, "TryReadCasWeak", state + RL) /\ GotR(t) /\ Goto(t, "idle") /\ UNCHANGED <<st, prog, assertBad>>
       ELSE /\ ReadS(t, "TryReadCasWeak", 2) /\ NoGuard /\ SetSt(t, state)
            /\ IF Lockable(state) THEN UNCHANGED <<pc, prog>> ELSE TryFail(t)
            /\ assertBad' = (assertBad \/ TryOverflows(state, RL))
    /\ UNCHANGED <<notify, oww, seq, wst, qs, qn>> /\ NoData /\ NoEnv
TryReadCasWeakSpur(t) ==
    /\ pc[t] = "tr_cas" /\ state = st[t] /\ Spurious(t)
    /\ ReadS(t, "TryReadCasWeak", 2)
    /\ UNCHANGED <<notify, pc, prog, st, oww, seq, wst, qs, qn, assertBad>> /\ NoGuard /\ NoData
TryWriteLoad(t) ==
    /\ pc[t] = "idle" /\ Op(t) = "TW"
    /\ ReadS(t, "TryWriteLoad", 1)
    /\ SetSt(t, state)
    /\ IF Unlocked(state)
       THEN Pop(t) /\ Goto(t, "tw_cas")
       ELSE prog' = [prog EXCEPT ![t] = SkipSection(Tail(@))] /\ UNCHANGED pc
    /\ assertBad' = (assertBad \/ TryOverflows(state, WL))
    /\ UNCHANGED <<notify, oww, seq, wst, qs, qn>> /\ NoGuard /\ NoData /\ NoEnv
TryWriteCasWeak(t) ==
    /\ pc[t] = "tw_cas"
    /\ IF state = st[t]
       THEN RmwS(t, "TryWriteCasWeak", state + WL) /\ GotW(t) /\ Goto(t, "idle") /\ UNCHANGED <<st, prog, assertBad>>
       ELSE /\ ReadS(t, "TryWriteCasWeak", 2) /\ NoGuard /\ SetSt(t, state)
            /\ IF Unlocked(state) THEN UNCHANGED <<pc, prog>> ELSE TryFail(t)
            /\ assertBad' = (assertBad \/ TryOverflows(state, WL))
    /\ UNCHANGED <<notify, oww, seq, wst, qs, qn>> /\ NoData /\ NoEnv
TryWriteCasWeakSpur(t) ==
    /\ pc[t] = "tw_cas" /\ state = st[t] /\ Spurious(t)
    /\ ReadS(t, "TryWriteCasWeak", 2)
    /\ UNCHANGED <<notify, pc, prog, st, oww, seq, wst, qs, qn, assertBad>> /\ NoGuard /\ NoData

\* =========================== data access through the guard ===========================
AccessWrite(t) ==
    /\ pc[t] = "idle" /\ Op(t) = "A" /\ t \in writers
    /\ Pop(t)
    /\ race' = (race \/ WriteRaces(knows[t], lastW, reads))
    /\ acc' = acc + 1 /\ lastW' = acc + 1 /\ reads' = {}
    /\ knows' = [u \in Threads |-> IF u = t THEN {acc + 1} ELSE {}]
    /\ pub' = [s |-> {}, n |-> {}]
    /\ UNCHANGED <<state, notify, pc, st, oww, seq, wst, qs, qn, assertBad>> /\ NoGuard /\ NoEnv
AccessRead(t) ==
    /\ pc[t] = "idle" /\ Op(t) = "A" /\ t \in readers
    /\ Pop(t)
    /\ race' = (race \/ ReadRaces(knows[t], lastW))
    /\ acc' = acc + 1 /\ reads' = reads \cup {acc + 1}
    /\ knows' = [knows EXCEPT ![t] = @ \cup {acc + 1}]
    /\ UNCHANGED <<state, notify, pc, st, oww, seq, wst, qs, qn, pub, lastW, assertBad>> /\ NoGuard /\ NoEnv

\* =========================== environment ===========================
SpuriousWake(t) ==
    /\ pc[t] \in {"rc_parked", "wc_parked"} /\ spur[t] < MaxSpur
    /\ spur' = [spur EXCEPT ![t] = @ + 1]
    /\ IF pc[t] = "rc_parked"
       THEN qs' = qs \ {t} /\ Goto(t, "rc_spin") /\ UNCHANGED qn
       ELSE qn' = qn \ {t} /\ Goto(t, "wc_spin") /\ UNCHANGED qs
    /\ UNCHANGED <<state, notify, prog, st, oww, seq, wst, knows, pub, assertBad, eintr, weak>> /\ NoGuard /\ NoData
Eintr(t) ==
    /\ pc[t] \in {"rc_parked", "wc_parked"} /\ eintr[t] < MaxEintr
    /\ eintr' = [eintr EXCEPT ![t] = @ + 1]
    /\ IF pc[t] = "rc_parked"
       THEN qs' = qs \ {t} /\ Goto(t, "rc_wfload") /\ UNCHANGED qn
       ELSE qn' = qn \ {t} /\ Goto(t, "wc_wfload") /\ UNCHANGED qs
    /\ UNCHANGED <<state, notify, prog, st, oww, seq, wst, knows, pub, assertBad, spur, weak>> /\ NoGuard /\ NoData

ThreadStep(t) ==
    \/ ReadLoad(t) \/ ReadCasWeak(t) \/ RcSpinLoad(t) \/ RcCasWeak(t) \/ RcSetRw(t) \/ RcWaitFastLoad(t) \/ RcFutexWait(t)
    \/ ReadUnlockFetchSub(t)
    \/ WriteCasWeak(t) \/ WcSpinLoad(t) \/ WcCasWeak(t) \/ WcSetWw(t) \/ WcLoadSeq(t) \/ WcReloadState(t)
    \/ WcWaitFastLoad(t) \/ WcFutexWait(t) \/ WriteUnlockFetchSub(t)
    \/ KCasWritersOnly(t) \/ KCasBoth(t) \/ KwFetchAdd(t) \/ KwWakeNone(t) \/ KCasReadersOnly(t) \/ KWakeAllReaders(t)
    \/ (\E w \in Threads : KwWakeOne(t, w))
    \/ TryReadLoad(t) \/ TryReadCasWeak(t) \/ TryWriteLoad(t) \/ TryWriteCasWeak(t)
    \/ AccessWrite(t) \/ AccessRead(t)
EnvStep(t) ==
    \/ SpuriousWake(t) \/ Eintr(t)
    \/ ReadCasWeakSpur(t) \/ RcCasWeakSpur(t) \/ WriteCasWeakSpur(t) \/ WcCasWeakSpur(t)
    \/ TryReadCasWeakSpur(t) \/ TryWriteCasWeakSpur(t)
Next == \E t \in Threads : ThreadStep(t) \/ EnvStep(t)
Spec == Init /\ [][Next]_vars /\ \A t \in Threads : WF_vars(ThreadStep(t))

Done(t) == pc[t] = "idle" /\ prog[t] = <<>>
AllDone == \A t \in Threads : Done(t)
Parked(t) == pc[t] \in {"rc_parked", "wc_parked"}

\* ---- property level (C02)
WriterExclusive == Cardinality(writers) <= 1 /\ (writers # {} => readers = {})
RaceFree == ~race
TryNeverBlocks == \A t \in Threads : pc[t] \in {"tr_cas", "tw_cas"} => t \notin (qs \cup qn)
NoLostWakeup == (\A t \in Threads : Done(t) \/ Parked(t)) => AllDone
Termination == <>[]AllDone

\* ---- algorithm level
TypeOK ==
    /\ state \in 0..31 /\ notify \in Nat
    /\ qs = {t \in Threads : pc[t] = "rc_parked"}
    /\ qn = {t \in Threads : pc[t] = "wc_parked"}
AssertsHold == ~assertBad
WordAgrees == /\ (WriteLocked(state) <=> writers # {})
              /\ (~WriteLocked(state) => cnt(state) = Cardinality(readers))
Progress == \A t \in Threads : (~Done(t) /\ ~Parked(t)) => ENABLED ThreadStep(t)
=============================================================================
