CONSTANTS
  MaxFds = 0
  MaxC = 0
  Variant = "fixed"
  Deltas = "none"
INIT Init
NEXT Next
CHECK_DEADLOCK FALSE
