------------------------------ MODULE FdTable ------------------------------
(* C12 - descriptor ownership across one public operation (property level).                 *)
(*                                                                                          *)
(* The process has a descriptor table `open`.  A window brackets one operation of the       *)
(* library:  Begin (the caller may pass ownership of some open descriptors: `owned`),       *)
(* kernel actions caused by the operation (Create: the kernel hands out fresh descriptors;  *)
(* Replace: dup2/dup3 onto a chosen number; Close), Return (the operation gives the caller  *)
(* a result, ok or err, that owns the descriptors `handed`), then the caller drops the      *)
(* result (more Close actions) and the window Ends.                                         *)
(*                                                                                          *)
(* The property ("the table changes only by what is handed to the caller; nothing opened    *)
(* stays open on failure; never closes a descriptor it does not own nor the same twice") is *)
(* recorded in `bad`, the set of obligations broken so far:                                 *)
(*   DoubleClose   a close of a number that is not open                                     *)
(*   ForeignClose  a close / replacement of a descriptor that was open before the window    *)
(*                 and not passed in as owned (nor created by the operation since)          *)
(*   Leak          at Return or at End a descriptor is open that is neither from before the *)
(*                 window nor owned by the returned value                                   *)
(*   HandedClosed  the returned value claims a descriptor that is not open                  *)
(*   HandedOnError an error result that owns descriptors                                    *)
(*   HandedForeign the returned value claims a descriptor of the caller's that was not      *)
(*                 passed in as owned (dropping the value would close it)                   *)
(*   NotConsumed   a descriptor passed in as owned is still open after the window and was   *)
(*                 not handed back (by-value arguments are released on every path)          *)
(* The specification constrains nothing: every behaviour of an arbitrary operation is a     *)
(* behaviour of Spec; the property is  [](bad = {}).  FdTable_MC.cfg explores it on a small  *)
(* universe, FdTableTrace.tla replays recorded windows of the real code through it.          *)
EXTENDS Integers, FiniteSets, Sequences

CONSTANT Fds          \* universe of descriptor numbers
VARIABLES open,       \* the process's descriptor table
          pre,        \* the table at Begin
          owned,      \* descriptors whose ownership the caller passed in
          mine,       \* descriptors the operation (later: the returned value) currently owns
          phase,      \* "idle" | "op" | "returned" | "done"
          result,     \* "none" | "ok" | "err"
          handed,     \* descriptors the returned value owns
          exact,      \* is `handed` complete (the API exposes every descriptor of the value)?
          bad         \* broken obligations

vars == <<open, pre, owned, mine, phase, result, handed, exact, bad>>

Init == /\ open \in SUBSET Fds
        /\ pre = {} /\ owned = {} /\ mine = {}
        /\ phase = "idle" /\ result = "none" /\ handed = {} /\ exact = TRUE /\ bad = {}

Begin(o) ==
    /\ phase \in {"idle", "done"}
    /\ o \subseteq open
    /\ pre' = open /\ owned' = o /\ mine' = o
    /\ phase' = "op" /\ result' = "none" /\ handed' = {} /\ exact' = TRUE /\ bad' = {}
    /\ UNCHANGED open

\* the kernel hands out descriptors that were not open
Create(S) ==
    /\ phase = "op"
    /\ S # {} /\ S \subseteq Fds \ open
    /\ open' = open \cup S /\ mine' = mine \cup S
    /\ UNCHANGED <<pre, owned, phase, result, handed, exact, bad>>

\* dup2/dup3(x, fd): fd now refers to a new description; whatever it referred to is closed
Replace(fd) ==
    /\ phase = "op"
    /\ fd \in Fds
    /\ bad' = bad \cup (IF fd \in open /\ fd \notin mine THEN {"ForeignClose"} ELSE {})
    /\ open' = open \cup {fd} /\ mine' = mine \cup {fd}
    /\ UNCHANGED <<pre, owned, phase, result, handed, exact>>

Close(fd) ==
    /\ phase \in {"op", "returned"}
    /\ fd \in Fds
    /\ bad' = bad \cup (IF fd \notin open THEN {"DoubleClose"}
                        ELSE IF fd \notin mine THEN {"ForeignClose"} ELSE {})
    /\ open' = open \ {fd} /\ mine' = mine \ {fd}
    /\ UNCHANGED <<pre, owned, phase, result, handed, exact>>

\* what the table must look like when the operation returns
Expected(res, H) == (pre \ owned) \cup (IF res = "ok" THEN H ELSE {})

Return(res, H, ex) ==
    /\ phase = "op"
    /\ res \in {"ok", "err"} /\ H \subseteq Fds
    /\ result' = res /\ handed' = H /\ exact' = ex /\ phase' = "returned"
    /\ bad' = bad
          \cup (IF res = "err" /\ H # {} THEN {"HandedOnError"} ELSE {})
          \cup (IF H \ open # {} THEN {"HandedClosed"} ELSE {})
          \cup (IF H \cap (pre \ owned) # {} THEN {"HandedForeign"} ELSE {})
          \* with a complete `handed` everything else the operation opened must be closed by now
          \cup (IF (ex \/ res = "err") /\ (open \ Expected(res, H)) \ owned # {} THEN {"Leak"} ELSE {})
          \cup (IF res = "err" /\ (open \cap owned) # {} THEN {"NotConsumed"} ELSE {})
    /\ mine' = (IF ex THEN H \cup (mine \cap owned \cap open) ELSE mine) \ (pre \ owned)
    /\ UNCHANGED <<open, pre, owned>>

\* the caller has dropped the returned value
End ==
    /\ phase = "returned"
    /\ phase' = "done"
    /\ bad' = bad
          \cup (IF (open \ pre) # {} THEN {"Leak"} ELSE {})
          \cup (IF (open \cap owned) # {} THEN {"NotConsumed"} ELSE {})
    /\ UNCHANGED <<open, pre, owned, mine, result, handed, exact>>

Next == \/ \E o \in SUBSET open : Begin(o)
        \/ \E S \in SUBSET Fds : Create(S)
        \/ \E fd \in Fds : Replace(fd) \/ Close(fd)
        \/ \E res \in {"ok", "err"}, H \in SUBSET Fds, ex \in BOOLEAN : Return(res, H, ex)
        \/ End
Spec == Init /\ [][Next]_vars

Kinds == {"DoubleClose", "ForeignClose", "Leak", "HandedClosed", "HandedOnError", "HandedForeign", "NotConsumed"}
TypeOK == /\ open \subseteq Fds /\ pre \subseteq Fds /\ owned \subseteq pre /\ mine \subseteq Fds
          /\ phase \in {"idle", "op", "returned", "done"} /\ bad \subseteq Kinds

(* ---------------------------------------------------------------------------------------- *)
(* A disciplined operation: closes only what it owns, returns owning exactly what it still  *)
(* holds (nothing on error), and the caller's drop closes exactly what was handed over.     *)
(* TLC checks that discipline implies the property (DisciplineSafe) and that a window that  *)
(* ends without a broken obligation really restored the table (EndRestores) - on the        *)
(* unconstrained Spec, i.e. for every operation whatsoever.                                  *)
DBegin(o)  == Begin(o)
DCreate(S) == Create(S)
DClose(fd) == fd \in mine /\ fd \in open /\ Close(fd)
DReturn(res) ==
    /\ (res = "err" => mine = {})
    /\ Return(res, mine, TRUE)
DEnd == mine = {} /\ End
DNext == \/ \E o \in SUBSET open : DBegin(o)
         \/ \E S \in SUBSET Fds : DCreate(S)
         \/ \E fd \in Fds : DClose(fd)
         \/ \E res \in {"ok", "err"} : DReturn(res)
         \/ DEnd
DSpec == Init /\ [][DNext]_vars
DisciplineSafe == bad = {}

\* for every operation: no broken obligation at the end of the window => the table is back
\* to what it was, minus what the caller gave away
EndRestores == (phase = "done" /\ bad = {}) => open = pre \ owned
\* and the table never loses a descriptor of the caller's without ForeignClose being recorded
NoSilentTheft == (phase \in {"op", "returned", "done"} /\ "ForeignClose" \notin bad) => (pre \ owned) \subseteq open

\* reachability probes (every obligation can be broken in Spec): violated on purpose
ProbeDouble == "DoubleClose" \notin bad
ProbeForeign == "ForeignClose" \notin bad
ProbeLeak == "Leak" \notin bad
ProbeHandedClosed == "HandedClosed" \notin bad
ProbeNotConsumed == "NotConsumed" \notin bad
ProbeDone == ~(phase = "done" /\ bad = {} /\ handed # {})
=============================================================================
