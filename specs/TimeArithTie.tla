---------------------------- MODULE TimeArithTie ----------------------------
(* Ties the flattened Apalache module to the TLC modules: on the scaled domain the          *)
(* operators of TimeArithApa.tla coincide with the definition (TimeArith.tla via            *)
(* TimeArithCode!D) and the transcription (TimeArithCode.tla).                              *)
EXTENDS Integers
CONSTANTS NPS, SMAX, DMAX, U32MAX
VARIABLES t, u, d, ts, tn, us, un, ds, dn
C == INSTANCE TimeArithCode
A == INSTANCE TimeArithApa
Times == [s : (-SMAX - 1)..SMAX, ns : 0..(NPS - 1)]
Durs  == [s : 0..DMAX, ns : 0..(NPS - 1)]
Init == /\ t \in Times
        /\ \/ u \in Times /\ d = [s |-> 0, ns |-> 0]
           \/ u = t /\ d \in Durs
        /\ ts = t.s /\ tn = t.ns /\ us = u.s /\ un = u.ns /\ ds = d.s /\ dn = d.ns
Next == UNCHANGED <<t, u, d, ts, tn, us, un, ds, dn>>
\* the invariants of TimeArithCode.tla itself, so that one TLC run checks both modules
CodeInv == C!Exact /\ C!NoPanic /\ C!Laws /\ C!Normalised
Conv(r) == IF r = C!PANIC THEN <<2, 0, 0>> ELSE IF r.some THEN <<1, r.s, r.ns>> ELSE <<0, 0, 0>>
Same ==
    /\ A!CodeAdd(ts, tn, ds, dn) = Conv(C!CheckedAddDur(t, d))
    /\ A!CodeSub(ts, tn, ds, dn) = Conv(C!CheckedSubDur(t, d))
    /\ A!CodeDiff(ts, tn, us, un) = Conv(C!SubTsCheckedDur(t, u))
    /\ A!CodeLeq(ts, tn, us, un) = C!CodeLeq(t, u)
    /\ t.s >= 0 => /\ A!DefAdd(ts, tn, ds, dn) = Conv(C!D!AddDur(t, d))
                   /\ A!DefSub(ts, tn, ds, dn) = Conv(C!D!SubDur(t, d))
    /\ (t.s >= 0 /\ u.s >= 0) => A!DefDiff(ts, tn, us, un) = Conv(C!D!Diff(t, u))
    /\ A!AllInv
=============================================================================
