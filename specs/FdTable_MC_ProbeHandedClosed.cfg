CONSTANTS Fds = {0, 1, 2}
SPECIFICATION Spec
INVARIANTS ProbeHandedClosed
CHECK_DEADLOCK FALSE
