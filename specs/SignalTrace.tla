---------------------------- MODULE SignalTrace ----------------------------
(* X03 binding B2: replays what harness/src/bin/sigops.rs recorded through the ACTIONS of     *)
(* Signal.tla.  lib/checks/x03.py flattens every recorded operation into micro events, one    *)
(* per action of the specification:                                                           *)
(*   {"m":"reset","seq"}                                 new process, all dispositions default *)
(*   {"m":"install","t","sig","k","h","rc","view":{sig:{k,h,siginfo}}}        Install           *)
(*   {"m":"raise","t","sig","how":"tgkill|nested|kill|child"}    RaiseThread / RaiseProcess    *)
(*   {"m":"enter","t","signo","k","h","isig","code","pid"}       Deliver (a handler was entered)*)
(*   {"m":"exit","t","signo","k","h"}                            Return  (it came back)        *)
(*   {"m":"fork_raise","sig","signaled","exited"}      the raise was made in a forked copy     *)
(*   {"m":"end","returned","acc_ok","read","crash","hang"}       the operation is over: the     *)
(*                                                   process must be quiescent again           *)
(* A step that the specification does not allow is flagged (bad) and the replay follows the   *)
(* implementation, so that one bad step does not hide the rest.  SelfBlock = FALSE here: both  *)
(* nesting orders are admitted (the API documents neither).                                   *)
EXTENDS Signal, TLC, Json, IOUtils, SequencesExt
Rec == ndJsonDeserialize(IOEnv.TRACE)

VARIABLES i, bad, origin, alien,
          ran     \* the last micro event of the current operation was the end of a handler function
tvars == <<vars, i, bad, origin, alien, ran>>

TInit == Init /\ i = 1 /\ bad = <<>> /\ origin = [s \in Sigs |-> "none"] /\ alien = 0 /\ ran = FALSE

Flag(e, R) == bad' = IF R = {} THEN bad ELSE Append(bad, [seq |-> e.seq, i |-> e.i, m |-> e.m, reasons |-> SetToSeq(R)])
If(c, r) == IF c THEN {r} ELSE {}
NameOf(n) == IF \E s \in Sigs : SigNo(s) = n THEN CHOOSE s \in Sigs : SigNo(s) = n ELSE "?"
Pending == ppend \cup UNION {tpend[t] : t \in Threads}

\* --- install: no failure case; the kernel's view afterwards = the model's dispositions
InstallReasons(e, d) ==
    LET v == e.view
        same(s, x) == v[s].k = x.k /\ v[s].h = x.h
    IN  If(e.rc # 0, "InstallFailed")
        \cup If(~same(e.sig, d), "DispositionNotInstalled")
        \cup If(\E s \in Sigs \ {e.sig} : ~same(s, disp[s]), "OtherDispositionChanged")
        \cup If(\E s \in DOMAIN v : s \notin Sigs /\ v[s].k # "dfl", "UnrelatedSignalChanged")
        \cup If(d.k = "sigaction" /\ same(e.sig, d) /\ ~v[e.sig].siginfo, "SigInfoFlagMissing")

\* --- a handler was entered on thread e.t with signal number e.signo
InfoReasons(e, s) ==
    IF e.k # "sigaction" THEN {}
    ELSE If(e.isig # SigNo(s), "WrongSigInfo")
         \cup (CASE origin[s] \in {"tgkill", "nested"} -> If(e.code # -6 \/ e.pid # "self", "WrongSigInfo")
                 [] origin[s] = "kill" -> If(e.code # 0 \/ e.pid # "self", "WrongSigInfo")
                 [] origin[s] = "child" -> If(e.code \notin {1, 2, 3} \/ e.pid # "child", "WrongSigInfo")
                 [] OTHER -> {})
EnterStep(e) ==
    LET s == NameOf(e.signo) IN
    IF s # "?" /\ e.t \in Threads /\ CanDeliver(e.t, s) /\ Effect(s, disp[s]) = "run"
    THEN /\ Deliver(e.t, s)
         /\ Flag(e, If(e.k # disp[s].k \/ e.h # disp[s].h, "WrongHandler") \cup InfoReasons(e, s))
         /\ ran' = FALSE
         /\ UNCHANGED <<origin, alien>>
    ELSE /\ Flag(e, IF s = "?" \/ s \notin Pending THEN {"UnexpectedHandlerRun"}     \* wrong number / nothing raised
                    ELSE IF Effect(s, disp[s]) # "run" THEN {"HandlerRunUnderOtherDisposition"}
                    ELSE {"WrongThread"})
         /\ alien' = alien + 1 /\ ran' = FALSE
         /\ UNCHANGED <<vars, origin>>
ExitStep(e) ==
    IF alien > 0 THEN alien' = alien - 1 /\ ran' = TRUE /\ UNCHANGED <<vars, bad, origin>>
    ELSE IF e.t \in Threads /\ stack[e.t] # <<>>
         THEN /\ Flag(e, LET f == stack[e.t][Len(stack[e.t])]
                         IN  If(f.h # e.h \/ f.k # e.k \/ SigNo(f.sig) # e.signo, "ExitOfAnotherFrame"))
              /\ Return(e.t)
              /\ ran' = TRUE
              /\ UNCHANGED <<origin, alien>>
         ELSE Flag(e, {"ExitWithoutEnter"}) /\ ran' = TRUE /\ UNCHANGED <<vars, origin, alien>>

\* --- the operation is over
Left(e) == {s \in Pending : Effect(s, disp[s]) = "run"}
EndReasons(e) ==
    IF e.hang THEN {"Hang"}
    ELSE IF e.crash # 0
    THEN (IF ran THEN {"CrashOnHandlerReturn"}      \* the last thing recorded: a handler finished; then the process died
          ELSE IF \E t \in Threads : stack[t] # <<>> THEN {"CrashInHandler"}
          ELSE IF Left(e) # {} THEN {"CrashOnDelivery"}  \* no handler was entered for a pending signal
          ELSE {"Crashed"})
    ELSE If(\E t \in Threads : stack[t] # <<>> \/ alien > 0, "HandlerDidNotReturn")
         \cup If(Left(e) # {}, "HandlerNotRun")
         \cup If(\E s \in Pending : Fatal(Effect(s, disp[s])), "DefaultActionNotTaken")
         \cup If(~e.returned, "NotReturned")
         \cup If(~e.acc_ok, "InterruptedComputationCorrupted")
         \cup If(e.read \notin {"none", "data", "eintr"}, "InterruptedReadFailed")
EndStep(e) ==
    /\ Flag(e, EndReasons(e))
    /\ tpend' = [t \in Threads |-> {}] /\ ppend' = {} /\ stack' = [t \in Threads |-> <<>>]
    /\ alien' = 0 /\ ran' = FALSE /\ origin' = [s \in Sigs |-> "none"]
    /\ UNCHANGED <<disp, runs, alive, cause, accepted, delivered>>

\* --- the raise was made in a forked copy of the process (same dispositions)
ForkReasons(e) ==
    LET ef == Effect(e.sig, disp[e.sig])
    IN  IF Fatal(ef) THEN If(e.signaled # SigNo(e.sig), IF e.exited = 77 THEN "DefaultActionNotTaken" ELSE "WrongWaitStatus")
        ELSE If(e.exited # 77, "KilledUnderNonDefaultDisposition")

Step(e) ==
    CASE e.m = "reset" ->
            /\ disp' = [s \in Sigs |-> Dfl] /\ tpend' = [t \in Threads |-> {}] /\ ppend' = {}
            /\ stack' = [t \in Threads |-> <<>>] /\ runs' = [h \in Hids |-> 0] /\ alive' = TRUE /\ cause' = ""
            /\ accepted' = [s \in Sigs |-> 0] /\ delivered' = [s \in Sigs |-> 0]
            /\ origin' = [s \in Sigs |-> "none"] /\ alien' = 0 /\ ran' = FALSE /\ UNCHANGED bad
      [] e.m = "install" ->
            LET d == [k |-> e.k, h |-> e.h] IN
            /\ Flag(e, InstallReasons(e, d))
            /\ Install(e.t, e.sig, d)
            /\ UNCHANGED <<origin, alien, ran>>
      [] e.m = "raise" ->
            /\ IF e.how \in {"tgkill", "nested"} THEN RaiseThread(e.t, e.sig) ELSE RaiseProcess(e.sig)
            /\ origin' = [origin EXCEPT ![e.sig] = e.how]
            /\ ran' = FALSE
            /\ UNCHANGED <<bad, alien>>
      [] e.m = "enter" -> EnterStep(e)
      [] e.m = "exit" -> ExitStep(e)
      [] e.m = "fork_raise" -> Flag(e, ForkReasons(e)) /\ UNCHANGED <<vars, origin, alien, ran>>
      [] e.m = "end" -> EndStep(e)
      [] e.m = "spawn" -> UNCHANGED <<vars, bad, origin, alien, ran>>

TNext == /\ i <= Len(Rec)
         /\ Step(Rec[i])
         /\ i' = i + 1
Done == i = Len(Rec) + 1 => PrintT(<<"DONE", ToJson([events |-> Len(Rec), bad |-> bad])>>)
=============================================================================
