--------------------------- MODULE UringResTrace ---------------------------
(* C18 teardown, B2: the system calls of real set-up/drop runs (strace) judged by the         *)
(* Resources monitor of UringRes.  Events (ndjson): reset{run}, setup{fd}, mmap{fd,addr,len}, *)
(* drop_begin, munmap{addr,len}, close{fd}, drop_end.  Addresses are strings (equality only). *)
EXTENDS UringRes, Json, IOUtils
Rec == ndJsonDeserialize(IOEnv.TRACE)
VARIABLES i, r, run, nbad
Step(e) ==
    CASE e.ev = "reset" -> RInit
      [] e.ev = "setup" -> RSetupN(r, e.fd, e.need)
      [] e.ev = "mmap" -> RMmapO(r, e.fd, e.addr, e.len, e.off)
      [] e.ev = "crashed" -> RCrashed(r, e.where)
      [] e.ev = "drop_begin" -> RDropBegin(r)
      [] e.ev = "munmap" -> RMunmap(r, e.addr, e.len)
      [] e.ev = "close" -> RClose(r, e.fd)
      [] e.ev = "drop_end" -> RDropEnd(r)
      [] OTHER -> r
TInit == /\ i = 1 /\ r = RInit /\ run = 0 /\ nbad = 0
         /\ pc = 0 /\ sqPtr = 0 /\ cqPtr = 0 /\ sqesPtr = 0 /\ mem = 0 /\ res = 0
TNext ==
    \/ /\ i <= Len(Rec)
       /\ LET e == Rec[i]
              r2 == Step(e)
              rejected == r2.why # "" /\ (r.why = "" \/ e.ev = "reset") IN
          /\ r' = r2
          /\ run' = IF e.ev = "reset" THEN e.run ELSE run
          /\ rejected => PrintT(<<"RESBAD", ToJson([run |-> run, line |-> i, why |-> r2.why])>>)
          /\ nbad' = IF rejected THEN nbad + 1 ELSE nbad
       /\ i' = i + 1
       /\ UNCHANGED rvars
    \/ /\ i = Len(Rec) + 1
       /\ PrintT(<<"RESJUDGE", ToJson([n |-> Len(Rec), nbad |-> nbad])>>)
       /\ i' = i + 1
       /\ UNCHANGED <<r, run, nbad, rvars>>
=============================================================================
