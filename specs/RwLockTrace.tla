---------------------------- MODULE RwLockTrace ----------------------------
(* B2, algorithm level: is an execution recorded from the real RwLock a behaviour of          *)
(* RwLock.tla?  See MutexTrace.tla.  Compared after every operation: the state word (scaled),  *)
(* writer_notify and both parked sets; a compare_exchange_weak event flagged spurious must be  *)
(* one of the model's ...Spur actions.                                                         *)
EXTENDS RwLock_MC, Json, IOUtils

Rec == ndJsonDeserialize(IOEnv.TRACE)
VARIABLES l, nrun, skip, bad, nbad
ToSet(q) == {q[i] : i \in 1..Len(q)}
Pad(p) == [t \in Threads |-> IF t <= Len(p) THEN p[t] ELSE <<>>]

TraceInit == Init /\ l = 1 /\ nrun = 0 /\ skip = FALSE /\ bad = <<>> /\ nbad = 0

ResetTo(e) ==
    /\ state' = 0 /\ notify' = 0
    /\ pc' = [t \in Threads |-> "idle"]
    /\ prog' = Pad(e.progs)
    /\ st' = [t \in Threads |-> 0] /\ oww' = [t \in Threads |-> 0]
    /\ seq' = [t \in Threads |-> 0] /\ wst' = [t \in Threads |-> 0]
    /\ qs' = {} /\ qn' = {} /\ readers' = {} /\ writers' = {}
    /\ knows' = [t \in Threads |-> {}] /\ pub' = [s |-> {}, n |-> {}]
    /\ lastW' = 0 /\ reads' = {} /\ acc' = 0 /\ race' = FALSE /\ assertBad' = FALSE
    /\ spur' = [t \in Threads |-> 0] /\ eintr' = [t \in Threads |-> 0] /\ weak' = [t \in Threads |-> 0]

ExpectedEv(t) ==
    CASE pc[t] = "idle" /\ Op(t) \in {"R", "TR", "TW"} -> "load"
      [] pc[t] = "idle" /\ Op(t) = "W" -> "cas"
      [] pc[t] = "idle" /\ Op(t) = "A" -> "data"
      [] pc[t] = "idle" /\ Op(t) = "U" -> "fsub"
      [] pc[t] \in {"r_cas", "rc_cas", "rc_setrw", "wc_cas", "wc_setww", "k_cas_w", "k_cas_b", "k_cas_r", "tr_cas", "tw_cas"} -> "cas"
      [] pc[t] \in {"rc_spin", "wc_spin", "rc_wfload", "wc_wfload", "wc_seq", "wc_reload"} -> "load"
      [] pc[t] \in {"rc_fwait", "wc_fwait"} -> "wait"
      [] pc[t] \in {"kw_add_a", "kw_add_b"} -> "fadd"
      [] pc[t] \in {"kw_wake_a", "kw_wake_b", "k_wakeall"} -> "wake"
      [] OTHER -> "none"

SpurStep(t) ==
    \/ ReadCasWeakSpur(t) \/ RcCasWeakSpur(t) \/ WriteCasWeakSpur(t) \/ WcCasWeakSpur(t)
    \/ TryReadCasWeakSpur(t) \/ TryWriteCasWeakSpur(t)

Follows(e) ==
    /\ IF e.ev = "woken"
       THEN IF e.cause = "eintr" THEN Eintr(e.t) ELSE SpuriousWake(e.t)
       ELSE /\ e.ev = ExpectedEv(e.t)
            /\ IF e.ev = "cas" /\ e.sp THEN SpurStep(e.t) ELSE ThreadStep(e.t)
    /\ state' = e.w[1]
    /\ notify' = (IF Len(e.w) >= 2 THEN e.w[2] ELSE 0)
    /\ qs' = ToSet(e.q[1])
    /\ qn' = (IF Len(e.q) >= 2 THEN ToSet(e.q[2]) ELSE {})

Step ==
    /\ l <= Len(Rec)
    /\ LET e == Rec[l] IN
       IF e.ev = "reset"
       THEN ResetTo(e) /\ skip' = FALSE /\ nrun' = nrun + 1 /\ UNCHANGED <<bad, nbad>>
       ELSE IF skip \/ "w" \notin DOMAIN e
       THEN UNCHANGED <<vars, skip, nrun, bad, nbad>>
       ELSE IF ENABLED Follows(e)
       THEN Follows(e) /\ UNCHANGED <<skip, nrun, bad, nbad>>
       ELSE /\ UNCHANGED <<vars, nrun>>
            /\ skip' = TRUE
            /\ nbad' = nbad + 1
            /\ bad' = IF Len(bad) < 50 THEN Append(bad, [run |-> nrun, line |-> l]) ELSE bad
    /\ l' = l + 1

Final ==
    /\ l = Len(Rec) + 1
    /\ PrintT(<<"CONF", ToJson([events |-> Len(Rec), runs |-> nrun, nbad |-> nbad, bad |-> bad])>>)
    /\ l' = l + 1
    /\ UNCHANGED <<vars, nrun, skip, bad, nbad>>

TraceNext == Step \/ Final
=============================================================================
