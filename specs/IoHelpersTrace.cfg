CONSTANTS
  Grow <- TraceGrow
  ProbeGrow <- TraceProbeGrow
INIT TInit
NEXT TNext
INVARIANTS Report
CHECK_DEADLOCK FALSE
