----------------------------- MODULE RingInd_MC -----------------------------
(* TLC on the typed copy itself, at a small counter width: every reachable state of RingInd  *)
(* (W = 16, cyclic - no horizon, counters wrap again and again) satisfies IndInv and Props.  *)
(* KSet / Counters / Rets are Int in RingInd.tla (Apalache); here finite (cfg overrides).    *)
EXTENDS RingInd
KSetTLC == 1..(IF NS > NC THEN NS ELSE NC)
CountersTLC == 0..(W - 1)
RetsTLC == -2..W
=============================================================================
