---------------------------- MODULE EpollGen_MC ----------------------------
EXTENDS EpollGen
K1 == [o \in {1} |-> "sock"]
K2 == [o \in {1, 2} |-> IF o = 1 THEN "sock" ELSE "pipe_r"]
K2b == [o \in {1, 2} |-> IF o = 1 THEN "pipe_w" ELSE "sock"]
K3 == [o \in {1, 2, 3} |-> IF o = 1 THEN "sock" ELSE IF o = 2 THEN "pipe_r" ELSE "pipe_w"]
MasksG == {{"IN"}, {"OUT"}, {"IN", "ET"}, {"IN", "OUT"}, {"IN", "OUT", "ET"}, {"IN", "ONESHOT"}, {"IN", "RDHUP"}, {"OUT", "ET"}, {"IN", "ET", "ONESHOT"}}
PollM == {{"IN"}, {"OUT"}, {"IN", "OUT"}, {"IN", "RDHUP"}}
Data(o, g) == 10 * o + g
TOs == {0, 20, -1}
=============================================================================
