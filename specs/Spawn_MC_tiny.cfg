CONSTANTS
  StartFeature = TRUE
  Dev = {}
  Cfgs <- CfgsTiny
  Faults <- FaultsQuick
INIT InitMC
NEXT Next
INVARIANTS VectorsTerminated AbsHolds
CHECK_DEADLOCK TRUE
