--------------------------- MODULE SpawnFlow_MC ---------------------------
(* Plans for SpawnFlow.tla: every stdio table over {pipe, null}, payload 0 / 1 / 3 units, every  *)
(* order of the caller's five operations and every order of the four without the explicit close. *)
EXTENDS SpawnFlow, Json
Modes2 == {"pipe", "null"}
Perms(S) == {s \in [1..Cardinality(S) -> S] : \A x \in S : \E k \in DOMAIN s : s[k] = x}
OpSeqs == Perms({"W", "C", "RO", "RE", "wait"}) \cup Perms({"W", "RO", "RE", "wait"})
PlansAll == {[io |-> <<a, b, c>>, n |-> n, ops |-> o] : a \in Modes2, b \in Modes2, c \in Modes2, n \in {0, 1, 3}, o \in OpSeqs}
PlansTiny == {[io |-> <<"pipe", "pipe", "pipe">>, n |-> n, ops |-> o] : n \in {1, 3},
              o \in {<<"W", "C", "RO", "RE", "wait">>, <<"W", "wait", "RO", "RE">>, <<"RO", "W", "C", "RE", "wait">>}}
Outcome == [plan |-> plan, hung |-> hung, res |-> res, cgot |-> cgot, cerrs |-> cerrs, at |-> IF hung THEN plan.ops[i] ELSE "-"]
Emit == Finished => PrintT(<<"FLOW", ToJson(Outcome)>>)
=============================================================================
