-------------------------------- MODULE Ring --------------------------------
(* C17, ALGORITHM LEVEL: the io_uring ring protocol as coded in                              *)
(* rusl/src/platform/compat/io_uring.rs (IoUring::get_next_sqe_slot, flush_submission_queue, *)
(* get_next_cqe, UringCompletionQueue::advance), the application's discipline of use and a   *)
(* kernel side that consumes submissions and posts completions, all at call granularity,    *)
(* in product with the property-level monitor RingAbs.                                       *)
(*                                                                                           *)
(* Counters.  The real head/tail counters are free-running u32.  A model counter m ranges    *)
(* over 0..2H-1 and stands for the real value (2^32 - H + m) mod 2^32: positions 0..H-1 are  *)
(* the last H values below 2^32, position H is the real value 0 - THE u32 WRAP lies between  *)
(* H-1 and H - and H..2H-1 are ordinary small values.  Every action that would move a        *)
(* counter beyond 2H-1 is disabled (horizon of the bounded model).  Start values are drawn   *)
(* from SqStarts/CqStarts (all of 0..2H-1 in the exhaustive configurations).  H is a         *)
(* multiple of both ring sizes, so `real & (size-1)` equals `m % size`.                     *)
(*   x + k        m + k;   an overflow-checked build panics iff m < H <= m + k               *)
(*   a - b        a - b if a >= b (also the wrapping result); checked: panics iff            *)
(*                Real(a) < Real(b);  for a < b the wrapping result is "huge" (HUGE)         *)
(*   a <= b       Real(a) <= Real(b)                                                         *)
(*                                                                                           *)
(* Constants describing the code (so that the model can be set to the code as it was found   *)
(* and as it is now; the check replays the model into the real code, so a wrong setting      *)
(* shows up as a divergence):                                                                *)
(*   Wrapping     TRUE: tail+1, next-head, tail-khead use wrapping_add/wrapping_sub          *)
(*                FALSE: plain + and - (panic in overflow-checked builds)                    *)
(*   DebugChecks  overflow checks compiled in (debug build)                                  *)
(*   CqEmptyLE    TRUE: get_next_cqe answers None iff `tail <= head`; FALSE: iff tail = head *)
(*   AtomicReapRead  TRUE: the application reads through the returned reference before the   *)
(*                kernel side does anything else (restricted discipline)                     *)
(* Entries carry sequence stamps: the k-th handed-out submission slot is to be filled with   *)
(* stamp s0+k, the kernel stamps its k-th completion c0+k (s0, c0 = start values), so the    *)
(* stamp of an entry equals its ring position whenever the protocol is intact.              *)
EXTENDS Integers, Sequences, FiniteSets, TLC

CONSTANTS NS, NC, H, SqStarts, CqStarts, Side,
          Wrapping, DebugChecks, CqEmptyLE, AtomicReapRead

ASSUME /\ H % NS = 0 /\ H % NC = 0 /\ H > NS /\ H > NC
       /\ SqStarts \subseteq 0..(2*H-1) /\ CqStarts \subseteq 0..(2*H-1)
       /\ Side \in {"sq", "cq", "both"}

VARIABLES sqHead, sqTail,          \* application-local submission head / tail
          kSqHead, kSqTail,        \* shared: kernel consumes at head, application publishes tail
          kCqHead, kCqTail,        \* shared: application releases at head, kernel posts at tail
          sqSlot, cqSlot,          \* ring memory: stamp stored in slot i at index i+1 (-1: never written)
          want,                    \* want[i+1]: stamp the application still has to write into handed-out slot i, or -1
          held,                    \* slot of the completion reference the application holds, or -1
          nextStamp, cStamp,       \* next submission stamp (application) / completion stamp (kernel)
          pc,                      \* "run" | "panicked"
          abs                      \* property-level monitor (RingAbs)
cvars == <<sqHead, sqTail, kSqHead, kSqTail, kCqHead, kCqTail, sqSlot, cqSlot, want, held, nextStamp, cStamp, pc>>
vars == <<cvars, abs>>

A == INSTANCE RingAbs
NONE == -1
PANIC == -2

Last == 2*H - 1
BIG == 1000 * H
HUGE == BIG
Real(m) == IF m < H THEN BIG + m ELSE m - H
AddPanics(m, k) == ~Wrapping /\ DebugChecks /\ m < H /\ m + k >= H
SubPanics(a, b) == ~Wrapping /\ DebugChecks /\ Real(a) < Real(b)
WSub(a, b) == IF a >= b THEN a - b ELSE HUGE
Min(a, b) == IF a < b THEN a ELSE b

Init ==
    /\ \E s \in SqStarts : /\ sqHead = s /\ sqTail = s /\ kSqHead = s /\ kSqTail = s /\ nextStamp = s
    /\ \E c \in CqStarts : /\ kCqHead = c /\ kCqTail = c /\ cStamp = c
    /\ sqSlot = [i \in 1..NS |-> -1]
    /\ cqSlot = [i \in 1..NC |-> -1]
    /\ want = [i \in 1..NS |-> -1]
    /\ held = -1
    /\ pc = "run"
    /\ abs = A!AbsInit(NS, NC)

---------------------------------------------------------------------------
(* application: get_next_sqe_slot                                                           *)
(*   let next = tail + 1; let head = khead;                                                  *)
(*   if next - head <= ring_entries { index = tail & mask; tail = next; Some(&sqes[index]) } *)
GetSlot(r) ==
    /\ pc = "run" /\ Side # "cq"
    /\ sqTail < Last
    /\ LET next == sqTail + 1 IN
       IF AddPanics(sqTail, 1) \/ SubPanics(next, kSqHead)
       THEN /\ r = PANIC
            /\ pc' = "panicked"
            /\ UNCHANGED <<sqHead, sqTail, kSqHead, kSqTail, kCqHead, kCqTail, sqSlot, cqSlot, want, held, nextStamp, cStamp>>
       ELSE IF WSub(next, kSqHead) <= NS
       THEN /\ r = sqTail % NS
            /\ sqTail' = next
            /\ want' = [want EXCEPT ![r + 1] = nextStamp]
            /\ nextStamp' = nextStamp + 1
            /\ UNCHANGED <<sqHead, kSqHead, kSqTail, kCqHead, kCqTail, sqSlot, cqSlot, held, cStamp, pc>>
       ELSE /\ r = NONE
            /\ UNCHANGED cvars
    /\ abs' = A!AGetSlot(abs, r)

(* application: writes the entry through the pointer it was handed *)
Fill(sl) ==
    /\ pc = "run" /\ Side # "cq"
    /\ want[sl + 1] # -1
    /\ sqSlot' = [sqSlot EXCEPT ![sl + 1] = want[sl + 1]]
    /\ want' = [want EXCEPT ![sl + 1] = -1]
    /\ abs' = A!AFill(abs, sl, want[sl + 1])
    /\ UNCHANGED <<sqHead, sqTail, kSqHead, kSqTail, kCqHead, kCqTail, cqSlot, held, nextStamp, cStamp, pc>>

(* application: flush_submission_queue (only with every handed-out slot filled)              *)
(*   let tail = self.tail; if self.head != tail { self.head = tail; ktail.store(tail) }      *)
(*   tail - khead                                                                            *)
Flush(r) ==
    /\ pc = "run" /\ Side # "cq"
    /\ \A i \in 1..NS : want[i] = -1
    /\ LET tail == sqTail
           kt2  == IF sqHead # tail THEN tail ELSE kSqTail IN
       /\ sqHead' = tail
       /\ kSqTail' = kt2
       /\ IF SubPanics(tail, kSqHead)
          THEN /\ r = PANIC /\ pc' = "panicked"
          ELSE /\ r = WSub(tail, kSqHead) /\ pc' = pc
       /\ abs' = A!AFlush(abs, r, Min(WSub(kt2, kSqHead), NS))
    /\ UNCHANGED <<sqTail, kSqHead, kCqHead, kCqTail, sqSlot, cqSlot, want, held, nextStamp, cStamp>>

(* kernel: consumes k of the entries it sees (tail - head, at most the ring size)            *)
Consume(k) ==
    /\ pc = "run" /\ Side # "cq"
    /\ AtomicReapRead => held = -1
    /\ k \in 1..Min(WSub(kSqTail, kSqHead), NS)
    /\ kSqHead' = kSqHead + k
    /\ abs' = A!AConsume(abs, [i \in 1..k |-> sqSlot[((kSqHead + i - 1) % NS) + 1]])
    /\ UNCHANGED <<sqHead, sqTail, kSqTail, kCqHead, kCqTail, sqSlot, cqSlot, want, held, nextStamp, cStamp, pc>>

(* kernel: posts k completions into free completion slots (size - (tail - head))             *)
Post(k) ==
    /\ pc = "run" /\ Side # "sq"
    /\ AtomicReapRead => held = -1
    /\ k \in 1..(NC - WSub(kCqTail, kCqHead))
    /\ kCqTail + k <= Last
    /\ cqSlot' = [i \in 1..NC |->
                    IF \E j \in 0..(k-1) : (kCqTail + j) % NC = i - 1
                    THEN cStamp + ((i - 1 - kCqTail) % NC)
                    ELSE cqSlot[i]]
    /\ kCqTail' = kCqTail + k
    /\ cStamp' = cStamp + k
    /\ abs' = A!APost(abs, [i \in 1..k |-> cStamp + i - 1])
    /\ UNCHANGED <<sqHead, sqTail, kSqHead, kSqTail, kCqHead, sqSlot, want, held, nextStamp, pc>>

(* application: get_next_cqe (the returned reference borrows the ring mutably, so there is   *)
(* at most one at a time)                                                                    *)
(*   tail = ktail; head = khead; if tail <= head {None}                                      *)
(*   else { cqe = &cqes[head & mask]; khead.fetch_add(1); Some(cqe) }   -- released first    *)
Reap(r) ==
    /\ pc = "run" /\ Side # "sq"
    /\ held = -1
    /\ LET empty == IF CqEmptyLE THEN Real(kCqTail) <= Real(kCqHead) ELSE kCqTail = kCqHead IN
       IF empty
       THEN /\ r = NONE /\ UNCHANGED cvars
       ELSE /\ kCqHead < Last
            /\ r = kCqHead % NC
            /\ held' = r
            /\ kCqHead' = kCqHead + 1
            /\ UNCHANGED <<sqHead, sqTail, kSqHead, kSqTail, kCqTail, sqSlot, cqSlot, want, nextStamp, cStamp, pc>>
    /\ abs' = A!AReap(abs, r)

(* application: reads the completion through the reference *)
Read(v) ==
    /\ pc = "run" /\ Side # "sq"
    /\ held # -1
    /\ v = cqSlot[held + 1]
    /\ held' = -1
    /\ abs' = A!ARead(abs, v)
    /\ UNCHANGED <<sqHead, sqTail, kSqHead, kSqTail, kCqHead, kCqTail, sqSlot, cqSlot, want, nextStamp, cStamp, pc>>

Next ==
    \/ \E r \in {PANIC, NONE} \cup 0..(NS-1) : GetSlot(r)
    \/ \E sl \in 0..(NS-1) : Fill(sl)
    \/ \E r \in {PANIC} \cup 0..NS \cup {HUGE} : Flush(r)
    \/ \E k \in 1..NS : Consume(k)
    \/ \E k \in 1..NC : Post(k)
    \/ \E r \in {NONE} \cup 0..(NC-1) : Reap(r)
    \/ \E v \in -1..(2*H + NC) : Read(v)

Spec == Init /\ [][Next]_vars

---------------------------------------------------------------------------
(* What is checked *)
TypeOK ==
    /\ sqHead \in 0..Last /\ sqTail \in 0..Last /\ kSqHead \in 0..Last /\ kSqTail \in 0..Last
    /\ kCqHead \in 0..Last /\ kCqTail \in 0..Last
    /\ held \in -1..(NC-1) /\ pc \in {"run", "panicked"}

\* THE property: the monitor never flags anything
PropertyHolds == abs.why = "" /\ ~abs.stale
\* the property except for the one clause recorded as a known finding (reference released before it is read)
PropertyHoldsButStaleRead == abs.why = ""

\* algorithm-level facts about the code as it should be (not verdict-bearing)
CountersConsistent ==
    pc = "run" =>
        /\ kSqHead <= kSqTail /\ kSqTail <= sqHead /\ sqHead <= sqTail /\ sqTail - kSqHead <= NS
        /\ kCqHead <= kCqTail /\ kCqTail - kCqHead <= NC
        /\ nextStamp = sqTail /\ cStamp = kCqTail

\* reachability probes: each must be VIOLATED by TLC (anti-vacuity; run as expected failures)
ProbeSqFull      == ~(sqTail - kSqHead = NS /\ sqTail >= H /\ kSqHead < H)      \* full ring straddling the wrap
ProbeCqFull      == ~(kCqTail - kCqHead = NC /\ kCqTail >= H /\ kCqHead < H)
ProbeHeldAndPost == ~(held # -1 /\ abs.gap)                                     \* kernel posted while a reference is held
ProbeSqWrapped   == ~(kSqHead >= H /\ \E i \in 1..NS : sqSlot[i] < H /\ sqSlot[i] # -1)
ProbeCqPending   == ~(abs.cq # <<>> /\ kCqTail >= H /\ kCqHead < H)             \* completions pending across the wrap
=============================================================================
