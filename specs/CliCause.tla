----------------------------- MODULE CliCause -----------------------------
(* C20, the error-cause buffer of tiny-std/src/unix/cli.rs as a state machine.              *)
(* ArgParseCauseBuffer = 128-byte array + len.  write_str(piece): if the piece does not fit *)
(* in the remaining space it fails WITHOUT writing, otherwise it is copied and len grows.   *)
(* new_cause_str writes the cause in one piece, new_cause_fmt (core::fmt::write) in one     *)
(* write_str call per literal/argument piece; the first failing piece makes both return the *)
(* error carrying the canned 68-byte overflow text instead.                                 *)
(* TLC checks (all piece sequences over Pieces up to MaxPieces): Len <= capacity in every    *)
(* state, never a state without a successor other than a final one (no panic), and the     *)
(* machine's result = the definition CauseDef (fits ? the text : the fallback).  The final  *)
(* states are printed as vectors for the driver (clishapes cause).                          *)
EXTENDS Cli, Json
CONSTANTS Mode, Pieces, MaxPieces, PreSet, MaxChars
VARIABLES all, todo, len, st
vars == <<all, todo, len, st>>

\* Mode = "pieces": every sequence of <= MaxPieces piece lengths out of Pieces.
\* Mode = "chars":  a first piece of PreSet bytes (write_str) followed by 1..MaxChars CHARACTERS of 1..4
\* bytes each (Formatter::write_char, which by default encodes into a temporary and calls write_str
\* with those 1..4 bytes): the text ends at every offset around the capacity.
Init == IF Mode = "pieces"
        THEN \E k \in 0..MaxPieces : \E s \in [1..k -> Pieces] :
                all = s /\ todo = s /\ len = 0 /\ st = "writing"
        ELSE \E pre \in PreSet : \E k \in 1..MaxChars : \E w \in [1..k -> 1..4] :
                all = <<pre>> \o w /\ todo = all /\ len = 0 /\ st = "writing"
WriteStr ==
    /\ st = "writing" /\ todo # <<>>
    /\ IF Head(todo) > CauseCap - len
       THEN st' = "overflow" /\ len' = CauseFallbackLen /\ todo' = <<>>     \* map_err(OVERFLOW_BUF)
       ELSE st' = st /\ len' = len + Head(todo) /\ todo' = Tail(todo)        \* copy_from_slice
    /\ UNCHANGED all
Finish == st = "writing" /\ todo = <<>> /\ st' = "ok" /\ UNCHANGED <<all, todo, len>>
Done == st # "writing" /\ UNCHANGED vars
Next == WriteStr \/ Finish \/ Done

LenBounded == len <= CauseCap
TranscriptionIsDefinition == st # "writing" => [via |-> st, len |-> len] = CauseDef(all)
Emit == st = "writing" \/ PrintT(<<"C", ToJson([pieces |-> all, via |-> st, len |-> len])>>)
=============================================================================
