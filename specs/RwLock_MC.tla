------------------------------ MODULE RwLock_MC ------------------------------
(* Bounded configurations of RwLock.tla. *)
EXTENDS RwLock
RAU == <<"R", "A", "U">>
WAU == <<"W", "A", "U">>
TRAU == <<"TR", "A", "U">>
TWAU == <<"TW", "A", "U">>
\* 2 threads, one acquisition each
A_WR == <<WAU, RAU>>
A_WW == <<WAU, WAU>>
A_WTR == <<WAU, TRAU>>
A_RTW == <<RAU, TWAU>>
A_TT == <<TWAU, TRAU>>
\* 2 threads, two acquisitions each
B_1 == <<WAU \o RAU, RAU \o WAU>>
B_2 == <<WAU \o TRAU, TWAU \o RAU>>
\* 3 threads, one acquisition each
C_WWR == <<WAU, WAU, RAU>>
C_WRR == <<WAU, RAU, RAU>>
C_WWW == <<WAU, WAU, WAU>>
C_WRT == <<WAU, RAU, TWAU>>
\* 3 threads, two acquisitions, try variants mixed in
E_1 == <<WAU \o RAU, RAU \o WAU, TWAU \o TRAU>>
\* 4 threads
F_WWRR == <<WAU, WAU, RAU, RAU>>
G_RWRT == <<RAU, WAU, RAU, TWAU>>
G_WWRT == <<WAU, WAU, RAU, TRAU>>
EagerOn == TRUE
ToggleOn == TRUE
H_WWWR == <<WAU, WAU, WAU, RAU>>
H_WWW2 == <<WAU \o WAU, WAU, WAU>>
H_WW2 == <<WAU \o WAU, WAU \o WAU>>
=============================================================================
