----------------------------- MODULE MutexTrace -----------------------------
(* B2, algorithm level: is an execution recorded from the real Mutex (any programs, up to 4   *)
(* threads; DFS / coverage-guided / random exploration and tour replays) a behaviour of       *)
(* Mutex.tla?  Every operation event must be the next step of its thread in the model         *)
(* (the event kind the model's program counter calls for) and lead to the futex word and      *)
(* parked set the instrument observed.  A run the model cannot follow is recorded (model      *)
(* drift, reported in the evidence, never a verdict: verdicts come from SyncTrace.tla) and    *)
(* skipped up to the next reset.                                                              *)
EXTENDS Mutex_MC, Json, IOUtils

Rec == ndJsonDeserialize(IOEnv.TRACE)
VARIABLES l, nrun, skip, bad, nbad
ToSet(q) == {q[i] : i \in 1..Len(q)}
Pad(p) == [t \in Threads |-> IF t <= Len(p) THEN p[t] ELSE <<>>]

TraceInit == Init /\ l = 1 /\ nrun = 0 /\ skip = FALSE /\ bad = <<>> /\ nbad = 0

ResetTo(e) ==
    /\ futex' = 0 /\ pc' = [t \in Threads |-> "idle"] /\ cur' = [t \in Threads |-> "-"]
    /\ prog' = Pad(e.progs) /\ waitq' = {} /\ guards' = {} /\ knows' = [t \in Threads |-> {}]
    /\ pub' = {} /\ lastW' = 0 /\ acc' = 0 /\ race' = FALSE /\ tryBad' = FALSE
    /\ spur' = [t \in Threads |-> 0] /\ eintr' = [t \in Threads |-> 0]

\* the event kind the model expects from thread t next
ExpectedEv(t) ==
    CASE pc[t] = "idle" /\ Op(t) \in {"L", "T", "D"} -> "cas"
      [] pc[t] = "dbg_read" -> "data"
      [] pc[t] = "dbg_unlock" -> "swap"
      [] pc[t] = "idle" /\ Op(t) = "A" -> "data"
      [] pc[t] = "idle" /\ Op(t) = "U" -> "swap"
      [] pc[t] \in {"spin1", "spin2", "wfload"} -> "load"
      [] pc[t] = "cas01" -> "cas"
      [] pc[t] = "swap2" -> "swap"
      [] pc[t] = "fwait" -> "wait"
      [] pc[t] = "wake" -> "wake"
      [] OTHER -> "none"

Follows(e) ==
    /\ IF e.ev = "woken"
       THEN IF e.cause = "eintr" THEN Eintr(e.t) ELSE SpuriousWake(e.t)
       ELSE e.ev = ExpectedEv(e.t) /\ ThreadStep(e.t)
    /\ futex' = e.w[1]
    /\ waitq' = ToSet(e.q[1])

Step ==
    /\ l <= Len(Rec)
    /\ LET e == Rec[l] IN
       IF e.ev = "reset"
       THEN ResetTo(e) /\ skip' = FALSE /\ nrun' = nrun + 1 /\ UNCHANGED <<bad, nbad>>
       ELSE IF skip \/ "w" \notin DOMAIN e
       THEN UNCHANGED <<vars, skip, nrun, bad, nbad>>
       ELSE IF ENABLED Follows(e)
       THEN Follows(e) /\ UNCHANGED <<skip, nrun, bad, nbad>>
       ELSE /\ UNCHANGED <<vars, nrun>>
            /\ skip' = TRUE
            /\ nbad' = nbad + 1
            /\ bad' = IF Len(bad) < 50 THEN Append(bad, [run |-> nrun, line |-> l]) ELSE bad
    /\ l' = l + 1

Final ==
    /\ l = Len(Rec) + 1
    /\ PrintT(<<"CONF", ToJson([events |-> Len(Rec), runs |-> nrun, nbad |-> nbad, bad |-> bad])>>)
    /\ l' = l + 1
    /\ UNCHANGED <<vars, nrun, skip, bad, nbad>>

TraceNext == Step \/ Final
=============================================================================
