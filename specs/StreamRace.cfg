INIT Init
NEXT Next
CHECK_DEADLOCK FALSE
