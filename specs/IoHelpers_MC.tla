--------------------------- MODULE IoHelpers_MC ---------------------------
(* Bounded families of cases for IoHelpers.tla: TLC explores the transcription on every    *)
(* case of the family (model checking: Correct, NoBad, CarrySound, ProbeOnlyExactFit,      *)
(* NotStuck) and prints every complete behaviour (case, call log, outcome) as one JSON     *)
(* line - the cases the real helpers are then run on, with the model's expectation.        *)
EXTENDS IoHelpers, TLC, Json, SequencesExt

CONSTANTS Family,   \* "rte" | "rte5" | "rte2" | "rex" | "rts" | "rtsbig" | "utf8" | "eintr" | "wa" | "wf" | "all"
          L,        \* maximal script length (including the terminal item)
          GrowExtra \* further capacities reserve(32) may yield: len + 32 + x for x in GrowExtra

C(k) == [t |-> "c", k |-> k]
EOF_ == [t |-> "eof", k |-> 0]
EINTR == [t |-> "eintr", k |-> 0]
ERR(e) == [t |-> "err", k |-> e]
A(k) == [t |-> "a", k |-> k]
ZERO == [t |-> "zero", k |-> 0]

SeqsUpTo(S, n) == UNION {[1..k -> S] : k \in 0..n}

\* environment choices of the allocator: the amortised growth of RawVec and the minimal one
MCGrow(len, c) == {Max(2 * c, len + 32), len + 32} \cup {len + 32 + x : x \in GrowExtra}
MCProbeGrow(c, n) == {Max(Max(2 * c, c + n), 8), c + n}

\* byte contents: the driver uses the same functions, so model and real buffers are comparable
IdData(n) == [i \in 1..n |-> ((i - 1) % 200) + 1]
IdInit(n) == [j \in 1..n |-> 201 + (j % 50)]

Inits == {<<0, 0>>, <<0, 32>>, <<5, 5>>, <<5, 37>>, <<31, 32>>, <<32, 32>>, <<40, 64>>}
ChunkSizes == {1, 2, 31, 32, 33, 64}
NT == {C(k) : k \in ChunkSizes} \cup {EINTR}
ReadScripts == {p \o <<tm>> : p \in SeqsUpTo(NT, L - 1), tm \in {EOF_, ERR(5)}}

Case(op, s, d, i, c0, n, p) == [op |-> op, script |-> s, data |-> d, init |-> i, cap0 |-> c0, n |-> n, pieces |-> p, ff |-> 0]

RteCases == {Case("read_to_end", s, IdData(Total(s)), IdInit(lc[1]), lc[2], 0, <<>>) : s \in ReadScripts, lc \in Inits}
\* the deepest grid of the thorough tier: one more item, chunk size 2 left out
NT5 == {C(k) : k \in ChunkSizes \ {2}} \cup {EINTR}
ReadScripts5 == {p \o <<tm>> : p \in SeqsUpTo(NT5, L - 1), tm \in {EOF_, ERR(5)}}
Rte5Cases == {Case("read_to_end", s, IdData(Total(s)), IdInit(lc[1]), lc[2], 0, <<>>) : s \in ReadScripts5, lc \in Inits}
\* a second grid: other chunk sizes (partial fills on both sides of 32/64/96) and other initial
\* (len, capacity) pairs (capacity 1, 31, 33; exact fit at 64; one byte short of full)
ChunkSizes2 == {3, 30, 34, 63, 65, 96}
Inits2 == {<<0, 1>>, <<1, 1>>, <<0, 31>>, <<0, 33>>, <<64, 64>>, <<33, 64>>, <<63, 64>>}
NT2 == {C(k) : k \in ChunkSizes2} \cup {EINTR}
ReadScripts2 == {p \o <<tm>> : p \in SeqsUpTo(NT2, L - 1), tm \in {EOF_, ERR(5)}}
Rte2Cases == {Case("read_to_end", s, IdData(Total(s)), IdInit(lc[1]), lc[2], 0, <<>>) : s \in ReadScripts2, lc \in Inits2}
RexCases == {Case("read_exact", s, IdData(Total(s)), <<>>, 0, n, <<>>) : s \in ReadScripts, n \in {0, 1, 2, 32, 33, 65}}

\* UTF-8: every way of cutting a short string into chunks (each boundary split or not), an
\* EINTR before any chunk, end of file or an error at the end
Valid   == {<<195, 169>>, <<97, 226, 130, 172>>, <<240, 159, 152, 128, 98>>, <<97, 98>>}
Invalid == {<<255, 97, 98>>, <<97, 255, 98>>, <<97, 98, 255>>, <<97, 195>>, <<226, 130>>,
            <<240, 159, 152>>, <<192, 128>>, <<237, 160, 128>>, <<128, 97>>, <<97, 226, 130, 40>>}
RECURSIVE Compositions(_)
Compositions(m) == IF m = 0 THEN {<<>>}
                   ELSE UNION {{<<k>> \o r : r \in Compositions(m - k)} : k \in 1..m}
WithEintr(p) == {p} \cup {SubSeq(p, 1, i) \o <<EINTR>> \o SubSeq(p, i + 1, Len(p)) : i \in 0..Len(p)}
StrInits == {<<<<>>, 0>>, <<<<65, 195, 169>>, 3>>, <<<<65, 195, 169>>, 8>>}
RtsCasesFor(d) ==
    {Case("read_to_string", q \o <<tm>>, d, ic[1], ic[2], 0, <<>>) :
        q \in UNION {WithEintr([i \in 1..Len(cs) |-> C(cs[i])]) : cs \in Compositions(Len(d))},
        tm \in {EOF_, ERR(5)}, ic \in StrInits}
RtsCases == UNION {RtsCasesFor(d) : d \in Valid \cup Invalid}

\* a multi-byte character straddling the 32-byte growth / probe threshold
Pad(n) == [i \in 1..n |-> 97 + (i % 26)]
BigStrs == {Pad(31) \o <<195, 169>>, Pad(30) \o <<226, 130, 172>>, Pad(29) \o <<240, 159, 152, 128>>,
            Pad(31) \o <<195, 40>>, Pad(30) \o <<226, 130>>}
BigNT == {C(k) : k \in {1, 2, 30, 31, 32, 33}} \cup {EINTR}
BigScripts == {p \o <<tm>> : p \in SeqsUpTo(BigNT, L - 1), tm \in {EOF_, ERR(5)}}
BigInits == {<<<<>>, 0>>, <<<<>>, 32>>, <<<<>>, 33>>, <<<<65, 195, 169>>, 3>>, <<<<65>>, 33>>}

BigCases == UNION {{Case("read_to_string", s, d, ic[1], ic[2], 0, <<>>) :
                        s \in {x \in BigScripts : Total(x) <= Len(d)}, ic \in BigInits} : d \in BigStrs}

\* IsUtf8 against the real core::str::from_utf8 (which the guard of append_to_string calls): every
\* byte string up to length L - 1 over the bytes at which the UTF-8 grammar changes its mind, plus
\* 4-byte forms; delivered in one chunk, so the only thing that varies is the validity verdict
Edge == {0, 127, 128, 143, 144, 159, 160, 191, 192, 193, 194, 223, 224, 225, 236, 237, 238, 239, 240, 241, 243, 244, 245, 255}
FourByte == {<<a, b, c, d>> : a \in {240, 241, 243, 244, 245}, b \in {127, 128, 143, 144, 191, 192},
                              c \in {127, 128, 191, 192}, d \in {127, 128, 191, 192}}
Utf8Strings == UNION {[1..k -> Edge] : k \in 1..(L - 1)} \cup FourByte
Utf8Cases == {Case("read_to_string", <<C(Len(d)), EOF_>>, d, <<>>, 0, 0, <<>>) : d \in Utf8Strings}

\* long runs of consecutive EINTRs (no bound on them in the statement): before the first piece, in
\* the middle, before end of file / the error, and on the exact-fit probe read
EINTRS(k) == [t |-> "eintr", k |-> k]
Runs == {130, 300, 1000}
EintrReadScripts == UNION {{<<EINTRS(k), C(33), EINTRS(k), C(2), EINTRS(k), tm>>, <<C(1), EINTRS(k), C(5), EINTRS(k), tm>>,
                            <<EINTRS(k), tm>>, <<C(32), EINTRS(k), C(32), EINTRS(k), C(1), tm>>} : k \in Runs, tm \in {EOF_, ERR(5)}}
EintrCases ==
    {Case("read_to_end", s, IdData(Total(s)), IdInit(lc[1]), lc[2], 0, <<>>) : s \in EintrReadScripts, lc \in {<<0, 0>>, <<31, 32>>, <<0, 32>>, <<5, 37>>}}
    \cup {Case("read_exact", s, IdData(Total(s)), <<>>, 0, n, <<>>) : s \in EintrReadScripts, n \in {1, 6, 35, 65}}
    \cup {Case("read_to_string", <<EINTRS(k), C(1), EINTRS(k), C(2), EINTRS(k), C(1), EINTRS(k), tm>>, d, ic[1], ic[2], 0, <<>>) :
              k \in Runs, tm \in {EOF_, ERR(5)}, d \in {<<97, 226, 130, 172>>, <<97, 195, 40, 98>>}, ic \in {<<<<>>, 0>>, <<<<65, 195, 169>>, 3>>}}
    \cup {Case("read_to_string", <<C(31), EINTRS(k), C(2), EINTRS(k), tm>>, Pad(31) \o <<195, 169>>, <<>>, 32, 0, <<>>) :
              k \in Runs, tm \in {EOF_, ERR(5)}}
    \cup {Case("write_all", s, IdData(5), <<>>, 0, 0, <<5>>) :
              s \in UNION {{<<EINTRS(k), A(2), EINTRS(k), A(100)>>, <<EINTRS(k)>>, <<A(1), EINTRS(k), ERR(5)>>, <<EINTRS(k), ZERO>>} : k \in Runs}}
    \cup {[Case("write_fmt", s, IdData(5), <<>>, 0, 0, p) EXCEPT !.ff = f] :
              s \in UNION {{<<EINTRS(k), A(2), EINTRS(k), A(1), EINTRS(k)>>, <<A(1), EINTRS(k), ERR(5)>>} : k \in Runs},
              p \in {<<2, 0, 3>>, <<1, 1, 1, 1, 1>>}, f \in {0, 1}}

WItems == {A(1), A(2), A(32), A(100), ZERO, EINTR, ERR(5)}
WScripts == SeqsUpTo(WItems, L)
WaCases == {Case("write_all", s, IdData(m), <<>>, 0, 0, <<m>>) : s \in WScripts, m \in {0, 1, 5, 33}}
WfCases == {[Case("write_fmt", s, IdData(5), <<>>, 0, 0, p) EXCEPT !.ff = f] : s \in WScripts,
                p \in {<<2, 0, 3>>, <<1, 1, 1, 1, 1>>, <<5>>, <<0, 5, 0>>}, f \in {0, 1}}

Cases == CASE Family = "rte" -> RteCases
           [] Family = "rte5" -> Rte5Cases
           [] Family = "rte2" -> Rte2Cases
           [] Family = "rex" -> RexCases
           [] Family = "rts" -> RtsCases
           [] Family = "rtsbig" -> BigCases
           [] Family = "utf8" -> Utf8Cases
           [] Family = "eintr" -> EintrCases
           [] Family = "wa" -> WaCases
           [] Family = "wf" -> WfCases
           \* all families in one run (one JVM: the quick tier)
           [] Family = "all" -> RteCases \cup Rte2Cases \cup RexCases \cup RtsCases \cup BigCases
                                \cup Utf8Cases \cup WaCases \cup WfCases \cup EintrCases

MCInit == \E c \in Cases : InitFor(c)

\* one line per complete behaviour; byte contents are left out where the driver regenerates
\* them with IdData / IdInit
IdFamily == case.op # "read_to_string"
Emit ==
    pc = "done" =>
        PrintT(<<"B", ToJson([op |-> case.op, script |-> case.script, cap0 |-> case.cap0, n |-> case.n,
                              pieces |-> case.pieces, ff |-> case.ff, ilen |-> Len(case.init), dlen |-> Len(case.data),
                              init |-> IF IdFamily THEN <<>> ELSE case.init,
                              data |-> IF IdFamily THEN <<>> ELSE case.data,
                              buf |-> IF IdFamily THEN <<>> ELSE vec,
                              calls |-> calls, err |-> ret.err, rn |-> ret.n, blen |-> Len(vec),
                              pos |-> pos, cap |-> cap, acts |-> SetToSeq(acts)])>>)
=============================================================================
