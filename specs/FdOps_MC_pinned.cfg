CONSTANT Progs <- Pinned
SPECIFICATION Spec
INVARIANTS Emit NoDouble
CHECK_DEADLOCK FALSE
