----------------------------- MODULE ErrnoTable -----------------------------
(* X03 part 3 (enumerated clause, B3): rusl::error::Errno - new/raw round trip, as_str and     *)
(* Display over a range of codes.  harness/src/bin/sigops.rs prints one row per code,           *)
(* lib/checks/x03.py adds the reference names of the code (Linux errno table, with aliases)   *)
(* and splits the text; this module states the clauses and lists the rows that break one.     *)
(*   row: [code, raw, panic, recognised, name, refs (admissible names), display_ok, eq_self]    *)
EXTENDS Naturals, Integers, Sequences, FiniteSets, TLC, Json, IOUtils, SequencesExt
Rows == ndJsonDeserialize(IOEnv.TRACE)
Idx == 1..Len(Rows)

Reasons(k) ==
    LET r == Rows[k] IN
    (IF r.panic THEN {"DisplayPanicked"} ELSE {})
    \cup (IF r.raw # r.code \/ ~r.eq_self THEN {"RoundTrip"} ELSE {})
    \cup (IF ~r.panic /\ ~r.display_ok THEN {"DisplayFormat"} ELSE {})
    \* a text that names an error must name THE error of that number
    \cup (IF r.recognised /\ r.name \notin ToSet(r.refs) THEN {"WrongName"} ELSE {})
    \* two different numbers never share a name (the mapping number -> name is injective)
    \cup (IF r.recognised /\ \E j \in Idx : j # k /\ Rows[j].recognised /\ Rows[j].name = r.name /\ Rows[j].code # r.code
          THEN {"NameSharedByTwoCodes"} ELSE {})
Bad == {k \in Idx : Reasons(k) # {}}
ASSUME PrintT(<<"ERRNO", ToJson([rows |-> Len(Rows),
                                 recognised |-> Cardinality({k \in Idx : Rows[k].recognised}),
                                 bad |-> [k \in Bad |-> [code |-> Rows[k].code, reasons |-> SetToSeq(Reasons(k))]]])>>)
VARIABLE x
Init == x = 0
Next == UNCHANGED x
=============================================================================
