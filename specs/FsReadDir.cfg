CONSTANTS
  NameLens = {1, 12, 100, 181, 205, 213, 221, 229, 237, 245, 255}
  MaxEntries = 4
  Window = 512
  Early = 0
  EodSlack = 0
INIT Init
NEXT Next
INVARIANTS EachOnceInOrder NoPartial
CHECK_DEADLOCK FALSE
