CONSTANTS
  NameLens = {1, 12, 100, 255}
  MaxEntries = 6
  Window = 512
  Early = 0
INIT Init
NEXT Next
INVARIANTS EachOnceInOrder NoPartial
CHECK_DEADLOCK FALSE
