CONSTANTS
  SingleMmap = TRUE
  GuardSingle = TRUE
INIT AInit
NEXT ANext
INVARIANTS TeardownExact
PROPERTIES NothingElse
CHECK_DEADLOCK FALSE
