CONSTANTS
  MaxDrain = 2
SPECIFICATION Spec
INVARIANTS ProbeSmall
CHECK_DEADLOCK FALSE
