CONSTANTS
  WORD = 4
  THRESHOLD = 16
  L = 30
  MaxN = 30
  Fns = {"memcpy", "memmove", "memset"}
  Fills = {0, 165, 421}
  WRAP = 65536
INIT Init
NEXT Next
INVARIANTS DoneCorrect WritesInside ReadsInside WordAligned HeadFits
