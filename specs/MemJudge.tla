----------------------------- MODULE MemJudge -----------------------------
(* C08 judge: reads the lines the no-libc probe (probe/mem) recorded - one real call of the  *)
(* exported memcpy/memmove/memset/memcmp/bcmp symbol per line, with a lossless run-length   *)
(* description of the WHOLE arena after the call - and decides each against Mem.tla.        *)
(*                                                                                           *)
(* The arena initially holds position tags Tag(i) = (i % 251) + 1 (unique below 251 cells,  *)
(* so the result of a copy is a permutation map).  A run <<start, len, 0, off>> says        *)
(* "cell i holds Tag(i+off)" for its cells, <<start, len, 1, v>> says "cell i holds v".     *)
(*  - arenas of at most CellLimit cells are decoded into a memory function and compared     *)
(*    cell by cell with Memmove/Memset of Mem.tla  (CellJudge);                             *)
(*  - larger arenas (lengths up to 1 MiB) are decided on the runs themselves (RunJudge),    *)
(*    which is exactly equivalent because Tag has period 251 - the equivalence is checked   *)
(*    exhaustively by TLC on a scaled-down period in MemRunLemma.tla.                       *)
EXTENDS MemRuns, TLC, Json, IOUtils, SequencesExt
CONSTANTS CellLimit
Rec == ndJsonDeserialize(IOEnv.TRACE)

JudgeCmp(r) == /\ Len(r.a) = r.n /\ Len(r.b) = r.n
               /\ IF r.f = "memcmp" THEN MemcmpOk(r.a, r.b, r.n, r.ret) ELSE BcmpOk(r.a, r.b, r.n, r.ret)

\* a guarded copy (probe mode "guard": the source ends in front of / starts behind an unreadable page): the line
\* carries the source bytes read BEFORE the call and the destination bytes after it - every destination cell holds
\* the ORIGINAL value of its source cell (Memmove restricted to the destination range, any overlap), ret = dest
IsGuard(r) == "G" \in DOMAIN r
JudgeGuardCopy(r) == Len(r.src) = r.n /\ r.dst = r.src /\ r.ret = 0

\* <<accepted, the two ways of judging agree>> - each evaluated once per record
Verdict(r) ==
    IF r.f \in {"memcmp", "bcmp"} THEN <<JudgeCmp(r), TRUE>>
    ELSE IF IsGuard(r) THEN <<JudgeGuardCopy(r), TRUE>>
    ELSE IF ~Pre(r) \/ r.ret # r.d THEN <<FALSE, TRUE>>
    ELSE IF r.L <= CellLimit
         THEN LET c == CellJudge(r)
                  u == RunJudge(r)
              IN <<c, c = u>>
         ELSE <<RunJudge(r), TRUE>>
V == [i \in 1..Len(Rec) |-> Verdict(Rec[i])]
Bad == {i \in 1..Len(Rec) : ~V[i][1]}
\* internal consistency of the two ways of judging, on every small-arena line of this batch
Disagree == {i \in 1..Len(Rec) : ~V[i][2]}
ASSUME PrintT(<<"JUDGED", ToJson([n |-> Len(Rec), bad |-> SetToSeq(Bad), disagree |-> SetToSeq(Disagree)])>>)

VARIABLE x
Init == x = 0
Next == UNCHANGED x
=============================================================================
