CONSTANTS
  Objs <- TraceObjs
  Kind <- TraceKind
  MaxRx = 1000000
  Masks = {}
  DataOf <- TraceData
INIT TInit
NEXT TNext
INVARIANT Done
CHECK_DEADLOCK FALSE
