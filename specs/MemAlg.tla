------------------------------ MODULE MemAlg ------------------------------
(* C08 - algorithm level.  A transcription of tiny-start/src/symbols/mem.rs: memcpy ->       *)
(* copy_forward, memmove -> direction choice by the wrapping pointer delta, then             *)
(* copy_forward / copy_backward, memset -> set_bytes; each with its byte head (align the     *)
(* destination), word body (aligned or misaligned source), byte tail.  One action per loop   *)
(* iteration / per straight-line block, registers dest, src, n, end as in the code.          *)
(* WORD (size_of::<usize>()) and THRESHOLD (WORD_COPY_THRESHOLD) are constants so that the   *)
(* whole (n, d, s) space can be enumerated on a small memory: the case analysis depends on   *)
(* n relative to THRESHOLD and on the residues of the pointers modulo WORD only.             *)
(*                                                                                           *)
(* TLC checks, for EVERY call (fn, n, d, s, c) that fits the memory:                          *)
(*   DoneCorrect   - the final memory is the one Mem.tla defines                             *)
(*   WritesInside  - in every intermediate state all cells outside [d, d+n) are untouched    *)
(*   ReadsInside   - every load is inside [s, s+n)                                           *)
(*   WordAligned   - word stores only to WORD-aligned addresses (the code's raw usize        *)
(*                   stores require it), aligned loop only with aligned source               *)
(*   termination   - no deadlock before "done", <>done.                                      *)
EXTENDS Mem, TLC
CONSTANTS WORD,        \* word size in bytes (power of two)
          THRESHOLD,   \* word-wise path taken iff n >= THRESHOLD
          L,           \* memory size
          MaxN,        \* largest length enumerated
          Fns,         \* subset of {"memcpy","memmove","memset"}
          Fills,       \* int arguments of memset
          WRAP         \* stands for 2^64 in the wrapping subtraction (any value > L)
VARIABLES fn, n0, d0, s0, c0,      \* the call
          mem,                     \* memory
          pc, dest, src, n, end,   \* registers of the running routine
          rd                       \* cells loaded by the last step (observation)
vars == <<fn, n0, d0, s0, c0, mem, pc, dest, src, n, end, rd>>
call == <<fn, n0, d0, s0, c0>>

M0 == [i \in 0..L-1 |-> i + 1]          \* position tags: a result is a permutation map
NegMod(p) == (WORD - (p % WORD)) % WORD \* (p as usize).wrapping_neg() & WORD_MASK
WordsOf(k) == k - (k % WORD)            \* k & !WORD_MASK

Init ==
    /\ fn \in Fns
    /\ n0 \in 0..MaxN
    /\ d0 \in 0..(L - n0)
    /\ IF fn = "memset" THEN s0 = 0 /\ c0 \in Fills
                        ELSE s0 \in 0..(L - n0) /\ c0 = 0
    /\ fn = "memcpy" => Disjoint(d0, s0, n0)
    /\ mem = M0
    /\ pc = "entry" /\ dest = 0 /\ src = 0 /\ n = 0 /\ end = 0 /\ rd = {}

\* ---------------------------------------------------------------------------------------------
Entry ==
    /\ pc = "entry"
    /\ UNCHANGED <<call, mem, end>>
    /\ rd' = {}
    /\ n' = n0
    /\ CASE fn = "memcpy" -> pc' = "cf_start" /\ dest' = d0 /\ src' = s0
         [] fn = "memset" -> pc' = "sb_start" /\ dest' = d0 /\ src' = 0
         [] fn = "memmove" ->
              LET delta == IF d0 >= s0 THEN d0 - s0 ELSE WRAP - (s0 - d0)   \* wrapping_sub
              IN IF delta >= n0
                 THEN pc' = "cf_start" /\ dest' = d0 /\ src' = s0
                 ELSE pc' = "cb_start" /\ dest' = d0 + n0 /\ src' = s0 + n0   \* past-the-end pointers

\* ---- copy_forward -------------------------------------------------------------------------
CfStart ==
    /\ pc = "cf_start"
    /\ UNCHANGED <<call, mem, dest, src>>
    /\ rd' = {}
    /\ IF n >= THRESHOLD
       THEN /\ end' = dest + NegMod(dest)
            /\ n' = n - NegMod(dest)
            /\ pc' = "cf_head"
       ELSE /\ end' = dest + n
            /\ n' = n
            /\ pc' = "cf_tail"
ByteFwd == /\ mem' = [mem EXCEPT ![dest] = mem[src]]
           /\ rd' = {src}
           /\ dest' = dest + 1 /\ src' = src + 1
CfHead ==
    /\ pc = "cf_head"
    /\ UNCHANGED call
    /\ IF dest < end
       THEN ByteFwd /\ UNCHANGED <<pc, n, end>>
       ELSE /\ UNCHANGED <<mem, dest, src>>
            /\ rd' = {}
            /\ end' = dest + WordsOf(n)
            /\ n' = n - WordsOf(n)
            /\ pc' = IF src % WORD = 0 THEN "cf_aligned" ELSE "cf_misaligned"
WordFwd == /\ mem' = [i \in DOMAIN mem |-> IF InRange(i, dest, WORD) THEN mem[src + (i - dest)] ELSE mem[i]]
           /\ rd' = src..(src + WORD - 1)
           /\ dest' = dest + WORD /\ src' = src + WORD
CfWords(label) ==
    /\ pc = label
    /\ UNCHANGED call
    /\ IF dest < end
       THEN WordFwd /\ UNCHANGED <<pc, n, end>>
       ELSE /\ UNCHANGED <<mem, dest, src, n>>
            /\ rd' = {}
            /\ end' = dest + n
            /\ pc' = "cf_tail"
CfAligned == CfWords("cf_aligned")
CfMisaligned == CfWords("cf_misaligned")
CfTail ==
    /\ pc = "cf_tail"
    /\ UNCHANGED call
    /\ IF dest < end
       THEN ByteFwd /\ UNCHANGED <<pc, n, end>>
       ELSE UNCHANGED <<mem, dest, src, n, end>> /\ rd' = {} /\ pc' = "done"

\* ---- copy_backward (pointers are past-the-end) ----------------------------------------------
CbStart ==
    /\ pc = "cb_start"
    /\ UNCHANGED <<call, mem, dest, src>>
    /\ rd' = {}
    /\ IF n >= THRESHOLD
       THEN /\ end' = dest - (dest % WORD)
            /\ n' = n - (dest % WORD)
            /\ pc' = "cb_head"
       ELSE /\ end' = dest - n
            /\ n' = n
            /\ pc' = "cb_tail"
ByteBwd == /\ mem' = [mem EXCEPT ![dest - 1] = mem[src - 1]]
           /\ rd' = {src - 1}
           /\ dest' = dest - 1 /\ src' = src - 1
CbHead ==
    /\ pc = "cb_head"
    /\ UNCHANGED call
    /\ IF end < dest
       THEN ByteBwd /\ UNCHANGED <<pc, n, end>>
       ELSE /\ UNCHANGED <<mem, dest, src>>
            /\ rd' = {}
            /\ end' = dest - WordsOf(n)
            /\ n' = n - WordsOf(n)
            /\ pc' = IF src % WORD = 0 THEN "cb_aligned" ELSE "cb_misaligned"
WordBwd == /\ mem' = [i \in DOMAIN mem |-> IF InRange(i, dest - WORD, WORD) THEN mem[(src - WORD) + (i - (dest - WORD))] ELSE mem[i]]
           /\ rd' = (src - WORD)..(src - 1)
           /\ dest' = dest - WORD /\ src' = src - WORD
CbWords(label) ==
    /\ pc = label
    /\ UNCHANGED call
    /\ IF end < dest
       THEN WordBwd /\ UNCHANGED <<pc, n, end>>
       ELSE /\ UNCHANGED <<mem, dest, src, n>>
            /\ rd' = {}
            /\ end' = dest - n
            /\ pc' = "cb_tail"
CbAligned == CbWords("cb_aligned")
CbMisaligned == CbWords("cb_misaligned")
CbTail ==
    /\ pc = "cb_tail"
    /\ UNCHANGED call
    /\ IF end < dest
       THEN ByteBwd /\ UNCHANGED <<pc, n, end>>
       ELSE UNCHANGED <<mem, dest, src, n, end>> /\ rd' = {} /\ pc' = "done"

\* ---- set_bytes -----------------------------------------------------------------------------
\* broadcast: bytes of the word built by  b |= b << bits; bits *= 2  while bits < WORD*8
RECURSIVE Spread(_, _)
Spread(w, sh) ==   \* w: sequence of WORD bytes (little end first), sh: shift in bytes
    IF sh >= WORD THEN w
    ELSE Spread([k \in 1..WORD |-> IF k > sh /\ w[k] = 0 THEN w[k - sh] ELSE w[k]], 2 * sh)
Broadcast(c) == Spread([k \in 1..WORD |-> IF k = 1 THEN c ELSE 0], 1)
SbStart ==
    /\ pc = "sb_start"
    /\ UNCHANGED <<call, mem, dest, src>>
    /\ rd' = {}
    /\ IF n >= THRESHOLD
       THEN /\ end' = dest + NegMod(dest)
            /\ n' = n - NegMod(dest)
            /\ pc' = "sb_head"
       ELSE /\ end' = dest + n
            /\ n' = n
            /\ pc' = "sb_tail"
ByteSet == /\ mem' = [mem EXCEPT ![dest] = AsByte(c0)]     \* c as u8
           /\ rd' = {}
           /\ dest' = dest + 1 /\ UNCHANGED src
SbHead ==
    /\ pc = "sb_head"
    /\ UNCHANGED call
    /\ IF dest < end
       THEN ByteSet /\ UNCHANGED <<pc, n, end>>
       ELSE /\ UNCHANGED <<mem, dest, src>>
            /\ rd' = {}
            /\ end' = dest + WordsOf(n)
            /\ n' = n - WordsOf(n)
            /\ pc' = "sb_words"
SbWords ==
    /\ pc = "sb_words"
    /\ UNCHANGED call
    /\ IF dest < end
       THEN /\ mem' = [i \in DOMAIN mem |-> IF InRange(i, dest, WORD) THEN Broadcast(AsByte(c0))[i - dest + 1] ELSE mem[i]]
            /\ rd' = {}
            /\ dest' = dest + WORD
            /\ UNCHANGED <<pc, src, n, end>>
       ELSE /\ UNCHANGED <<mem, dest, src, n>>
            /\ rd' = {}
            /\ end' = dest + n
            /\ pc' = "sb_tail"
SbTail ==
    /\ pc = "sb_tail"
    /\ UNCHANGED call
    /\ IF dest < end
       THEN ByteSet /\ UNCHANGED <<pc, n, end>>
       ELSE UNCHANGED <<mem, dest, src, n, end>> /\ rd' = {} /\ pc' = "done"

Done == pc = "done" /\ UNCHANGED vars

Next == \/ Entry
        \/ CfStart \/ CfHead \/ CfAligned \/ CfMisaligned \/ CfTail
        \/ CbStart \/ CbHead \/ CbAligned \/ CbMisaligned \/ CbTail
        \/ SbStart \/ SbHead \/ SbWords \/ SbTail
        \/ Done
Spec == Init /\ [][Next]_vars /\ WF_vars(Next)

\* ---------------------------------------------------------------------------------------------
Def == CASE fn = "memcpy"  -> Memcpy(M0, d0, s0, n0)
         [] fn = "memmove" -> Memmove(M0, d0, s0, n0)
         [] fn = "memset"  -> Memset(M0, d0, c0, n0)
DoneCorrect == pc = "done" => mem = Def
WritesInside == \A i \in DOMAIN mem : ~InRange(i, d0, n0) => mem[i] = M0[i]
ReadsInside == \A i \in rd : InRange(i, s0, n0)
WordLoops == {"cf_aligned", "cf_misaligned", "cb_aligned", "cb_misaligned", "sb_words"}
WordAligned == /\ pc \in WordLoops => dest % WORD = 0
               /\ pc \in {"cf_aligned", "cb_aligned"} => src % WORD = 0
\* the comment in the code: "Because of n >= 2 * WORD_SIZE, dst_misalignment < n"
HeadFits == pc \in {"cf_head", "cb_head", "sb_head"} => n >= 0
Terminates == <>(pc = "done")
=============================================================================
