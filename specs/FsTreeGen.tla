------------------------------ MODULE FsTreeGen ------------------------------
(* B1/B3 generator for C14: TLC enumerates (Mode "enum": breadth-first, every operation     *)
(* sequence of length Depth from every initial tree) or expands (Mode "picks": one sequence  *)
(* per line of the ndjson file IOEnv.PICKS = {"init":k,"picks":[[x1,x2,x3,x4],..]}, the      *)
(* seeded random numbers are decoded into operations against the CURRENT model tree, so     *)
(* never into one that would block on a fifo) operation sequences over the small universe    *)
(* names {a,b,c}, prior states of the target "a" in {absent, short file, long file, empty    *)
(* dir, non-empty dir, link to dir, link to file, dangling link, link loop, link chain,      *)
(* unix socket, dir holding socket + block device}, payloads {2 bytes, 1 byte, EMPTY},       *)
(* path spellings                                                                            *)
(* {a/b, a//b, a/b/, ./a/b, /a/b}.  The model state (tree) is advanced with FsTree!Model so  *)
(* that later operations of a sequence are chosen against the tree the earlier ones leave.   *)
(* Output: <<"I", json>> one line per initial tree, <<"P", json>> one line per sequence.     *)
EXTENDS FsTree, Json, IOUtils, SequencesExt
CONSTANTS Mode, Depth, OpSet        \* OpSet: "all" | "core" (fewer spellings, for Depth >= 2)
VARIABLES iid, tree, hist, cid

S == Small(<<1, 2>>)
L == Small(<<3, 4, 5, 6, 7>>)
M == Small(<<9>>)                 \* one byte

Base == (<<>> :> Dir) @@ (<<"b">> :> Dir) @@ (<<"b", "a">> :> File(L)) @@ (<<"b", "b">> :> Dir)
        @@ (<<"b", "b", "c">> :> File(Empty)) @@ (<<"c">> :> File(M))
WithA(n) == Put(Base, <<"a">>, n)
Inits == <<
    EmptyTree,
    Base,                                                     \* a absent
    WithA(File(S)),
    WithA(File(L)),
    WithA(Dir),
    Put(Put(Put(WithA(Dir), <<"a", "b">>, File(S)), <<"a", "c">>, Dir), <<"a", "c", "a">>, File(M)),
    WithA(Link(<<"b">>)),                                      \* link to a directory
    WithA(Link(<<"c">>)),                                      \* link to a file
    WithA(Link(<<"zz">>)),                                     \* dangling link
    \* a directory holding links (to a directory and a file outside it), a fifo and a subtree
    Put(Put(Put(Put(Put(WithA(Dir), <<"a", "a">>, Link(<<"..", "b">>)), <<"a", "b">>, Fifo),
        <<"a", "c">>, Link(<<"..", "c">>)), <<"a", "d">>, Dir), <<"a", "d", "l">>, Link(<<"..", "..", "b", "b">>)),
    \* a symbolic-link loop a -> b/l -> ../a (ELOOP), and a two-link chain a -> b/l -> ../b/b (a directory)
    Put(WithA(Link(<<"b", "l">>)), <<"b", "l">>, Link(<<"..", "a">>)),
    Put(WithA(Link(<<"b", "l">>)), <<"b", "l">>, Link(<<"..", "b", "b">>)),
    \* the target is a unix socket; a directory holding a socket, a block-device node and a file
    WithA(Sock),
    Put(Put(Put(WithA(Dir), <<"a", "a">>, Sock), <<"a", "b">>, Blk), <<"a", "c">>, File(S))
>>

TreeList(t) == SetToSeq({[p |-> q, n |-> t[q]] : q \in DOMAIN t})

Canon == IF OpSet = "all"
         THEN {<<"a">>, <<"b">>, <<"c">>, <<"a", "b">>, <<"a", "c">>, <<"b", "a">>, <<"b", "b">>,
               <<"a", "b", "c">>, <<"b", "b", "c">>, <<"c", "a">>, <<"a", "b", "c", "a">>, <<"a", "a">>, <<"a", "d">>}
         ELSE {<<"a">>, <<"c">>, <<"a", "b">>}
Spell(k, c) == CASE k = 1 -> c
                 [] k = 2 -> IF Len(c) = 1 THEN <<".", "">> \o c ELSE <<c[1], "">> \o Tail(c)
                 [] k = 3 -> c \o <<"">>
                 [] k = 4 -> <<".">> \o c
                 [] k = 5 -> <<"">> \o c
Spellings == IF OpSet = "all" THEN 1..5 ELSE {1, 3}
Targets == {Spell(k, c) : k \in Spellings, c \in Canon}
Sources == IF OpSet = "all" THEN {<<"a">>, <<"c">>, <<"b", "a">>, <<"b", "b">>, <<"a", "b">>, <<"b", "b", "c">>, <<".", "a", "", "c">>}
           ELSE {<<"a">>, <<"c">>, <<"b", "a">>, <<"a", "b">>}

Op1(op, p)       == [op |-> op, p |-> p, q |-> <<>>, c |-> Empty, f |-> <<>>]
OpC(op, p, c)    == [op |-> op, p |-> p, q |-> <<>>, c |-> c, f |-> <<>>]
Op2(op, p, q)    == [op |-> op, p |-> p, q |-> q, c |-> Empty, f |-> <<>>]
OpF(p, c, f)     == [op |-> "oopen", p |-> p, q |-> <<>>, c |-> c, f |-> f]
AllFlags == [1..6 -> BOOLEAN]
OpenTargets == {<<"a">>, <<"c">>, <<"b", "a">>, <<"a", "b">>, <<"b", "b", "c", "">>}
Unary  == {"read", "read_string", "fread_string", "create_dir", "create_dir_all", "remove_dir_all", "remove_file", "remove_dir",
           "exists", "metadata", "read_dir"}
Writes == {"write"}

\* operations that would open a fifo block for ever: never generated
OpensFifo(t, segs) == LET w == Resolve(t, segs, TRUE) IN w.r = "node" /\ t[w.p].k = "p"
Blocks(t, o) ==
    \/ Escapes(t, o.p) \/ (o.op \in {"copy", "copy_lim", "fcopy", "rename"} /\ Escapes(t, o.q))      \* would act outside the private root
    \/ o.op \in Writes \cup {"oopen", "write_lim", "read", "read_string", "fread_string", "copy", "copy_lim", "fcopy", "fcopy_x", "remove_dir_all", "read_dir"} /\ OpensFifo(t, o.p)
    \/ o.op \in {"copy", "copy_lim", "fcopy"} /\ OpensFifo(t, o.q)
Ops(t) == {o \in {Op1(op, p) : op \in Unary, p \in Targets}
                 \cup {OpC(op, p, c) : op \in Writes, p \in Targets, c \in {S, M, Empty}}
                 \cup {Op2(op, p, q) : op \in {"copy", "rename"}, p \in Sources, q \in Targets}
                 \cup (IF OpSet = "all" THEN {OpF(p, S, f) : p \in OpenTargets, f \in AllFlags}
                                         \cup {OpF(p, Empty, f) : p \in {<<"a">>, <<"b", "a">>}, f \in AllFlags} ELSE {})
                 \cup (IF OpSet = "all" THEN {[op |-> "copy_lim", p |-> p, q |-> q, c |-> [n |-> lim, b |-> <<>>, h |-> ""], f |-> <<>>] :
                                                 p \in {<<"b", "a">>, <<"c">>, <<"a">>}, q \in {<<"a">>, <<"b", "a">>, <<"a", "b">>, <<"b", "x">>},
                                                 lim \in {1, 3}} ELSE {})
                 \cup (IF OpSet = "all" THEN {[op |-> "write_lim", p |-> p, q |-> <<>>, c |-> c, f |-> f] :
                                                 p \in {<<"a">>, <<"b", "a">>, <<"c">>, <<"a", "b">>}, c \in {L, S},
                                                 f \in {<<>>, <<FALSE, FALSE, TRUE, FALSE, TRUE, FALSE>>,       \* append + create
                                                        <<FALSE, TRUE, FALSE, FALSE, TRUE, FALSE>>,        \* write + create (overlay)
                                                        <<FALSE, TRUE, FALSE, TRUE, FALSE, FALSE>>}} ELSE {})   \* write + truncate
                 \cup (IF OpSet = "all" THEN {[op |-> "fcopy", p |-> p, q |-> q, c |-> [n |-> k, b |-> <<>>, h |-> ""], f |-> <<>>] :
                                                 p \in {<<"b", "a">>, <<"c">>}, q \in {<<"a">>, <<"a", "b">>, <<"b", "x">>}, k \in {0, 2, 9}}
                                         \cup {[op |-> "fcopy_x", p |-> p, q |-> <<>>, c |-> [n |-> k, b |-> <<>>, h |-> ""], f |-> <<>>] :
                                                 p \in {<<"b", "a">>, <<"c">>, <<"a">>}, k \in {0, 2, 9}} ELSE {}) :
              ~Blocks(t, o) /\ ~(o.op \in {"copy", "copy_lim", "fcopy"} /\ CopySameNode(t, o.p, o.q))}

Picks == IF Mode = "picks" THEN ndJsonDeserialize(IOEnv.PICKS) ELSE <<>>
KindSeq   == <<"read", "create_dir", "create_dir_all", "remove_dir_all", "remove_file", "remove_dir", "exists",
               "metadata", "read_dir", "write", "oopen", "oopen", "oopen", "write", "read",
               "copy", "rename", "write", "create_dir_all", "remove_dir_all", "copy", "rename">>
FlagSeq   == SetToSeq(AllFlags)
TargetSeq == SetToSeq(Targets)
SourceSeq == SetToSeq(Sources)
At(sq, x) == sq[(x % Len(sq)) + 1]
Decode(t, x) ==
    LET k == At(KindSeq, x[1])
        o == IF k \in Unary THEN Op1(k, At(TargetSeq, x[2]))
             ELSE IF k \in {"copy", "rename"} THEN Op2(k, At(SourceSeq, x[2]), At(TargetSeq, x[3]))
             ELSE IF k = "oopen" THEN OpF(At(TargetSeq, x[2]), At(<<S, M, Empty>>, x[4]), At(FlagSeq, x[3]))
             ELSE OpC(k, At(TargetSeq, x[2]), At(<<S, M, Empty>>, x[4]))
    IN IF Blocks(t, o) \/ (o.op = "copy" /\ CopySameNode(t, o.p, o.q)) THEN Op1("exists", o.p) ELSE o

Init == /\ IF Mode = "picks" THEN cid \in 1..Len(Picks) /\ iid = Picks[cid].init
                              ELSE cid = 0 /\ iid \in 1..Len(Inits)
        /\ tree = Inits[iid]
        /\ hist = <<>>
Next == /\ IF Mode = "picks"
           THEN /\ Len(hist) < Len(Picks[cid].picks)
                /\ LET o == Decode(tree, Picks[cid].picks[Len(hist) + 1]) IN
                   hist' = Append(hist, o) /\ tree' = Model(tree, o)
           ELSE /\ Len(hist) < Depth
                /\ \E o \in Ops(tree) : hist' = Append(hist, o) /\ tree' = Model(tree, o)
        /\ UNCHANGED <<iid, cid>>
EmitInits == PrintT(<<"I", ToJson([trees |-> [k \in 1..Len(Inits) |-> TreeList(Inits[k])]])>>)
ASSUME EmitInits
Emit == Len(hist) = (IF Mode = "picks" THEN Len(Picks[cid].picks) ELSE Depth)
           => PrintT(<<"P", ToJson([init |-> iid, ops |-> hist])>>)
\* the reference semantics keeps trees well-formed (checked on every generated state)
Sane == WellFormed(tree)
=============================================================================
