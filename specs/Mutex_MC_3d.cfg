CONSTANTS
  N = 3
  Progs <- P3d
  Ord <- OrdCode
  MaxSpur = 1
  MaxEintr = 0
SPECIFICATION Spec
INVARIANTS TypeOK MutualExclusion RaceFree TryLockHonest TryNeverBlocks NoLostWakeup WordAgrees Progress
PROPERTY Termination
CHECK_DEADLOCK FALSE
