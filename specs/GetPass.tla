------------------------------ MODULE GetPass ------------------------------
(* X03 part 2: the terminal state around tiny_std::linux::get_pass::get_pass(buf)             *)
(* (tiny-std/src/linux/get_pass.rs; rusl::termios::{tcgetattr, tcsetattr}).                   *)
(*                                                                                          *)
(* "Sets the terminal to no echo and waits for a line to be entered. ... If the buffer is     *)
(* too small to fit the input, an attempt will be made to drain stdin and then return an      *)
(* error."  Property: echo is off whenever the function reads, and the terminal has its       *)
(* original attributes again on EVERY exit path (success, EOF, read error, buffer too small,   *)
(* drain error) - unless the restoring call itself fails.                                     *)
(*                                                                                          *)
(* This module is the REQUIRED behaviour: the steps of a get_pass that keeps the property,    *)
(* with a possible fault at every system call.  The terminal is abstracted to the two local   *)
(* flags the function touches (everything else is compared bit for bit by the harness and      *)
(* reported as `same`).                                                                      *)
EXTENDS Naturals
CONSTANTS MaxDrain        \* bound on "more" drain rounds (model checking / generation only)

VARIABLES term,      \* [echo, echonl]   the terminal's flags now
          orig,      \* the flags when the function was called
          saved,     \* what tcgetattr returned
          pc,        \* "start" | "get" | "set" | "read" | "drain" | "restore" | "ret" | "done"
          empty,     \* the caller's buffer has length 0
          outcome,   \* "none" | "line" | "small" | "err" | "early"   what the function has to report
          restoreFailed,
          drains,    \* drain rounds so far
          res        \* "none" | "ok" | "err"
vars == <<term, orig, saved, pc, empty, outcome, restoreFailed, drains, res>>

Term == [echo : BOOLEAN, echonl : BOOLEAN]
NoEcho(t) == [echo |-> FALSE, echonl |-> TRUE]      \* c_lflag & ~ECHO | ECHONL

TypeOK == /\ term \in Term /\ orig \in Term /\ saved \in Term
          /\ pc \in {"start", "get", "set", "read", "drain", "restore", "ret", "done"}
          /\ empty \in BOOLEAN /\ restoreFailed \in BOOLEAN /\ drains \in Nat
          /\ outcome \in {"none", "line", "small", "err", "early"}
          /\ res \in {"none", "ok", "err"}

Init == /\ term \in Term /\ orig = term /\ saved = [echo |-> TRUE, echonl |-> FALSE]
        /\ pc = "start" /\ empty \in BOOLEAN /\ outcome = "none" /\ restoreFailed = FALSE
        /\ drains = 0 /\ res = "none"

\* a zero-length buffer is refused before the terminal is looked at
Begin == /\ pc = "start"
         /\ IF empty THEN pc' = "ret" /\ outcome' = "early" ELSE pc' = "get" /\ UNCHANGED outcome
         /\ UNCHANGED <<term, orig, saved, empty, restoreFailed, drains, res>>
\* tcgetattr(STDIN)
Get(ok) == /\ pc = "get"
           /\ IF ok THEN saved' = term /\ pc' = "set" /\ UNCHANGED outcome
              ELSE pc' = "ret" /\ outcome' = "early" /\ UNCHANGED saved
           /\ UNCHANGED <<term, orig, empty, restoreFailed, drains, res>>
\* tcsetattr(STDIN, NOW, saved without ECHO, with ECHONL)
Set(ok) == /\ pc = "set"
           /\ IF ok THEN term' = NoEcho(saved) /\ pc' = "read" /\ UNCHANGED outcome
              ELSE pc' = "ret" /\ outcome' = "early" /\ UNCHANGED term
           /\ UNCHANGED <<orig, saved, empty, restoreFailed, drains, res>>
\* the read of the line: r = "fits" (a whole line or EOF), "full" (buffer full, no newline), "err"
Read(r) == /\ pc = "read"
           /\ CASE r = "fits" -> pc' = "restore" /\ outcome' = "line"
                [] r = "full" -> pc' = "drain" /\ outcome' = "small"
                [] r = "err" -> pc' = "restore" /\ outcome' = "err"
           /\ UNCHANGED <<term, orig, saved, empty, restoreFailed, drains, res>>
\* draining the rest of an over-long line: "more" (again full, no newline), "end", "err"
Drain(r) == /\ pc = "drain"
            /\ CASE r = "more" -> drains < MaxDrain /\ pc' = "drain" /\ UNCHANGED outcome
                 [] r = "end" -> pc' = "restore" /\ UNCHANGED outcome
                 [] r = "err" -> pc' = "restore" /\ outcome' = "err"
            /\ drains' = drains + 1
            /\ UNCHANGED <<term, orig, saved, empty, restoreFailed, res>>
\* tcsetattr(STDIN, NOW, saved)
Restore(ok) == /\ pc = "restore"
               /\ IF ok THEN term' = saved /\ UNCHANGED restoreFailed
                  ELSE restoreFailed' = TRUE /\ UNCHANGED term
               /\ pc' = "ret"
               /\ UNCHANGED <<orig, saved, empty, outcome, drains>> /\ res' = res
\* a second attempt after a failed restore is welcome
RetryRestore(ok) == /\ pc = "ret" /\ restoreFailed
                    /\ IF ok THEN term' = saved /\ restoreFailed' = FALSE ELSE UNCHANGED <<term, restoreFailed>>
                    /\ UNCHANGED <<orig, saved, pc, empty, outcome, drains, res>>
\* the result: Ok only for a line that was read (it may still be refused: not UTF-8)
CanReturn(r) == /\ pc = "ret"
                /\ r = "ok" => outcome = "line" /\ ~restoreFailed
                /\ r = "err" => TRUE
Return(r) == /\ CanReturn(r)
             /\ res' = r /\ pc' = "done"
             /\ UNCHANGED <<term, orig, saved, empty, outcome, restoreFailed, drains>>

Next == \/ Begin
        \/ \E ok \in BOOLEAN : Get(ok) \/ Set(ok) \/ Restore(ok) \/ RetryRestore(ok)
        \/ \E r \in {"fits", "full", "err"} : Read(r)
        \/ \E r \in {"more", "end", "err"} : Drain(r)
        \/ \E r \in {"ok", "err"} : Return(r)
Spec == Init /\ [][Next]_vars /\ WF_vars(Next)

\* ------------------------------------------------------------------ properties
EchoOffWhileReading == pc \in {"read", "drain"} => ~term.echo
RestoredOnEveryExit == pc = "done" => term = orig \/ restoreFailed
UntouchedUntilSet == pc \in {"start", "get", "set"} => term = orig
OkMeansLine == res = "ok" => outcome = "line" /\ term = orig
Terminates == <>(pc = "done")
\* reachability probes (must be violated)
ProbeSmall == ~(pc = "done" /\ outcome = "small" /\ drains = 2)
ProbeRestoreFailed == ~(pc = "done" /\ restoreFailed)
=============================================================================
