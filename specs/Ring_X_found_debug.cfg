CONSTANTS
  NS = 2
  NC = 2
  H = 8
  Side = "both"
  SqStarts <- AllStarts
  CqStarts <- AllStarts
  Wrapping = FALSE
  DebugChecks = TRUE
  CqEmptyLE = TRUE
  AtomicReapRead = TRUE
INIT Init
NEXT Next
INVARIANTS TypeOK PropertyHolds
CHECK_DEADLOCK FALSE
