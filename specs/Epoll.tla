------------------------------- MODULE Epoll -------------------------------
(* X01 - readiness multiplexing: tiny_std::linux::epoll::EpollDriver (create / register /     *)
(* modify / unregister / wait), rusl::select::{epoll_create, epoll_ctl, epoll_del,           *)
(* epoll_wait} and rusl::select::ppoll.                                                      *)
(*                                                                                          *)
(* Watched objects.  Object o is ONE END of a kernel channel; the other end (the "peer") is  *)
(* driven directly by the test driver.  kind[o] is                                            *)
(*   "sock"    one end of a socketpair(AF_UNIX, SOCK_STREAM): readable and writable          *)
(*   "pipe_r"  the read end of a pipe        "pipe_w"  the write end of a pipe                *)
(* (the kind is kept in the object's state, obj[o].kind, so that the trace specification can  *)
(* replay sequences over different sets of objects).                                         *)
(* Its state: rx = bytes that can be read from it now (0..MaxRx), full = its outgoing buffer  *)
(* is full (a write would block), peer = "open" | "closed".                                  *)
(*                                                                                          *)
(* Readiness is described by two sets per object, because the man pages do not pin down      *)
(* every bit in every state: Req(o, m) = the events that MUST be reported for interest mask  *)
(* m, Allowed(o, m) = the events that MAY be reported.  Where the documentation is silent    *)
(* (what else is set once the peer is gone) Allowed is generous.                              *)
(*                                                                                          *)
(* Interest list.  interest[o] = None or [data, mask, edge, disabled]:                        *)
(*   mask \subseteq {"IN","OUT","RDHUP","ET","ONESHOT"}                                      *)
(*   edge (meaningful with ET):  "must" - an edge happened that has not been reported yet;   *)
(*        "may" - something touched the object since the last report (the kernel may or may  *)
(*        not queue it again); "no" - reported and untouched since: must not be reported      *)
(*   disabled: a ONESHOT entry that has fired and was not re-armed by Modify                  *)
(*                                                                                          *)
(* Wait(max, timeout) -> result.  WaitReasons lists the clauses of the property that a given *)
(* result breaks; the property is "every result has WaitReasons = {}":                        *)
(*   - at most max entries, no entry twice, every entry carries the user data of a currently  *)
(*     registered, not disabled object (never an unregistered / deleted one)                  *)
(*   - the events of an entry lie between Req and Allowed of its object                       *)
(*   - every object that must be reported is reported when the result has room for all of     *)
(*     them, and the result is not empty when some object must be reported                    *)
(*   - an empty result only after the timeout has elapsed (lower bound; never early)          *)
(*   - level-triggered readiness persists until drained; an edge-triggered entry is not       *)
(*     reported again without new activity; a fired ONESHOT entry stays silent until Modify   *)
EXTENDS Integers, FiniteSets, Sequences

CONSTANTS Objs,        \* set of object ids
          Kind,        \* function Objs -> {"sock", "pipe_r", "pipe_w"}
          MaxRx,       \* bound of rx in the model
          Masks,       \* the interest masks the model registers
          DataOf(_, _) \* user data of (object, generation)
VARIABLES obj, interest
vars == <<obj, interest>>

None == [none |-> TRUE]
EvBits == {"IN", "OUT", "RDHUP"}
Flags == {"ET", "ONESHOT"}

CanRead(o)  == obj[o].kind \in {"sock", "pipe_r"} /\ ~obj[o].closed
CanWrite(o) == obj[o].kind \in {"sock", "pipe_w"} /\ ~obj[o].closed

\* ------------------------------------------------------------------ readiness of an object
ReqEv(s, k, m) ==
    (IF "IN" \in m /\ s.rx > 0 THEN {"IN"} ELSE {})
    \cup (IF "OUT" \in m /\ k \in {"sock", "pipe_w"} /\ ~s.full /\ s.peer = "open" THEN {"OUT"} ELSE {})
    \cup (IF s.peer = "closed" /\ k \in {"sock", "pipe_r"} THEN {"HUP"} ELSE {})
    \cup (IF s.peer = "closed" /\ k = "pipe_w" THEN {"ERR"} ELSE {})
AllowedEv(s, k, m) ==
    (IF "IN" \in m /\ (s.rx > 0 \/ (s.peer = "closed" /\ k \in {"sock", "pipe_r"})) THEN {"IN"} ELSE {})
    \cup (IF "OUT" \in m /\ k \in {"sock", "pipe_w"} /\ (~s.full \/ s.peer = "closed") THEN {"OUT"} ELSE {})
    \cup (IF "RDHUP" \in m /\ s.peer = "closed" /\ k = "sock" THEN {"RDHUP"} ELSE {})
    \cup (IF s.peer = "closed" THEN {"HUP", "ERR"} ELSE {})
Req(o, m) == ReqEv(obj[o], obj[o].kind, m)
Allowed(o, m) == AllowedEv(obj[o], obj[o].kind, m)

Registered(o) == interest[o] # None
IsET(o) == "ET" \in interest[o].mask
MustReport(o) ==
    /\ Registered(o) /\ ~interest[o].disabled
    /\ Req(o, interest[o].mask) # {}
    /\ (IsET(o) => interest[o].edge = "must")
MayReport(o) ==
    /\ Registered(o) /\ ~interest[o].disabled
    /\ Allowed(o, interest[o].mask) # {}
    /\ (IsET(o) => interest[o].edge \in {"must", "may"})

\* ------------------------------------------------------------------ the Wait clauses
\* result: sequence of [data |-> d, ev |-> set of event names]; us = elapsed microseconds;
\* timeout in milliseconds (-1 = for ever, 0 = do not wait)
ObjOfData(d) == {o \in Objs : Registered(o) /\ interest[o].data = d}
WaitReasons(max, timeout, res, us) ==
    LET idx == 1..Len(res)
        known == {i \in idx : ObjOfData(res[i].data) # {}}
        objOf(i) == CHOOSE o \in ObjOfData(res[i].data) : TRUE
        reported == {objOf(i) : i \in known}
        must == {o \in Objs : MustReport(o)}
    IN  (IF Len(res) > max THEN {"TooMany"} ELSE {})
        \cup (IF \E i \in idx : i \notin known THEN {"UnknownUserData"} ELSE {})
        \cup (IF \E i, j \in idx : i # j /\ res[i].data = res[j].data THEN {"ReportedTwice"} ELSE {})
        \cup (IF \E i \in known : ~MayReport(objOf(i)) THEN {"NotReady"} ELSE {})
        \cup (IF \E i \in known : MayReport(objOf(i)) /\ ~(res[i].ev \subseteq Allowed(objOf(i), interest[objOf(i)].mask))
              THEN {"EventsNotAllowed"} ELSE {})
        \cup (IF \E i \in known : MayReport(objOf(i)) /\ ~(Req(objOf(i), interest[objOf(i)].mask) \subseteq res[i].ev)
                                  /\ (IsET(objOf(i)) => interest[objOf(i)].edge = "must")
              THEN {"EventsMissing"} ELSE {})
        \cup (IF \E i \in idx : res[i].ev = {} THEN {"EmptyEvents"} ELSE {})
        \cup (IF must # {} /\ Len(res) = 0 THEN {"EmptyButReady"} ELSE {})
        \cup (IF Cardinality(must) <= max /\ ~(must \subseteq reported) /\ Len(res) > 0 THEN {"ReadyNotReported"} ELSE {})
        \cup (IF Len(res) = 0 /\ timeout > 0 /\ us < timeout * 1000 THEN {"EarlyTimeout"} ELSE {})

\* how the interest list changes when `reported` (a set of objects) has been handed to the caller
AfterReport(reported) ==
    [o \in Objs |->
        IF o \in reported /\ Registered(o)
        THEN [interest[o] EXCEPT !.edge = IF "ET" \in interest[o].mask THEN "no" ELSE @,
                                 !.disabled = ("ONESHOT" \in interest[o].mask) \/ @]
        ELSE interest[o]]

\* ------------------------------------------------------------------ actions
NewObj(k) == [kind |-> k, rx |-> 0, full |-> FALSE, peer |-> "open", closed |-> FALSE]
Init == /\ obj = [o \in Objs |-> NewObj(Kind[o])]
        /\ interest = [o \in Objs |-> None]

\* an edge for the entry of o: kind "must" when the operation creates / re-signals a condition
\* the entry waits for, else "may"
Touch(o, level) ==
    interest' = [interest EXCEPT ![o] =
        IF interest[o] = None THEN None
        ELSE [@ EXCEPT !.edge = IF level = "must" \/ @ = "must" THEN "must" ELSE "may"]]

\* epoll_ctl(ADD): EEXIST if already there; ok otherwise
Register(o, gen, m) ==
    /\ ~Registered(o) /\ ~obj[o].closed
    /\ interest' = [interest EXCEPT ![o] = [data |-> DataOf(o, gen), mask |-> m, edge |-> "must", disabled |-> FALSE]]
    /\ UNCHANGED obj
RegisterTwice(o) == Registered(o) /\ UNCHANGED vars                 \* result: EEXIST
Modify(o, gen, m) ==
    /\ Registered(o)
    /\ interest' = [interest EXCEPT ![o] = [data |-> DataOf(o, gen), mask |-> m, edge |-> "must", disabled |-> FALSE]]
    /\ UNCHANGED obj
ModifyUnknown(o) == ~Registered(o) /\ ~obj[o].closed /\ UNCHANGED vars   \* result: ENOENT
Unregister(o) == Registered(o) /\ interest' = [interest EXCEPT ![o] = None] /\ UNCHANGED obj
UnregisterUnknown(o) == ~Registered(o) /\ ~obj[o].closed /\ UNCHANGED vars \* result: ENOENT
\* the owner closes the watched descriptor itself: the kernel drops the entry with the last
\* reference to the open file (the driver holds no duplicate); from then on the object is never
\* reported and every epoll_ctl on its number fails with EBADF
CloseWatched(o) == /\ ~obj[o].closed
                   /\ obj' = [obj EXCEPT ![o].closed = TRUE]
                   /\ interest' = [interest EXCEPT ![o] = None]
CtlOnClosed(o) == obj[o].closed /\ UNCHANGED vars                     \* result: EBADF

PeerWrite(o) == /\ CanRead(o) /\ obj[o].peer = "open" /\ obj[o].rx < MaxRx
                /\ obj' = [obj EXCEPT ![o].rx = @ + 1]
                /\ Touch(o, IF Registered(o) /\ "IN" \in interest[o].mask THEN "must" ELSE "may")
ReadOne(o) == /\ CanRead(o) /\ obj[o].rx > 0
              /\ obj' = [obj EXCEPT ![o].rx = @ - 1]
              /\ UNCHANGED interest                                  \* reading creates no edge
ReadAll(o) == /\ CanRead(o) /\ obj[o].rx > 0
              /\ obj' = [obj EXCEPT ![o].rx = 0]
              /\ UNCHANGED interest
Fill(o) == /\ CanWrite(o) /\ obj[o].peer = "open" /\ ~obj[o].full
           /\ obj' = [obj EXCEPT ![o].full = TRUE]
           /\ UNCHANGED interest
PeerDrain(o) == /\ CanWrite(o) /\ obj[o].peer = "open" /\ obj[o].full
                /\ obj' = [obj EXCEPT ![o].full = FALSE]
                /\ Touch(o, IF Registered(o) /\ "OUT" \in interest[o].mask THEN "must" ELSE "may")
ClosePeer(o) == /\ obj[o].peer = "open" /\ ~obj[o].closed
                /\ obj' = [obj EXCEPT ![o].peer = "closed"]
                /\ Touch(o, "must")

\* Wait with some admissible result (the model only needs which objects were reported)
Wait(max, reported) ==
    /\ reported \subseteq {o \in Objs : MayReport(o)}
    /\ Cardinality(reported) <= max
    /\ LET must == {o \in Objs : MustReport(o)}
       IN  /\ (must # {} => reported # {})
           /\ (Cardinality(must) <= max /\ reported # {} => must \subseteq reported)
    /\ interest' = AfterReport(reported)
    /\ UNCHANGED obj

Next == \/ \E o \in Objs, g \in 0..1, m \in Masks : Register(o, g, m) \/ Modify(o, g, m)
        \/ \E o \in Objs : \/ RegisterTwice(o) \/ ModifyUnknown(o) \/ Unregister(o) \/ UnregisterUnknown(o)
                           \/ CloseWatched(o) \/ CtlOnClosed(o)
                           \/ PeerWrite(o) \/ ReadOne(o) \/ ReadAll(o) \/ Fill(o) \/ PeerDrain(o) \/ ClosePeer(o)
        \/ \E max \in 1..2, rep \in SUBSET Objs : Wait(max, rep)
Spec == Init /\ [][Next]_vars

\* ------------------------------------------------------------------ checked on the model
TypeOK == /\ \A o \in Objs : obj[o].closed \in BOOLEAN
          /\ \A o \in Objs : obj[o].rx \in 0..MaxRx /\ obj[o].full \in BOOLEAN /\ obj[o].peer \in {"open", "closed"}
          /\ \A o \in Objs : interest[o] = None \/ (interest[o].mask \in Masks /\ interest[o].edge \in {"must", "may", "no"})
\* the oracle never demands the impossible: what must be reported may be reported, required
\* events are allowed events, and every Wait has an admissible answer
Consistent == \A o \in Objs : /\ MustReport(o) => MayReport(o)
                              /\ Registered(o) => Req(o, interest[o].mask) \subseteq Allowed(o, interest[o].mask)
Answerable == \A max \in 1..2 : \E rep \in SUBSET Objs : ENABLED Wait(max, rep)
\* level-triggered readiness persists until drained, whatever was reported before
LevelPersists == \A o \in Objs :
    (Registered(o) /\ interest[o].mask \cap Flags = {} /\ "IN" \in interest[o].mask /\ obj[o].rx > 0) => MustReport(o)
\* a fired ONESHOT entry and an edge-triggered entry without new activity stay silent
OneshotSilent == \A o \in Objs : (Registered(o) /\ interest[o].disabled) => ~MayReport(o)
EdgeSilent == \A o \in Objs : (Registered(o) /\ IsET(o) /\ interest[o].edge = "no") => ~MayReport(o)
UnregisteredSilent == \A o \in Objs : ~Registered(o) => ~MayReport(o)
ClosedSilent == \A o \in Objs : obj[o].closed => (~Registered(o) /\ ~MayReport(o))
\* reachability probes (violated on purpose)
ProbeEdgeNo == ~(\E o \in Objs : Registered(o) /\ IsET(o) /\ interest[o].edge = "no" /\ obj[o].rx > 0)
ProbeDisabled == ~(\E o \in Objs : Registered(o) /\ interest[o].disabled /\ obj[o].rx > 0)
=============================================================================
