CONSTANTS
  Alpha = {"a", "b", "/"}
  MaxLen = 5
  BufMax = 4
  Algo = "fixed"
INIT Init
NEXT Next
INVARIANTS PostCondition NeverPanics Untouched
CHECK_DEADLOCK FALSE
