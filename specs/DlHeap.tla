------------------------------ MODULE DlHeap ------------------------------
(* Algorithm level of the allocator (growth step of C03/C04): the heap as dlmalloc.rs lays it  *)
(* out - segments tiled by chunks with boundary tags - and its relation to the property level *)
(* (AllocAbs: live blocks, memory held from the OS).                                          *)
(*                                                                                            *)
(* Part A (this module's operators over a layout H): structural invariants of a chunk layout  *)
(* and the refinement relation layout <-> (live, mapped).  AllocTrace.tla evaluates them on   *)
(* the layouts the REAL allocator reports through the cfg-only accessors                      *)
(* Dlmalloc::verif_segments / verif_heap_walk after every call (events "heap").  A mismatch   *)
(* here is MODEL DRIFT (evidence: model_conformance = false), never a VIOLATION: verdicts     *)
(* are taken at the property level only.                                                      *)
(*                                                                                            *)
(* Part B (DlHeapMC.tla): a chunk-level design (first-fit-any policy: ANY free chunk that     *)
(* fits, the code's split / coalesce / top / segment rules) that TLC checks against the same  *)
(* structural invariants, the refinement relation and every invariant of AllocAbs             *)
(* (DlHeap => AllocAbs on the bounded configuration).                                         *)
(*                                                                                            *)
(* A layout H is a sequence of segments, newest (the one holding top) first:                  *)
(*    [base |-> b, size |-> s, chunks |-> << <<addr, size, kind>>, ... >>]                     *)
(* kind: 0 free (binned), 1 in use, 2 designated victim, 3 top.  The walk of a segment stops  *)
(* at top or at the first fence post, so the foot of the head segment and the fences of an    *)
(* older segment are not chunks of the layout.                                                *)
EXTENDS Integers, Sequences, FiniteSets, FiniteSetsExt

CONSTANTS
    Al,        \* malloc alignment = offset of the payload in a chunk (16)
    Ovh,       \* bytes of a chunk its owner cannot use (8)
    MinChunk,  \* smallest chunk (32)
    Foot,      \* bytes behind top in the head segment (80)
    RecSize,   \* size of the in-use chunk holding the segment record of an older segment (48)
    Tails      \* possible distances from the end of that chunk to the end of its segment ({32, 48})

Max2h(a, b) == IF a > b THEN a ELSE b
AlignUp(x, a) == ((x + a - 1) \div a) * a
\* chunk size the allocator computes for a request (request2size)
Nb(size) == Max2h(MinChunk, AlignUp(size + Ovh, Al))
\* ... and for an over-aligned request (memalign: nb + alignment + MinChunk - Ovh, padded)
NbAligned(size, align) == IF align <= Al THEN Nb(size)
                          ELSE Nb(Nb(size) + Max2h(align, MinChunk) + MinChunk - Ovh)

CAddr(c) == c[1]
CSize(c) == c[2]
CKind(c) == c[3]
CEnd(c) == c[1] + c[2]
IsFreeKind(c) == c[3] \in {0, 2, 3}

Idx(s) == 1 .. Len(s.chunks)
AllChunks(H) == UNION {{<<k, i>> : i \in 1 .. Len(H[k].chunks)} : k \in 1 .. Len(H)}
ChunkAt(H, ki) == H[ki[1]].chunks[ki[2]]
ChunkSet(H) == UNION {{H[k].chunks[i] : i \in 1 .. Len(H[k].chunks)} : k \in 1 .. Len(H)}

-----------------------------------------------------------------------------
(* structural invariants of a layout *)

\* chunks tile a segment from its base without gap or overlap
Tiled(s) == /\ Len(s.chunks) > 0 => CAddr(s.chunks[1]) = s.base
            /\ \A i \in 1 .. Len(s.chunks) - 1 : CAddr(s.chunks[i + 1]) = CEnd(s.chunks[i])
\* sizes are multiples of the alignment; only top may be smaller than the minimal chunk
SizesOK(s) == \A i \in Idx(s) : LET c == s.chunks[i] IN
                 /\ CSize(c) > 0 /\ CSize(c) % Al = 0 /\ CAddr(c) % Al = 0
                 /\ (CKind(c) # 3 => CSize(c) >= MinChunk)
\* eager coalescing: no two neighbouring chunks are both free (bin, dv or top)
NoAdjacentFree(s) == \A i \in 1 .. Len(s.chunks) - 1 : ~(IsFreeKind(s.chunks[i]) /\ IsFreeKind(s.chunks[i + 1]))
\* a free chunk (bin or dv) keeps a copy of its size in the word behind it (the next chunk's
\* prev_foot): backward coalescing trusts it.  chunk[4] is that word as read by the driver
\* (absent or negative: not observed)
FootOK(s) == \A i \in Idx(s) : LET c == s.chunks[i] IN
                 (CKind(c) \in {0, 2} /\ Len(c) >= 4 /\ c[4] >= 0) => c[4] = CSize(c)
\* exactly one top, the last chunk of the head segment, Foot bytes before its end; at most one dv
HeadOK(H) == Len(H) > 0 =>
    LET s == H[1] n == Len(s.chunks) IN
        /\ n > 0 /\ CKind(s.chunks[n]) = 3
        /\ CEnd(s.chunks[n]) + Foot = s.base + s.size
        /\ Cardinality({c \in ChunkSet(H) : CKind(c) = 3}) = 1
        /\ Cardinality({c \in ChunkSet(H) : CKind(c) = 2}) <= 1
\* an older segment ends with the in-use chunk holding its segment record, then fence posts
IsRecord(H, k, i) == k > 1 /\ i = Len(H[k].chunks) /\ CKind(H[k].chunks[i]) = 1 /\ CSize(H[k].chunks[i]) = RecSize
TailOK(H) == \A k \in 2 .. Len(H) :
    LET s == H[k] n == Len(s.chunks) IN
        /\ n > 0 /\ IsRecord(H, k, n)
        /\ (s.base + s.size - CEnd(s.chunks[n])) \in Tails
SegsDisjoint(H) == \A j, k \in 1 .. Len(H) : j # k =>
    (H[j].base + H[j].size <= H[k].base \/ H[k].base + H[k].size <= H[j].base)

Structural(H) == /\ \A k \in 1 .. Len(H) : Tiled(H[k]) /\ SizesOK(H[k]) /\ NoAdjacentFree(H[k]) /\ FootOK(H[k])
                 /\ HeadOK(H) /\ TailOK(H) /\ SegsDisjoint(H)

-----------------------------------------------------------------------------
(* refinement relation: layout <-> property-level state (live blocks, mapped memory) *)

InUseAt(H) == {ki \in AllChunks(H) : CKind(ChunkAt(H, ki)) = 1}
Owners(c, live) == {b \in live : b.addr = CAddr(c) + Al}
\* every live block is the payload of an in-use chunk that is big enough ...
BlocksHoused(H, live) == \A b \in live : \E c \in ChunkSet(H) :
    CKind(c) = 1 /\ CAddr(c) + Al = b.addr /\ b.size + Ovh <= CSize(c)
\* ... and not wastefully big (a remainder of MinChunk or more is split off)
NoWaste(H, live) == \A c \in ChunkSet(H) : \A b \in Owners(c, live) :
    CKind(c) = 1 => CSize(c) <= Nb(b.size) + MinChunk
\* nothing is lost: every in-use chunk has an owner or is a segment record
NoLeak(H, live) == \A ki \in InUseAt(H) :
    Owners(ChunkAt(H, ki), live) # {} \/ IsRecord(H, ki[1], ki[2])
\* the segment list is exactly the memory held from the OS (mapped: normalised interval set)
SegBytes(H) == FoldSet(LAMBDA k, acc : acc + H[k].size, 0, 1 .. Len(H))
HeldIsSegments(H, mapped) ==
    /\ \A k \in 1 .. Len(H) : \E m \in mapped : m.lo <= H[k].base /\ H[k].base + H[k].size <= m.hi
    /\ SegBytes(H) = FoldSet(LAMBDA m, acc : acc + (m.hi - m.lo), 0, mapped)

Refines(H, live, mapped) == /\ BlocksHoused(H, live) /\ NoWaste(H, live) /\ NoLeak(H, live)
                            /\ HeldIsSegments(H, mapped)

\* chunk-exact form of "freed space is reused": would the allocator's own rules have found room
\* for this request in layout H (a free chunk or dv of at least nb bytes, or more than nb in top)?
HasRoom(H, size, align) ==
    LET nb == NbAligned(size, align) IN
        \E c \in ChunkSet(H) : \/ CKind(c) \in {0, 2} /\ CSize(c) >= nb
                               \/ CKind(c) = 3 /\ CSize(c) > nb

\* names of the failed conjuncts, for the evidence
Drift(H, live, mapped) ==
    {n \in {"Tiled", "SizesOK", "NoAdjacentFree", "FootOK", "HeadOK", "TailOK", "SegsDisjoint",
            "BlocksHoused", "NoWaste", "NoLeak", "HeldIsSegments"} :
        ~ CASE n = "Tiled"          -> \A k \in 1 .. Len(H) : Tiled(H[k])
            [] n = "SizesOK"        -> \A k \in 1 .. Len(H) : SizesOK(H[k])
            [] n = "NoAdjacentFree" -> \A k \in 1 .. Len(H) : NoAdjacentFree(H[k])
            [] n = "FootOK"         -> \A k \in 1 .. Len(H) : FootOK(H[k])
            [] n = "HeadOK"         -> HeadOK(H)
            [] n = "TailOK"         -> TailOK(H)
            [] n = "SegsDisjoint"   -> SegsDisjoint(H)
            [] n = "BlocksHoused"   -> BlocksHoused(H, live)
            [] n = "NoWaste"        -> NoWaste(H, live)
            [] n = "NoLeak"         -> NoLeak(H, live)
            [] n = "HeldIsSegments" -> HeldIsSegments(H, mapped)}
=============================================================================
