CONSTANTS
  NS = 8
  NC = 8
  H = 16
  Side = "cq"
  SqStarts <- OneStart
  CqStarts <- AllStarts
  Wrapping = TRUE
  DebugChecks = TRUE
  CqEmptyLE = FALSE
  AtomicReapRead = FALSE
INIT Init
NEXT Next
INVARIANTS TypeOK PropertyHoldsButStaleRead CountersConsistent
CHECK_DEADLOCK FALSE
