----------------------------- MODULE CliJudge -----------------------------
(* C20 judge: reads recorded runs of the real derived parsers (ndjson, one per line:        *)
(* {s: shape index, a: [[byte..]..], out: {r: "ok"|"err"|"panic", v | kind, lvl}}) and       *)
(* decides each against the definition: out must be accepted by Admissible(Shapes[s], a).  *)
(* Used for inputs TLC did not generate: non-UTF-8, very long, random and mutated lists.    *)
EXTENDS Cli, CliShapes, Json, IOUtils
Rec == ndJsonDeserialize(IOEnv.TRACE)
Adm(i) == Admissible(Shapes[Rec[i].s], Rec[i].a)
Bad == {i \in 1..Len(Rec) : ~Accepts(Adm(i), Rec[i].out)}
ASSUME \A i \in Bad : PrintT(<<"BAD", ToJson([i |-> i, adm |-> SetToSeq(Adm(i))])>>)
ASSUME PrintT(<<"JUDGED", ToJson([n |-> Len(Rec), bad |-> SetToSeq(Bad)])>>)
VARIABLE x
Init == x = 0
Next == UNCHANGED x
=============================================================================
