------------------------------ MODULE StreamTry ------------------------------
(* C16 TryNeverBlocks, judged structurally: IOEnv.TRACE (ndjson) has one record per try_*     *)
(* call of the real code, {name, res, nonblock, syscalls:[names the call made, from strace]}. *)
(* A try-operation never blocks iff it makes no system call that can wait (poll family,       *)
(* select family, epoll_wait, nanosleep, futex) and every socket call it makes is on a        *)
(* descriptor in O_NONBLOCK mode (then accept4/connect return at once by definition).         *)
EXTENDS Sequences, FiniteSets, TLC, Json, IOUtils, SequencesExt
Rec == ndJsonDeserialize(IOEnv.TRACE)
Waiting == {"ppoll", "poll", "select", "pselect6", "epoll_wait", "epoll_pwait", "epoll_pwait2",
            "nanosleep", "clock_nanosleep", "futex", "pause", "rt_sigtimedwait"}
Judge(r) == /\ r.nonblock
            /\ \A j \in 1..Len(r.syscalls) : r.syscalls[j] \notin Waiting
            /\ r.res \in {"ok", "none"}
Bad == {j \in 1..Len(Rec) : ~Judge(Rec[j])}
ASSUME PrintT(<<"JUDGED", ToJson([n |-> Len(Rec), bad |-> SetToSeq(Bad)])>>)
VARIABLE x
Init == x = 0
Next == UNCHANGED x
=============================================================================
