CONSTANTS
  N = 2
  Progs <- B_2
  Ord <- OrdCode
  MaxSpur = 1
  MaxEintr = 0
  MaxWeak = 1
SPECIFICATION Spec
INVARIANTS TypeOK WriterExclusive RaceFree TryNeverBlocks NoLostWakeup AssertsHold WordAgrees Progress
PROPERTY Termination
CHECK_DEADLOCK FALSE
