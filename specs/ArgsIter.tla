------------------------------ MODULE ArgsIter ------------------------------
(* C07 - the Iterator surface of env::args_os() / env::args().                               *)
(*                                                                                           *)
(* PROPERTY LEVEL (Iterator laws).  An iterator over the argument vector xs is a position    *)
(* pos in 0..Len(xs); `next` yields xs[pos+1] and advances, and EVERY other method is        *)
(* observationally equal to its default definition in terms of `next` - whatever an          *)
(* implementation overrides.  A script is a sequence of calls on ONE iterator (so every call  *)
(* but the first meets a partially consumed iterator); Run gives, per call, the abstract      *)
(* observation: an item index, none, a number, the remaining count a size hint has to         *)
(* bracket, or a list of item indices.                                                        *)
(*   n = next   h k = nth(k)   l = len   z = size_hint   t k = by_ref().take(k) collected     *)
(*   p k = by_ref().skip(k) collected   s = by_ref().step_by(2) collected   L = last          *)
(*   K = count   C = collect                                                                  *)
(* ALGORITHM LEVEL.  ArgsOs::next as coded (ind < num_args; read arg_v[ind]; ind += 1; a NULL  *)
(* pointer ends the iteration) with the DEFAULT methods built on it (RunNext); TLC checks      *)
(* RunNext = Run for every script of the bounded set and every vector length (ArgsIterGen).    *)
EXTENDS Integers, Sequences, FiniteSets

Min2(a, b) == IF a < b THEN a ELSE b
Range(a, b) == [i \in 1..(IF b >= a THEN b - a + 1 ELSE 0) |-> a + i - 1]
RECURSIVE EveryOther(_, _)
EveryOther(a, b) == IF a > b THEN <<>> ELSE <<a>> \o EveryOther(a + 2, b)

\* one call: <<observation, new position>>
Step(n, pos, op) ==
    LET k == op[2] IN
    CASE op[1] = "n" -> <<IF pos < n THEN <<"item", pos + 1>> ELSE <<"none">>, Min2(n, pos + 1)>>
      [] op[1] = "h" -> <<IF pos + k < n THEN <<"item", pos + k + 1>> ELSE <<"none">>, Min2(n, pos + k + 1)>>
      [] op[1] = "l" -> <<<<"num", n - pos>>, pos>>
      [] op[1] = "z" -> <<<<"hint", n - pos>>, pos>>
      [] op[1] = "t" -> <<<<"list", Range(pos + 1, Min2(n, pos + k))>>, Min2(n, pos + k)>>
      [] op[1] = "p" -> <<<<"list", Range(pos + k + 1, n)>>, n>>
      [] op[1] = "s" -> <<<<"list", EveryOther(pos + 1, n)>>, n>>
      [] op[1] = "L" -> <<IF pos < n THEN <<"item", n>> ELSE <<"none">>, n>>
      [] op[1] = "K" -> <<<<"num", n - pos>>, n>>
      [] op[1] = "C" -> <<<<"list", Range(pos + 1, n)>>, n>>
RECURSIVE Run(_, _, _)
Run(n, pos, script) ==
    IF script = <<>> THEN <<>>
    ELSE LET r == Step(n, pos, Head(script)) IN <<r[1]>> \o Run(n, r[2], Tail(script))

\* ---- algorithm level: ArgsOs::next and the default methods on top of it ---------------------
\* state = ind; the argument pointers are all non-null for an argv the kernel built
NextOf(n, ind) == IF ind < n THEN <<<<"item", ind + 1>>, ind + 1>> ELSE <<<<"none">>, ind>>
RECURSIVE Drain(_, _, _, _)        \* repeated next until none or `limit` items: <<indices, ind>>
Drain(n, ind, limit, acc) ==
    IF limit = 0 THEN <<acc, ind>>
    ELSE LET r == NextOf(n, ind) IN IF r[1][1] = "none" THEN <<acc, r[2]>> ELSE Drain(n, r[2], limit - 1, Append(acc, r[1][2]))
RECURSIVE Advance(_, _, _)         \* default nth: k times next (stops at the first none), then next
Advance(n, ind, k) == IF k = 0 \/ NextOf(n, ind)[1][1] = "none" THEN ind ELSE Advance(n, NextOf(n, ind)[2], k - 1)
RECURSIVE StepBy2(_, _, _)
StepBy2(n, ind, acc) ==            \* default step_by(2): next, then nth(1) repeatedly
    LET r == NextOf(n, IF acc = <<>> THEN ind ELSE Advance(n, ind, 1)) IN
    IF r[1][1] = "none" THEN <<acc, r[2]>> ELSE StepBy2(n, r[2], Append(acc, r[1][2]))
StepNext(n, ind, op, total) ==
    LET k == op[2] IN
    CASE op[1] = "n" -> NextOf(n, ind)
      [] op[1] = "h" -> NextOf(n, Advance(n, ind, k))
      [] op[1] = "l" -> <<<<"num", total - ind>>, ind>>      \* ExactSizeIterator::len: num_args - ind
      [] op[1] = "z" -> <<<<"hint", total - ind>>, ind>>
      [] op[1] = "t" -> LET d == Drain(n, ind, k, <<>>) IN <<<<"list", d[1]>>, d[2]>>
      [] op[1] = "p" -> LET d == Drain(n, Advance(n, ind, k), n + 1, <<>>) IN <<<<"list", d[1]>>, d[2]>>
      [] op[1] = "s" -> LET d == StepBy2(n, ind, <<>>) IN <<<<"list", d[1]>>, d[2]>>
      [] op[1] = "L" -> LET d == Drain(n, ind, n + 1, <<>>) IN <<IF d[1] = <<>> THEN <<"none">> ELSE <<"item", d[1][Len(d[1])]>>, d[2]>>
      [] op[1] = "K" -> LET d == Drain(n, ind, n + 1, <<>>) IN <<<<"num", Len(d[1])>>, d[2]>>
      [] op[1] = "C" -> LET d == Drain(n, ind, n + 1, <<>>) IN <<<<"list", d[1]>>, d[2]>>
RECURSIVE RunNext(_, _, _)
RunNext(n, ind, script) ==
    IF script = <<>> THEN <<>>
    ELSE LET r == StepNext(n, ind, Head(script), n) IN <<r[1]>> \o RunNext(n, r[2], Tail(script))

\* ---- judging recorded observations -----------------------------------------------------------
Ascii(s) == \A i \in 1..Len(s) : s[i] < 128
NeverUtf8(s) == \E i \in 1..Len(s) : s[i] \in {192, 193} \cup (245..255)
\* an element as the probe reports it: [k |-> "ok", v |-> bytes] or [k |-> "err"] (args() on a non-UTF-8 argument)
ElOk(xs, variant, i, el) ==
    IF variant = "o" THEN el = [k |-> "ok", v |-> xs[i]]
    ELSE \/ ~NeverUtf8(xs[i]) /\ el = [k |-> "ok", v |-> xs[i]]
         \/ ~Ascii(xs[i]) /\ el = [k |-> "err"]
ObsOk(xs, variant, want, got) ==
    CASE want[1] = "item" -> got.t = "item" /\ ElOk(xs, variant, want[2], got.el)
      [] want[1] = "none" -> got.t = "none"
      [] want[1] = "num" -> got.t = "num" /\ got.n = want[2]
      [] want[1] = "hint" -> got.t = "hint" /\ got.lo <= want[2] /\ (got.hi = -1 \/ got.hi >= want[2])
      [] want[1] = "list" -> /\ got.t = "list" /\ ~got.over /\ Len(got.v) = Len(want[2])
                             /\ \A j \in 1..Len(want[2]) : ElOk(xs, variant, want[2][j], got.v[j])
\* index of the first observation that is not the prescribed one (0 = all fine)
FirstBad(xs, variant, script, obs) ==
    LET want == Run(Len(xs), 0, script)
        B == {j \in 1..Len(want) : j > Len(obs) \/ ~ObsOk(xs, variant, want[j], obs[j])}
    IN IF Len(obs) # Len(want) /\ B = {} THEN Len(want) + 1
       ELSE IF B = {} THEN 0 ELSE CHOOSE j \in B : \A i \in B : j <= i
=============================================================================
