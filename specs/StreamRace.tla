------------------------------ MODULE StreamRace ------------------------------
(* C16, several waiters on one socket: K threads in accept_with_timeout(limit) on one listener with one   *)
(* client per round, two threads in read_with_timeout(limit) on one stream with one byte per round.       *)
(* IOEnv.TRACE (ndjson): one record per waiter {fam, op, round, waiter, res, d, elapsed}: res = "ok" (it    *)
(* got the connection / the byte), "err" (an OS error such as EAGAIN: the loser was woken and found         *)
(* nothing - admitted, the statement does not say what the loser of such a race gets), "timeout".          *)
(* The clause judged is Stream!TimeoutNotEarly: a Timeout is reported no earlier than the limit (d is the   *)
(* limit in microseconds minus one for stamp truncation) - a lower bound only.  A panic is rejected.        *)
EXTENDS Integers, Sequences, FiniteSets, TLC, Json, IOUtils, SequencesExt
Rec == ndJsonDeserialize(IOEnv.TRACE)
Judge(r) == /\ r.res \in {"ok", "err", "timeout"}
            /\ r.res = "timeout" => r.elapsed >= r.d
\* at most one waiter of a round wins
Winners(r) == {j \in 1..Len(Rec) : Rec[j].fam = r.fam /\ Rec[j].op = r.op /\ Rec[j].round = r.round /\ Rec[j].res = "ok"}
Bad == {j \in 1..Len(Rec) : ~Judge(Rec[j]) \/ Cardinality(Winners(Rec[j])) > 1}
ASSUME PrintT(<<"JUDGED", ToJson([n |-> Len(Rec), bad |-> SetToSeq(Bad)])>>)
VARIABLE x
Init == x = 0
Next == UNCHANGED x
=============================================================================
