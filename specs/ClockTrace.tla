----------------------------- MODULE ClockTrace -----------------------------
(* Validates a recorded clock trace of the real code (harness/src/bin/timearith.rs clock)  *)
(* against Clock.tla's properties.  Events (ndjson, in per-lane happens-before order):      *)
(*   {"ev":"read","lane":l,"s":..,"ns":..}            a monotonic reading                   *)
(*   {"ev":"elapsed","lane":l,"base_s","base_ns","ds","dns","bs","bns","s","ns"}             *)
(*                                                     MonotonicInstant::elapsed, bracketed  *)
(*   {"ev":"hugesleep","lane":l,"d":name,"signals":n,"returned":0/1,"res":..,"waited_ms":..} *)
(*   {"ev":"intr","lane":helper lane,"target":l,"s","ns"}  SIGUSR1 sent to sleeping lane l       *)
(*   {"ev":"sleep","lane":l,"ds","dns","bs","bns","s","ns","res"}  reading before, sleep(d), *)
(*                                                     reading after, result of sleep()      *)
(* Clock values are pairs (s, ns) compared lexicographically (ns < 10^9 < 2^31).  The       *)
(* state machine consumes the events one by one; an event is accepted iff the corresponding *)
(* Clock action is possible for SOME behaviour of the hidden clock:                         *)
(*   Read:  value >= the lane's last observation                                             *)
(*   Sleep: before >= last observation, after >= before + d, sleep() returned Ok            *)
(* It stops at the first event it cannot accept; `Report` prints how far it got.            *)
EXTENDS Integers, Sequences, TLC, Json, IOUtils
Rec == ndJsonDeserialize(IOEnv.TRACE)
NPS == 1000000000
VARIABLES i, seen, nread, nsleep
Leq(a, b) == a[1] < b[1] \/ (a[1] = b[1] /\ a[2] <= b[2])
PlusD(a, d) == IF a[2] + d[2] >= NPS THEN <<a[1] + d[1] + 1, a[2] + d[2] - NPS>> ELSE <<a[1] + d[1], a[2] + d[2]>>
Lanes == {Rec[k].lane : k \in 1..Len(Rec)}
Init == i = 1 /\ seen = [l \in Lanes |-> <<0, 0>>] /\ nread = 0 /\ nsleep = 0
Norm(v) == v[2] >= 0 /\ v[2] < NPS /\ v[1] >= 0
ReadEv == /\ i <= Len(Rec) /\ Rec[i].ev = "read"
          /\ LET v == <<Rec[i].s, Rec[i].ns>> IN
             /\ Norm(v) /\ Leq(seen[Rec[i].lane], v)
             /\ seen' = [seen EXCEPT ![Rec[i].lane] = v]
          /\ i' = i + 1 /\ nread' = nread + 1 /\ UNCHANGED nsleep
SleepEv == /\ i <= Len(Rec) /\ Rec[i].ev = "sleep"
           /\ LET b == <<Rec[i].bs, Rec[i].bns>>
                  a == <<Rec[i].s, Rec[i].ns>>
                  d == <<Rec[i].ds, Rec[i].dns>> IN
              /\ Rec[i].res = "ok"
              /\ Norm(b) /\ Norm(a)
              /\ Leq(seen[Rec[i].lane], b)
              /\ Leq(PlusD(b, d), a)
              /\ seen' = [seen EXCEPT ![Rec[i].lane] = a]
           /\ i' = i + 1 /\ nsleep' = nsleep + 1 /\ UNCHANGED nread
\* MonotonicInstant::elapsed() of an earlier reading `base`, bracketed by the readings b and a:
\* b <= base + d <= a (and the lane's observations stay ordered)
ElapsedEv == /\ i <= Len(Rec) /\ Rec[i].ev = "elapsed"
             /\ LET b == <<Rec[i].bs, Rec[i].bns>>
                    a == <<Rec[i].s, Rec[i].ns>>
                    base == <<Rec[i].base_s, Rec[i].base_ns>>
                    d == <<Rec[i].ds, Rec[i].dns>> IN
                /\ Norm(b) /\ Norm(a) /\ Norm(base) /\ d[2] >= 0 /\ d[2] < NPS /\ d[1] >= 0
                /\ Leq(seen[Rec[i].lane], b)
                /\ Leq(b, PlusD(base, d)) /\ Leq(PlusD(base, d), a)
                /\ seen' = [seen EXCEPT ![Rec[i].lane] = a]
             /\ i' = i + 1 /\ nread' = nread + 1 /\ UNCHANGED nsleep
\* a signal sent to a sleeping lane (Clock!Interrupt), with the sender's clock reading: the
\* sender's lane stays ordered; what it does to the sleeper is judged at that sleeper's "sleep" event
IntrEv == /\ i <= Len(Rec) /\ Rec[i].ev = "intr"
          /\ LET v == <<Rec[i].s, Rec[i].ns>> IN
             /\ Norm(v) /\ Leq(seen[Rec[i].lane], v)
             /\ seen' = [seen EXCEPT ![Rec[i].lane] = v]
          /\ i' = i + 1 /\ UNCHANGED <<nread, nsleep>>
\* a sleep of a HUGE duration (i64::MAX s and more), looked at >= 2 s after it started, possibly hit
\* by signals meanwhile: it is still asleep (Clock!SleepEnd is not enabled: now < start + d), or it
\* returned an error (a duration the kernel interface cannot express); an Ok return came early.
HugeEv == /\ i <= Len(Rec) /\ Rec[i].ev = "hugesleep"
          /\ Rec[i].waited_ms >= 2000
          /\ Rec[i].returned = 0 \/ Rec[i].res = "err"
          /\ LET v == <<Rec[i].s, Rec[i].ns>> IN
             /\ Norm(v) /\ seen' = [seen EXCEPT ![Rec[i].lane] = v]
          /\ i' = i + 1 /\ nsleep' = nsleep + 1 /\ UNCHANGED nread
Next == ReadEv \/ SleepEv \/ ElapsedEv \/ IntrEv \/ HugeEv
Done == i > Len(Rec) \/ ~ENABLED Next
Report == Done => PrintT(<<"CLOCK", ToJson([n |-> Len(Rec), consumed |-> i - 1, reads |-> nread, sleeps |-> nsleep])>>)
=============================================================================
