------------------------------ MODULE Ring_MC ------------------------------
(* Exhaustive configurations of Ring.tla (structured constants for the .cfg files). *)
EXTENDS Ring
AllStarts == 0..(2*H-1)
OneStart == {0}
\* for the big rings: start values from one ring-size below the wrap to one ring-size after it, horizon
\* shortened accordingly (`Last <- ShortLast` in the cfg); the other start values are toured on the smaller rings
ShortStarts == (H - NS - 1)..(H + 1)
ShortStartsC == (H - NC - 1)..(H + 1)
ShortLast == H + (IF NS > NC THEN NS ELSE NC) + 2
\* hide nothing: the monitor state is a function of the concrete state whenever the protocol is intact
=============================================================================
