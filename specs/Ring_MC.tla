------------------------------ MODULE Ring_MC ------------------------------
(* Exhaustive configurations of Ring.tla (structured constants for the .cfg files). *)
EXTENDS Ring
AllStarts == 0..(2*H-1)
OneStart == {0}
\* for the big rings: start values from one ring-size below the wrap to one ring-size after it, horizon
\* shortened accordingly (`Last <- ShortLast` in the cfg); the other start values are toured on the smaller rings
ShortStarts == (H - NS - 1)..(H + 1)
ShortStartsC == (H - NC - 1)..(H + 1)
\* state constraint for the big submission rings: the application fills the slots in the order it got them
\* (with free fill order the unfilled subsets alone give 2^NS states); the free order is covered by the
\* smaller rings, the simulated behaviours and the explore / random runs
InOrderFill ==
    \A i, j \in 1..NS :
        (want[i] # -1 /\ want[j] = -1 /\ sqSlot[j] # -1 /\ sqSlot[j] >= sqHead /\ sqSlot[j] < sqTail) => sqSlot[j] < want[i]
ShortLast == H + (IF NS > NC THEN NS ELSE NC) + 2
\* hide nothing: the monitor state is a function of the concrete state whenever the protocol is intact
=============================================================================
