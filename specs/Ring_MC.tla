------------------------------ MODULE Ring_MC ------------------------------
(* Exhaustive configurations of Ring.tla (structured constants for the .cfg files). *)
EXTENDS Ring
AllStarts == 0..(2*H-1)
OneStart == {0}
\* hide nothing: the monitor state is a function of the concrete state whenever the protocol is intact
=============================================================================
