CONSTANTS
  Mode = "pieces"
  PreSet = {}
  MaxChars = 0
  Pieces = {0, 1, 27, 60, 67, 68, 100, 127, 128, 129, 300}
  MaxPieces = 3
INIT Init
NEXT Next
INVARIANTS LenBounded TranscriptionIsDefinition Emit
