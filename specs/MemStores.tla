------------------------------ MODULE MemStores ------------------------------
(* C08, clause write_outside on the STORE LOG: tools/stepstores single-steps the real          *)
(* memcpy/memmove/memset calls of the probe (debug and release) while playing a concurrent     *)
(* writer of the neighbouring bytes, and logs every store <<offset, length>> into the arena.   *)
(* Each call is judged with Mem!StoresInside: no store may leave [d, d+n).  (A value-preserving *)
(* store outside the range is invisible to the arena comparison of MemJudge.)                  *)
EXTENDS Mem, TLC, Json, IOUtils, SequencesExt
Rec == ndJsonDeserialize(IOEnv.TRACE)
Outside(r) == {k \in 1..Len(r.stores) : ~(r.d <= r.stores[k][1] /\ r.stores[k][1] + r.stores[k][2] <= r.d + r.n)}
Bad == {i \in 1..Len(Rec) : ~StoresInside(Rec[i].d, Rec[i].n, Rec[i].stores)}
ASSUME PrintT(<<"JUDGED", ToJson([n |-> Len(Rec), bad |-> [j \in 1..Cardinality(Bad) |->
                                     LET i == SetToSeq(Bad)[j] IN [i |-> i, stores |-> SetToSeq(Outside(Rec[i]))]]])>>)
VARIABLE x
Init == x = 0
Next == UNCHANGED x
=============================================================================
