CONSTANTS
  Family = "rte"
  L = 3
  GrowExtra = {}
  Grow <- MCGrow
  ProbeGrow <- MCProbeGrow
INIT MCInit
NEXT Next
INVARIANTS Correct NoBad CarrySound ProbeOnlyExactFit NotStuck Emit
CHECK_DEADLOCK FALSE
