------------------------------- MODULE Mem -------------------------------
(* C08 - property level.  What the C standard says about memcpy / memmove / memset / memcmp  *)
(* (and POSIX bcmp), as definitional operators on a memory.                                  *)
(*                                                                                           *)
(* A memory is a function 0..L-1 -> 0..255.  The operators return the memory after the       *)
(* call: exactly the cells of the destination range [d, d+n) are determined by the call,     *)
(* EVERY other cell keeps its value ("never writes a byte outside the destination range").  *)
(* Nothing here depends on how an implementation copies (bytes, words, direction).           *)
EXTENDS Integers, Sequences, FiniteSets

InRange(i, d, n) == i >= d /\ i < d + n
Disjoint(d, s, n) == d + n <= s \/ s + n <= d \/ n = 0

\* "they never write a byte outside the destination range": every STORE <<offset, length>> a call performs lies
\* inside [d, d+n) - also a store that writes back the value it found (a read-modify-write of a word straddling
\* the end of the range loses a concurrent writer's store to the neighbouring bytes)
StoresInside(d, n, stores) == \A k \in 1..Len(stores) : d <= stores[k][1] /\ stores[k][1] + stores[k][2] <= d + n

\* memmove: "copying takes place as if the n bytes were first copied into a temporary array" -
\* every destination cell receives the ORIGINAL value of its source cell, for any overlap.
Memmove(m, d, s, n) ==
    [i \in DOMAIN m |-> IF InRange(i, d, n) THEN m[s + (i - d)] ELSE m[i]]

\* memcpy: the same result; the standard defines it only for non-overlapping objects, so the
\* property quantifies over Disjoint(d, s, n) only.
Memcpy(m, d, s, n) == Memmove(m, d, s, n)

\* memset: c is "converted to an unsigned char"
AsByte(c) == c % 256
Memset(m, d, c, n) ==
    [i \in DOMAIN m |-> IF InRange(i, d, n) THEN AsByte(c) ELSE m[i]]

\* memcmp on two byte sequences (1-based, at least n long): sign of the difference of the first
\* pair of differing bytes, both interpreted as unsigned char; 0 if there is none.
Sign(x) == IF x < 0 THEN -1 ELSE IF x > 0 THEN 1 ELSE 0
DiffPos(a, b, n) == {k \in 1..n : a[k] # b[k]}
FirstDiff(a, b, n) == CHOOSE k \in DiffPos(a, b, n) : \A j \in DiffPos(a, b, n) : k <= j
MemcmpSign(a, b, n) ==
    IF DiffPos(a, b, n) = {} THEN 0
    ELSE Sign(a[FirstDiff(a, b, n)] - b[FirstDiff(a, b, n)])
\* bcmp: zero iff the ranges are equal
BcmpZero(a, b, n) == DiffPos(a, b, n) = {}

\* what a caller may observe of the int result
MemcmpOk(a, b, n, ret) == Sign(ret) = MemcmpSign(a, b, n)
BcmpOk(a, b, n, ret) == (ret = 0) <=> BcmpZero(a, b, n)
=============================================================================
