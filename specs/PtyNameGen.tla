---------------------------- MODULE PtyNameGen ----------------------------
(* X02: walks the pty numbers 0..Count-1; for every u8 number the transcribed formatter     *)
(* must give the definition's 13 bytes and its NUL-terminated prefix the slave path.        *)
EXTENDS PtyName, Json, SequencesExt
CONSTANT Count
VARIABLE k
Init == k = 0
Next == k < Count - 1 /\ k' = k + 1
TranscriptionIsDefinition == k <= 255 => (CreatePtyName(k) = NameDef(k) /\ UpToNul(CreatePtyName(k)) = PathOf(k))
DigitsAreAscii == k <= 255 => \A i \in 1..Len(GetChars(k)) : GetChars(k)[i] \in 48..57
Emit == PrintT(<<"T", ToJson([k |-> k, adm |-> SetToSeq(Expect(k))])>>)
=============================================================================
