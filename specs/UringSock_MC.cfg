CONSTANTS
  MaxQ = 6
INIT SInit
NEXT SNext
INVARIANTS QueueBounded
CHECK_DEADLOCK FALSE
