CONSTANT Progs <- Fixed
SPECIFICATION Spec
INVARIANTS Emit NoLeak NoDouble
CHECK_DEADLOCK FALSE
