---------------------------- MODULE ArgsIterGen ----------------------------
(* Generator and model check for ArgsIter.tla: enumerates the scripts (every sequence of one or *)
(* two calls, and every sequence of three calls whose first two are from a small set of         *)
(* partially consuming calls), prints them for the probe, and checks for every vector length    *)
(* 0..MaxLen that the default methods built on the transcribed `next` give the observations of  *)
(* the definition.                                                                              *)
EXTENDS ArgsIter, TLC, Json
CONSTANTS MaxLen
VARIABLE script
Ops == {<<"n", 0>>, <<"h", 0>>, <<"h", 1>>, <<"h", 2>>, <<"l", 0>>, <<"z", 0>>, <<"t", 1>>, <<"t", 2>>,
        <<"p", 1>>, <<"s", 0>>, <<"L", 0>>, <<"K", 0>>, <<"C", 0>>}
Pre == {<<"n", 0>>, <<"h", 1>>, <<"t", 1>>}
Scripts == {<<a>> : a \in Ops} \cup {<<a, b>> : a \in Ops, b \in Ops} \cup {<<a, b, c>> : a \in Pre, b \in Pre, c \in Ops}
Init == script \in Scripts
Next == UNCHANGED script
DefaultsAgree == \A n \in 0..MaxLen : RunNext(n, 0, script) = Run(n, 0, script)
Emit == PrintT(<<"V", ToJson([script |-> script])>>)
=============================================================================
