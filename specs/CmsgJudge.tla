------------------------------ MODULE CmsgJudge ------------------------------
(* B2/B3 judge for C16's descriptor passing.  IOEnv.TRACE (ndjson):                           *)
(*  {"kind":"fdpass", n, ctrl, creds, res, delivered:[index of the sent file each received    *)
(*   descriptor refers to (fstat dev/ino), 0 = none], ctrunc, fresh, data_ok}                 *)
(*      one real sendmsg/recvmsg exchange of n descriptors into a ctrl-byte control buffer    *)
(*      that ends at a PROT_NONE page; res = "ok" | "panic" | "crashed" | "err".              *)
(*      Accepted iff the receiver got exactly what Cmsg!Kernel delivers: the first k.nfd      *)
(*      files, in order, as new descriptors, MSG_CTRUNC iff the kernel cut something.         *)
(*  {"kind":"iter", words, res, out}  the ControlMessageIterator run on a TLC-generated       *)
(*      buffer: accepted iff out = Cmsg!Delivered(words, 4*Len(words)).                       *)
EXTENDS Cmsg, Json, IOUtils, SequencesExt
Rec == ndJsonDeserialize(IOEnv.TRACE)
JudgeFd(r) ==
    LET kk == Kernel(FdSeq(r.n), IF r.ctrl < 0 THEN 0 ELSE 4 * (r.ctrl \div 4), r.creds) IN
    /\ r.res = "ok" /\ r.data_ok /\ r.fresh
    /\ r.delivered = [j \in 1..kk.nfd |-> j]
    /\ r.ctrunc = kk.ctrunc
JudgeIter(r) == r.res = "ok" /\ r.out = Delivered(r.words, 4 * Len(r.words))
Judge(r) == IF r.kind = "fdpass" THEN JudgeFd(r) ELSE JudgeIter(r)
Bad == {j \in 1..Len(Rec) : ~Judge(Rec[j])}
ASSUME PrintT(<<"JUDGED", ToJson([n |-> Len(Rec), bad |-> SetToSeq(Bad)])>>)
=============================================================================
