------------------------------ MODULE UringRes ------------------------------
(* C18, second clause: "dropping the ring releases its descriptor and each of its memory      *)
(* mappings exactly once and nothing else".                                                   *)
(*                                                                                            *)
(* Part 1 (property level, Resources-style monitor over the system calls of a process):       *)
(* the ring owns the descriptor returned by io_uring_setup and every mapping created by       *)
(* mmap(fd = that descriptor).  During the drop: munmap must hit a LIVE ring mapping exactly  *)
(* (same address and length) - anything else is a release of something the ring does not own  *)
(* (or a second release); close must be of the ring descriptor, once.  At the end of the drop *)
(* nothing may be left.                                                                       *)
(* Part 2 (algorithm level): set-up and Drop as coded, with the kernel feature                *)
(* IORING_FEAT_SINGLE_MMAP (one mapping serves both rings) and another thread that may map    *)
(* memory at any time, so that TLC shows what a second munmap of the same range can hit.      *)
EXTENDS Integers, Sequences, FiniteSets, TLC

NoNeed == [sq |-> 0, cq |-> 0, sqes |-> 0, single |-> FALSE]
RInit == [fd |-> -1, closed |-> FALSE, maps |-> {}, dropping |-> FALSE, why |-> "", need |-> NoNeed]
RFlag(r, w) == IF r.why = "" THEN [r EXCEPT !.why = w] ELSE r

RSetup(r, fd) == IF fd < 0 THEN r ELSE [r EXCEPT !.fd = fd]
RMmap(r, fd, addr, len) == IF r.fd >= 0 /\ fd = r.fd /\ ~r.closed THEN [r EXCEPT !.maps = @ \cup {<<addr, len>>}] ELSE r
\* set-up with what the kernel's parameters require of each mapping: need.sq = sq_off.array + sq_entries * 4,
\* need.cq = cq_off.cqes + cq_entries * (16 or 32), need.sqes = sq_entries * (64 or 128); with IORING_FEAT_SINGLE_MMAP
\* the mapping at offset 0 serves both rings.  A mapping shorter than that leaves part of the ring outside it.
RSetupN(r, fd, need) == IF fd < 0 THEN r ELSE [r EXCEPT !.fd = fd, !.need = need]
MaxOf(a, b) == IF a > b THEN a ELSE b
RMmapO(r, fd, addr, len, off) ==
    IF ~(r.fd >= 0 /\ fd = r.fd /\ ~r.closed) THEN r
    ELSE LET needed == IF off = "sq" THEN (IF r.need.single THEN MaxOf(r.need.sq, r.need.cq) ELSE r.need.sq)
                       ELSE IF off = "cq" THEN r.need.cq
                       ELSE IF off = "sqes" THEN r.need.sqes ELSE 0
             r2 == [r EXCEPT !.maps = @ \cup {<<addr, len>>}] IN
         IF len < needed THEN RFlag(r2, "ring_mapping_smaller_than_kernel_layout") ELSE r2
\* the process died inside set-up or inside the drop
RCrashed(r, where) == RFlag(r, IF where = "setup" THEN "crashed_in_setup" ELSE "crashed_while_using_or_dropping_the_ring")
RDropBegin(r) == [r EXCEPT !.dropping = TRUE]
RMunmap(r, addr, len) ==
    IF ~r.dropping THEN r
    ELSE IF <<addr, len>> \in r.maps THEN [r EXCEPT !.maps = @ \ {<<addr, len>>}]
    ELSE RFlag(r, "munmap_of_range_that_is_not_a_live_ring_mapping")
RClose(r, fd) ==
    IF ~r.dropping THEN r
    ELSE IF fd = r.fd /\ ~r.closed THEN [r EXCEPT !.closed = TRUE]
    ELSE RFlag(r, "close_of_descriptor_not_owned_or_already_closed")
RDropEnd(r) ==
    IF r.maps # {} THEN RFlag(r, "ring_mapping_not_released")
    ELSE IF ~r.closed THEN RFlag(r, "ring_descriptor_not_closed")
    ELSE [r EXCEPT !.dropping = FALSE]

---------------------------------------------------------------------------
(* Part 2 *)
CONSTANTS SingleMmap,       \* kernel feature: sq ring and cq ring share one mapping
          GuardSingle       \* Drop skips the cq munmap when both rings share the mapping (the fix)
VARIABLES pc, sqPtr, cqPtr, sqesPtr, mem, res
\* mem: address -> "free" | "ring" | "other" ; addresses 1..4, every mapping has length 1
Addrs == 1..4
RingFd == 3
rvars == <<pc, sqPtr, cqPtr, sqesPtr, mem, res>>

AInit == /\ pc = "setup" /\ sqPtr = 0 /\ cqPtr = 0 /\ sqesPtr = 0
         /\ mem = [a \in Addrs |-> "free"] /\ res = RInit

Map(a, who) == mem' = [mem EXCEPT ![a] = who]

Setup == /\ pc = "setup" /\ pc' = "map_sq" /\ res' = RSetup(res, RingFd) /\ UNCHANGED <<sqPtr, cqPtr, sqesPtr, mem>>
MapSq == /\ pc = "map_sq"
         /\ \E a \in Addrs : /\ mem[a] = "free" /\ Map(a, "ring") /\ sqPtr' = a
                             /\ res' = RMmap(res, RingFd, a, 1)
                             /\ IF SingleMmap THEN cqPtr' = a /\ pc' = "map_sqes" ELSE cqPtr' = cqPtr /\ pc' = "map_cq"
         /\ UNCHANGED sqesPtr
MapCq == /\ pc = "map_cq"
         /\ \E a \in Addrs : mem[a] = "free" /\ Map(a, "ring") /\ cqPtr' = a /\ res' = RMmap(res, RingFd, a, 1)
         /\ pc' = "map_sqes" /\ UNCHANGED <<sqPtr, sqesPtr>>
MapSqes == /\ pc = "map_sqes"
           /\ \E a \in Addrs : mem[a] = "free" /\ Map(a, "ring") /\ sqesPtr' = a /\ res' = RMmap(res, RingFd, a, 1)
           /\ pc' = "use" /\ UNCHANGED <<sqPtr, cqPtr>>
DropBegin == /\ pc = "use" /\ pc' = "un_sqes" /\ res' = RDropBegin(res) /\ UNCHANGED <<sqPtr, cqPtr, sqesPtr, mem>>
\* munmap(2) succeeds on any range; whatever is mapped there is gone
Unmap(a) == mem' = [mem EXCEPT ![a] = "free"]
UnSqes == /\ pc = "un_sqes" /\ Unmap(sqesPtr) /\ res' = RMunmap(res, sqesPtr, 1) /\ pc' = "un_sq" /\ UNCHANGED <<sqPtr, cqPtr, sqesPtr>>
UnSq == /\ pc = "un_sq" /\ Unmap(sqPtr) /\ res' = RMunmap(res, sqPtr, 1) /\ pc' = "un_cq" /\ UNCHANGED <<sqPtr, cqPtr, sqesPtr>>
UnCq == /\ pc = "un_cq"
        /\ IF GuardSingle /\ cqPtr = sqPtr THEN UNCHANGED <<mem, res>>
           ELSE Unmap(cqPtr) /\ res' = RMunmap(res, cqPtr, 1)
        /\ pc' = "close" /\ UNCHANGED <<sqPtr, cqPtr, sqesPtr>>
CloseFd == /\ pc = "close" /\ res' = RDropEnd(RClose(res, RingFd)) /\ pc' = "done" /\ UNCHANGED <<sqPtr, cqPtr, sqesPtr, mem>>
\* another thread of the program maps memory (the kernel hands out any free range, e.g. one just released)
OtherMmap == /\ pc # "done" /\ \E a \in Addrs : mem[a] = "free" /\ Map(a, "other")
             /\ UNCHANGED <<pc, sqPtr, cqPtr, sqesPtr, res>>

ANext == Setup \/ MapSq \/ MapCq \/ MapSqes \/ DropBegin \/ UnSqes \/ UnSq \/ UnCq \/ CloseFd \/ OtherMmap

\* the property
TeardownExact == res.why = ""
\* what a violation means for the rest of the program: the drop never removes another thread's mapping
NothingElseReleased == \A a \in Addrs : (mem[a] = "other") => (mem'[a] = "other")
NothingElse == [][NothingElseReleased]_rvars
ProbeDone == pc # "done"
=============================================================================
