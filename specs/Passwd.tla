------------------------------ MODULE Passwd ------------------------------
(* X02 - tiny-std/src/unix/passwd/getpw_r.rs: getpwuid_r(uid, buf) over /etc/passwd.         *)
(*                                                                                         *)
(* PART 1, DEFINITION.  A passwd file is a byte string; its lines are the segments between  *)
(* newlines.  A line is an ENTRY iff it has seven ':'-separated fields, uid and gid are     *)
(* decimal numbers <= 2^32-1 and the text fields are UTF-8.  Lookup(F, uid, B) is the SET   *)
(* of admissible results of a lookup with a caller buffer of B bytes:                       *)
(*   - the first entry whose uid field denotes uid (its seven fields exactly);               *)
(*   - none / error when there is no such entry (the doc comment says error, the signature *)
(*     says Option: both admitted);                                                         *)
(*   - a malformed line in front of the match may be skipped or make the lookup fail;       *)
(*   - undocumented readings admitted both ways: more than 7 fields (malformed | shell =    *)
(*     the rest), leading zeros in uid/gid, empty name, a last line without newline         *)
(*     (entry | ignored);                                                                   *)
(*   - when a line that has to be scanned does not fit the buffer (line + newline > B):     *)
(*     none / error as well (ERANGE-like).                                                  *)
(* Never admissible: an entry that is not in the file (e.g. one read from stale buffer      *)
(* content), different field contents, a hang, a panic.                                    *)
(*                                                                                         *)
(* PART 2, TRANSCRIPTION of search_pwd_fd / search_from / find_by_uid / try_pwd /           *)
(* try_parse_num / find_last_newline as a state machine over (buffer, file offset); the    *)
(* read(2) result is ignored exactly as the code ignores it.                                *)
EXTENDS Integers, Sequences, FiniteSets, SequencesExt, TLC
LOCAL C == INSTANCE Cli          \* Utf8Ok
NL == 10
COLON == 58

\* ------------------------------------------------------------------ byte-string helpers
Pos(b, c) == SetToSortSeq({i \in 1..Len(b) : b[i] = c}, <)          \* ascending positions of c
\* segments of b between occurrences of c (n occurrences -> n+1 segments)
Split(b, c) ==
    LET ps == Pos(b, c)  n == Len(ps)
    IN [k \in 1..(n + 1) |->
          SubSeq(b, (IF k = 1 THEN 1 ELSE ps[k - 1] + 1), (IF k = n + 1 THEN Len(b) ELSE ps[k] - 1))]
AllDigits(f) == \A i \in 1..Len(f) : f[i] >= 48 /\ f[i] <= 57
RECURSIVE Canon(_)
Canon(f) == IF Len(f) > 1 /\ f[1] = 48 THEN Canon(Tail(f)) ELSE f     \* strip leading zeros
U32MAX == <<52,50,57,52,57,54,55,50,57,53>>                             \* 4294967295
RECURSIVE LexLeq(_, _)
LexLeq(a, b) == IF a = <<>> THEN TRUE ELSE IF a[1] < b[1] THEN TRUE ELSE IF a[1] > b[1] THEN FALSE
                ELSE LexLeq(Tail(a), Tail(b))
NumOk(f) == /\ f # <<>> /\ AllDigits(f)
            /\ LET c == Canon(f) IN Len(c) < 10 \/ (Len(c) = 10 /\ LexLeq(c, U32MAX))
Plain(f) == NumOk(f) /\ (Len(f) = 1 \/ f[1] # 48)
RECURSIVE ToDigits(_)
ToDigits(n) == IF n < 10 THEN <<48 + n>> ELSE ToDigits(n \div 10) \o <<48 + (n % 10)>>

\* ================================================================== PART 1: DEFINITION
Some(k, f) == [r |-> "some", line |-> k, f |-> f]
None == [r |-> "none", line |-> 0, f |-> <<>>]
Err == [r |-> "err", line |-> 0, f |-> <<>>]
\* the lines of a file: terminated ones, then the unterminated rest if it is not empty
FileLines(F) ==
    LET segs == Split(F, NL)  n == Len(segs)
    IN [k \in 1..(IF segs[n] = <<>> THEN n - 1 ELSE n) |-> [b |-> segs[k], term |-> k < n]]
\* the entry a line denotes (shell = everything after the sixth colon)
EntryOf(L) ==
    LET ps == Pos(L, COLON)
        fld(k) == SubSeq(L, (IF k = 1 THEN 1 ELSE ps[k - 1] + 1), (IF k = 7 THEN Len(L) ELSE ps[k] - 1))
    IN <<fld(1), fld(2), Canon(fld(3)), Canon(fld(4)), fld(5), fld(6), fld(7)>>
\* what a line can be for a lookup of uid (canonical digits): subset of {"match","nomatch","bad"}
Cls(L, uid) ==
    LET fs == Split(L, COLON)  nf == Len(fs) IN
    IF nf < 7 THEN {"bad"}
    ELSE LET e == EntryOf(L)
             valid == /\ NumOk(fs[3]) /\ NumOk(fs[4])
                      /\ \A k \in {1, 2, 5, 6, 7} : C!Utf8Ok(e[k])
             gray == nf > 7 \/ ~Plain(fs[3]) \/ ~Plain(fs[4]) \/ fs[1] = <<>>
         IN IF ~valid THEN {"bad"}
            ELSE (IF e[3] = uid THEN {"match"} ELSE {"nomatch"}) \cup (IF gray THEN {"bad"} ELSE {})
RECURSIVE Scan(_, _, _)
Scan(ls, k, uid) ==
    IF k > Len(ls) THEN {None, Err}                                   \* not listed
    ELSE LET cs == Cls(ls[k].b, uid) \cup (IF ls[k].term THEN {} ELSE {"nomatch"}) IN
         (IF "match" \in cs THEN {Some(k, EntryOf(ls[k].b))} ELSE {})
         \cup (IF "bad" \in cs THEN {Err} \cup Scan(ls, k + 1, uid) ELSE {})
         \cup (IF "nomatch" \in cs THEN Scan(ls, k + 1, uid) ELSE {})
Lookup(F, uid, B) ==
    LET ls == FileLines(F)
        defm == {k \in 1..Len(ls) : ls[k].term /\ Cls(ls[k].b, uid) = {"match"}}
        last == IF defm = {} THEN Len(ls) ELSE CHOOSE k \in defm : \A j \in defm : k <= j
        tooSmall == \E k \in 1..last : Len(ls[k].b) + 1 > B
    IN Scan(ls, 1, uid) \cup (IF tooSmall \/ B = 0 THEN {None, Err} ELSE {})
\* out = [r |-> "some", f |-> <<7 fields>>] | [r |-> "none"|"err"|"hang"|"panic"|"crash"]
Accepts(adm, out) ==
    IF out.r = "some" THEN \E a \in adm : a.r = "some" /\ a.f = out.f
    ELSE IF out.r \in {"none", "err"} THEN \E a \in adm : a.r = out.r
    ELSE FALSE

\* ================================================================== PART 2: TRANSCRIPTION
\* read(fd, dst) as the code uses it: copies what is left of the file (at most |dst| bytes) to
\* the front of dst; the returned count is IGNORED, the rest of dst keeps its old bytes.
ReadInto(F, pos, buf, from) ==      \* dst = buf[from..] (1-based from)
    LET room == Len(buf) - from + 1
        n == IF Len(F) - pos < room THEN Len(F) - pos ELSE room
    IN [buf |-> [i \in 1..Len(buf) |-> IF i >= from /\ i < from + n THEN F[pos + (i - from) + 1] ELSE buf[i]],
        pos |-> pos + n]
\* try_parse_num: bytes >= '0' are all taken as "digits" (checked_sub(48) only rejects < '0')
RECURSIVE Pow10(_)
Pow10(k) == IF k = 0 THEN 1 ELSE 10 * Pow10(k - 1)
\* Result as canonical decimal digits (u32 values do not fit TLC's integers).  All-digit fields:
\* 11 digits or more fail at 10u32.checked_pow (whatever the digits are), otherwise the checked
\* multiply/add fail exactly when the value exceeds u32::MAX.  Fields with bytes above '9' are
\* computed as the code does (each byte - 48 times its power of ten) while they are short.
TryParseNum(b) ==
    IF \E i \in 1..Len(b) : b[i] < 48 THEN [k |-> "err", d |-> <<>>]
    ELSE IF b = <<>> THEN [k |-> "ok", d |-> <<48>>]
    ELSE IF AllDigits(b) THEN
         IF Len(b) >= 11 THEN [k |-> "err", d |-> <<>>]
         ELSE LET c == Canon(b) IN
              IF Len(c) < 10 \/ LexLeq(c, U32MAX) THEN [k |-> "ok", d |-> c] ELSE [k |-> "err", d |-> <<>>]
    ELSE IF Len(b) >= 11 THEN [k |-> "err", d |-> <<>>]
    ELSE \* "digits" above 9: sum of (byte - 48) * 10^position, as two base-10^5 limbs; the checked
         \* operations fail exactly when the total exceeds u32::MAX = 42949|67295
         LET n == Len(b)
             term(i) == LET dg == b[i] - 48  pw == n - i IN
                        IF pw >= 5 THEN [hi |-> dg * Pow10(pw - 5), lo |-> 0]
                        ELSE [hi |-> (dg * Pow10(pw)) \div 100000, lo |-> (dg * Pow10(pw)) % 100000]
             los == FoldLeft(LAMBDA a, i : a + term(i).lo, 0, [i \in 1..n |-> i])
             his == FoldLeft(LAMBDA a, i : a + term(i).hi, 0, [i \in 1..n |-> i]) + (los \div 100000)
             lo == los % 100000
             lod == ToDigits(lo)
         IN IF his > 42949 \/ (his = 42949 /\ lo > 67295) THEN [k |-> "err", d |-> <<>>]
            ELSE IF his = 0 THEN [k |-> "ok", d |-> lod]
            ELSE [k |-> "ok", d |-> ToDigits(his) \o [i \in 1..(5 - Len(lod)) |-> 48] \o lod]
\* try_pwd: the first six colons whose 0-based index is not 0 (0 doubles as "slot unset")
TryPwd(L) ==
    LET ps == SelectSeq(Pos(L, COLON), LAMBDA p : p # 1) IN
    IF Len(ps) < 6 THEN [k |-> "skip", uid |-> <<>>, f |-> <<>>]
    ELSE LET name == SubSeq(L, 1, ps[1] - 1)     passwd == SubSeq(L, ps[1] + 1, ps[2] - 1)
             u == TryParseNum(SubSeq(L, ps[2] + 1, ps[3] - 1))
             g == TryParseNum(SubSeq(L, ps[3] + 1, ps[4] - 1))
             gecos == SubSeq(L, ps[4] + 1, ps[5] - 1)  dir == SubSeq(L, ps[5] + 1, ps[6] - 1)
             shell == SubSeq(L, ps[6] + 1, Len(L))
         IN IF ~C!Utf8Ok(shell) \/ ~C!Utf8Ok(name) \/ ~C!Utf8Ok(passwd) THEN [k |-> "err", uid |-> <<>>, f |-> <<>>]
            ELSE IF u.k # "ok" THEN [k |-> u.k, uid |-> <<>>, f |-> <<>>]
            ELSE IF g.k # "ok" THEN [k |-> g.k, uid |-> <<>>, f |-> <<>>]
            ELSE IF ~C!Utf8Ok(gecos) \/ ~C!Utf8Ok(dir) THEN [k |-> "err", uid |-> <<>>, f |-> <<>>]
            ELSE [k |-> "ok", uid |-> u.d, f |-> <<name, passwd, u.d, g.d, gecos, dir, shell>>]
\* find_by_uid: line by line while there is a newline
RECURSIVE FindByUid(_, _, _)
FindByUid(buf, off, uid) ==       \* off = 0-based offset, uid = canonical decimal digits
    LET nls == {i \in (off + 1)..Len(buf) : buf[i] = NL} IN
    IF nls = {} THEN [k |-> "nothing", f |-> <<>>]
    ELSE LET e == CHOOSE i \in nls : \A j \in nls : i <= j
             t == TryPwd(SubSeq(buf, off + 1, e - 1))
         IN IF t.k \in {"err", "unmodelled"} THEN [k |-> t.k, f |-> <<>>]
            ELSE IF t.k = "ok" /\ t.uid = uid THEN [k |-> "found", f |-> t.f]
            ELSE FindByUid(buf, e, uid)
\* find_last_newline looks at indices len-1 down to 1 (0-based), never at index 0
LastNewline(buf) ==
    LET c == {i \in 2..Len(buf) : buf[i] = NL} IN IF c = {} THEN 0 ELSE CHOOSE i \in c : \A j \in c : j <= i
Res(r, f) == [r |-> r, line |-> 0, f |-> f]
Running == Res("running", <<>>)
\* one iteration of the loop of search_pwd_fd: state (buf, pos) -> state | result
Iter(F, uid, buf, pos) ==
    LET fb == FindByUid(buf, 0, uid) IN
    IF fb.k = "found" THEN [buf |-> buf, pos |-> pos, res |-> Res("some", fb.f)]
    ELSE IF fb.k \in {"err", "unmodelled"} THEN [buf |-> buf, pos |-> pos, res |-> Res(fb.k, <<>>)]
    ELSE LET nl == LastNewline(buf) IN
         IF nl = 0 THEN [buf |-> buf, pos |-> pos, res |-> Res("none", <<>>)]
         ELSE LET b == nl                                     \* 0-based nl + 1 = 1-based nl
                  len == Len(buf)
                  moved == [i \in 1..len |-> IF i <= len - b THEN buf[b + i] ELSE buf[i]]   \* copy_within(b.., 0)
                  rd == ReadInto(F, pos, moved, len - b + 1)
              IN IF rd.buf = buf /\ rd.pos = pos
                 THEN [buf |-> buf, pos |-> pos, res |-> Res("hang", <<>>)]     \* same state again: spins forever
                 ELSE [buf |-> rd.buf, pos |-> rd.pos, res |-> Running]
=============================================================================
