\* after the first repair only: TLC must still find the key-with-'=' counterexample
\* every environment block of at most 2 entries x every key x {var, var_unix}
CONSTANTS
  Version = "fixed1"
  Argvs <- ArgvOne
  Entries <- EntriesQ
  MaxEnv = 2
  Keys <- KeysQ
  Auxvs <- AuxOne
  Fns = {"var", "var_unix"}
SPECIFICATION Spec
INVARIANTS PictureOk BootCorrect ArgsCorrect LookupCorrect ReadsInBounds
PROPERTY Terminates
