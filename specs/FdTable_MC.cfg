CONSTANTS Fds = {0, 1, 2, 3}
SPECIFICATION Spec
INVARIANTS TypeOK EndRestores NoSilentTheft
CHECK_DEADLOCK FALSE
