CONSTANTS
  RawDom <- Dom
  Idiom = "bail"
  MaxIssues = 3
SPECIFICATION Spec
INVARIANTS TypeOK ReturnConforms LimitConforms
CHECK_DEADLOCK FALSE
