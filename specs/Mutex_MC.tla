------------------------------ MODULE Mutex_MC ------------------------------
(* Bounded configurations of Mutex.tla (thread programs cannot be written in a cfg file). *)
EXTENDS Mutex
LAU == <<"L", "A", "U">>
TAU == <<"T", "A", "U">>
\* 2 threads, two sections each, lock and try_lock
P2  == <<LAU \o TAU, LAU \o LAU>>
P2t == <<TAU \o LAU, TAU \o TAU>>
\* Debug formatting of the mutex mixed in
P2d == <<<<"D">> \o TAU \o <<"D">>, LAU \o <<"D">> \o TAU>>
P3d == <<<<"D">> \o LAU, LAU, TAU \o <<"D">>>>
\* 3 threads, one section each
P3  == <<LAU, LAU, LAU>>
P3t == <<LAU, LAU, TAU>>
\* 3 threads, two sections, try_lock mixed in
P3b == <<LAU \o LAU, LAU, TAU \o LAU>>
P3c == <<LAU \o LAU, LAU \o TAU, TAU \o LAU>>
\* 4 threads
P4  == <<LAU, LAU, LAU, LAU>>
P4b == <<LAU \o LAU, LAU, TAU \o LAU, LAU>>
P4t == <<LAU, LAU, LAU, TAU>>
=============================================================================
